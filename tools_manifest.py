#!/venv/bin/python
"""Regenerates MANIFEST.json from checks/registry.py (single source of truth)."""
import json
import os
import sys

ROOT = os.path.dirname(os.path.abspath(__file__))
sys.path.insert(0, ROOT)
from checks import registry  # noqa


def main():
    props = [json.loads(l)['id'] for l in open(os.path.join(ROOT, 'properties.jsonl'))]
    checks = []
    na = []
    for pid in props:
        r = registry.CHECKS.get(pid)
        if r is None:
            na.append(dict(property_id=pid, reason=registry.NOT_APPLICABLE.get(pid, 'check not built yet in this session (see DESIGN.md section 5 for the plan)')))
            continue
        checks.append(dict(
            property_id=pid,
            quick_cmd='bin/check %s --tier quick' % pid,
            thorough_cmd='bin/check %s --tier thorough' % pid,
            evidence_file='/verif/evidence/%s.json' % pid,
            replay_cmd_template='bin/check %s --replay {path}' % pid,
            engine='tlc+replay',
            level_claimed=dict(category=r['level'], text=r['text'], design_ref=r['design_ref']),
            level_note=r['note'],
            technique=r['technique']))
    man = dict(
        version=1,
        setup_cmd='bin/check selfcheck',
        hooks=dict(guard='RSOME_VERIF_TRACE',
                   enable='no in-repo hooks: harness/tracer.py wraps the public API from outside when RSOME_VERIF_TRACE=<file> is set',
                   baseline_off_cmd='cd /repo && /venv/bin/python -m pytest -ra -q -p no:cacheprovider --timeout=900 --continue-on-collection-errors',
                   source_commits=[], add_only=True),
        engines=[dict(name='tlc+replay', path='/verif/bin/check', serves_properties=[c['property_id'] for c in checks],
                      kind_free_text='explicit TLA+ specifications in spec/ checked with TLC; TLC-exported behaviours replayed into rsome '
                                     '(harness/replay_*.py); traces recorded from rsome validated by TLC against *Trace.tla')],
        checks=checks,
        notes=registry.NOTES,
        not_applicable=na)
    with open(os.path.join(ROOT, 'MANIFEST.json'), 'w') as f:
        json.dump(man, f, indent=1)
    print('MANIFEST.json: %d checks, %d not_applicable' % (len(checks), len(na)))


if __name__ == '__main__':
    main()
