"""Spec -> code replay for Sharing.tla (C09, expression re-use): one expression object handed to a sequence of
constructs; every use has its own epigraph variable, so the value of each use is read off the solution and compared
with the exact value the specification gives for what the use DECLARES (and with an all-fresh build)."""
import math

import numpy as np


def build(front, uses, all_fresh):
    import rsome as rso
    from rsome import ro, dro, E
    n = len(uses)
    if front == 'dro':
        m = dro.Model(1)
        z = m.rvar()
        x = m.dvar()
        t = m.dvar(n)
        fs = m.ambiguity()
        fs.suppset(z >= 0, z <= 1)
        fs.exptset(E(z) == 0.25)
        fs.probset(m.p == 1)
        m.minsup(t.sum(), fs)
    else:
        m = ro.Model()
        z = m.rvar()
        x = m.dvar()
        t = m.dvar(n)
        m.minmax(t.sum(), z >= 0, z <= 1)
    m.st(x == 0.5)
    m.st(t >= 0)
    e0 = x - z            # the shared bi-affine object
    ez0 = 2 * z           # the shared random-only object
    for k, u in enumerate(uses):
        sh = u['shared'] and not all_fresh
        e = e0 if sh else (x - z)
        ez = ez0 if sh else (2 * z)
        c = u['use']
        if c == 'row':
            m.st(t[k] >= e)
        elif c == 'Erow':
            m.st(t[k] >= E(e))
        elif c == 'Emaxof':
            m.st(t[k] >= E(rso.maxof(e, 2 * e)))
        elif c == 'maxof':
            m.st(t[k] >= rso.maxof(e, -e))
        elif c == 'neg':
            m.st(t[k] >= -e)
        elif c == 'scaled':
            m.st(t[k] >= 3 * e)
        elif c == 'setuse':
            m.st((t[k] >= x * z).forall(ez <= 1, z >= 0))
        elif c == 'ezrow':
            m.st(t[k] >= ez)
        elif c == 'newvar':
            extra = m.dvar(2)
            m.st(extra == 0)
        else:
            raise ValueError(c)
    return m, t


def _solve(front, uses, all_fresh, phase):
    phase[0] = 'build:' + ('fresh' if all_fresh else 'shared')
    m, t = build(front, uses, all_fresh)
    phase[0] = 'solve:' + ('fresh' if all_fresh else 'shared')
    m.solve(display=False)
    s = m.solution
    if s is None or (isinstance(s.objval, float) and math.isnan(s.objval)):
        return None
    v = t.get()
    import pandas as pd
    if isinstance(v, pd.Series):
        v = v.iloc[0]
    return [float(a) for a in np.array(v, dtype=float).reshape(-1)]


def replay(job):
    import traceback
    rec = job['rec']
    phase = ['start']
    out = dict(tid=job['tid'])
    for key, fresh in (('shared', False), ('fresh', True)):
        try:
            out[key] = _solve(rec['front'], rec['uses'], fresh, phase)
        except Exception as e:
            tb = traceback.extract_tb(e.__traceback__)
            if not any('/rsome/' in fr.filename for fr in tb):
                raise
            out[key] = dict(exc='%s: %s' % (type(e).__name__, e), phase=phase[0])
    return out
