"""Spec -> code replay for Interleave.tla (C17 / C09 / C19): two models of any of the five classes run their scripts
(decl, cons1, obj, solve1, cons2, dual, solve2) under a schedule chosen by TLC; after EVERY step both models' results are
read again.  Ideal: what a model reports is a function of its own declarations - it equals the solo run of the same script
(computed in a separate process) and never changes while the other model moves; the caller's arrays (handed to both
models) and the process-wide defaults of the solver interfaces stay untouched."""
import inspect
import math

import numpy as np

from harness.replay_userdata import sig

STEPS = ['decl', 'cons1', 'obj', 'solve1', 'cons2', 'dual', 'solve2']
# objective cut-offs handed to Gurobi at the second solve (times the slot factor): above the model's own optimum, below others'
CUTOFF = dict(lp=2.2, socp=4.7, ro=4.0, dro=8.6)


def shared_arrays():
    return dict(A=np.array([[1.0, 2.0], [3.0, 1.0]]), c=np.array([1.0, 1.5]), b=np.array([2.0, 3.0]))


class Script:
    """One model's script.  slot 'A' / 'B' only changes numbers, so that two models of one class differ."""

    def __init__(self, front, slot, shared):
        self.front, self.slot, self.sh = front, slot, shared
        self.k = 1.0 if slot == 'A' else 1.5
        self.m = None
        self.solved = False
        self.clean = False
        self.last = None           # results recorded at the last solve

    def _st(self, *cs):
        if self.front in ('ro', 'dro'):
            self.m.st(*cs)
        else:
            self.m.st(list(cs))

    def _solver(self, which):
        """(interface, params).  The second solve goes through Gurobi with a parameter that is harmless for THIS model (an
        objective cut-off 30 % above its own optimum region) but would change another model's answer if it leaked into
        process-wide solver state; the exponential-cone class stays on ECOS."""
        from rsome import eco_solver, grb_solver
        f = self.front
        if which == 2 and f != 'gcp':
            return grb_solver, {'Cutoff': CUTOFF[f] * self.k}
        if f in ('socp', 'gcp', 'ro', 'dro'):
            return eco_solver, None
        return None, None

    def decl(self):
        from rsome import lp, socp, gcp, ro, dro
        f = self.front
        self.m = dict(lp=lp.Model, socp=socp.Model, gcp=gcp.Model, ro=ro.Model)[f]() if f != 'dro' else dro.Model(2)
        m = self.m
        self.x = m.dvar(2)
        if f == 'ro':
            self.z = m.rvar(2)
            self.y = m.ldr()
            self.y.adapt(self.z)
        elif f == 'dro':
            self.z = m.rvar(2)
            self.y = m.dvar()
            self.y.adapt(0)
            self.y.adapt(1)
            self.fset = m.ambiguity()

    def cons1(self):
        import rsome as rso
        from rsome import E
        A, b, k, x = self.sh['A'], self.sh['b'], self.k, self.x
        f = self.front
        if f in ('lp', 'socp', 'gcp'):
            self._st(x >= 0, x <= 6, A @ x >= k * b)
        elif f == 'ro':
            z = self.z
            self._st(x >= 0, x <= 6)
            self.m.st((A @ x - z >= k * b).forall(rso.norm(z, 1) <= 1))
            self.m.st(self.y >= z[0] + z[1] - 1, self.y <= 5)
        else:
            z, fs, m = self.z, self.fset, self.m
            for s in range(2):
                fs[s].suppset(abs(z) <= 1 + 0.5 * s)
            fs.exptset(E(z) == 0)
            fs.probset(m.p == 0.5)
            m.st(x >= 0, x <= 6, A @ x - z >= k * b)
            m.st(self.y >= z[0] + z[1] - 1, self.y <= 5)

    def obj(self):
        import rsome as rso
        from rsome import E
        c, x, f, k = self.sh['c'], self.x, self.front, self.k
        if f == 'lp':
            self.m.min(c @ x)
        elif f == 'socp':
            self.m.min(rso.sumsqr(x) + c @ x)
        elif f == 'gcp':
            self.m.min(c @ x + rso.exp(x[0] - 1))
        elif f == 'ro':
            self.m.minmax(c @ x + self.y, rso.norm(self.z) <= k)
        else:
            self.m.minsup(E(rso.maxof(c @ x + self.z[0] + self.y, 2 * (c @ x) - 1 + self.z[1])), self.fset)

    def cons2(self):
        import rsome as rso
        self.clean = False
        x, f, k = self.x, self.front, self.k
        if f == 'lp':
            self._st(abs(x[0] - x[1]) <= 0.1 * k)
        elif f == 'socp':
            self._st(rso.norm(x - self.sh['c']) <= 0.4 * k)
        elif f == 'gcp':
            self._st(rso.log(x[1]) >= 0.5 * k)
        elif f == 'ro':
            z = self.z
            self.m.st((x[0] + z[0] * x[1] <= 6).forall(abs(z) <= 0.5))
            self.m.st(x[0] - x[1] + z[0] <= 0.5 * k)
        else:
            self.m.st(x[0] + x[1] >= 2.5 * k + self.z[0])

    def dual(self):
        self.clean = False
        self.dual_sig = sig(self.m.do_math(primal=False))

    def _solve(self, which):
        s, params = self._solver(which)
        if which == 2 and self.slot == 'B' and self.front in ('gcp', 'ro', 'dro'):
            # the second model of a pair re-solves through the SOC approximation entry point (exact here except for gcp)
            if params is None:
                self.m.soc_solve(s, display=False)
            else:
                self.m.soc_solve(s, display=False, params=params)
        elif s is None:
            self.m.solve(display=False)
        elif params is None:
            self.m.solve(s, display=False)
        else:
            self.m.solve(s, display=False, params=params)
        self.solved = True
        self.clean = True
        self.last = self.read()

    def solve1(self):
        self._solve(1)

    def solve2(self):
        self._solve(2)

    def read(self):
        """What the model reports now (None entries when no solution is available)."""
        if not self.solved:
            return None
        sol = self.m.solution
        if sol is None or (isinstance(sol.objval, float) and math.isnan(sol.objval)):
            return dict(obj=None)
        out = dict(obj=float(self.m.get()))
        xv = self.x.get()
        if self.front == 'dro':
            import pandas as pd
            if isinstance(xv, pd.Series):
                xv = np.concatenate([np.asarray(v, dtype=float).reshape(-1) for v in xv])
        out['x'] = [float(v) for v in np.asarray(xv, dtype=float).reshape(-1)]
        # C12: x() and x.get() agree, and an affine expression evaluates to its NumPy value at x.get()
        def flat(v):
            if self.front == 'dro':
                import pandas as pd
                if isinstance(v, pd.Series):
                    v = np.concatenate([np.asarray(e, dtype=float).reshape(-1) for e in v])
            return np.asarray(v, dtype=float).reshape(-1)
        if not self.clean:
            return out          # declared further / formulated again since the solve: expressions built now have other columns
        xc, ec = flat(self.x()), flat((3 * self.x - 1)())
        xg = np.asarray(out['x'])
        if xc.shape != xg.shape or np.abs(xc - xg).max() > 1e-7 * (1 + np.abs(xg).max()):
            out['call_mismatch'] = 'x() = %r, x.get() = %r' % (xc.tolist(), xg.tolist())
        elif ec.shape != xg.shape or np.abs(ec - (3 * xg - 1)).max() > 1e-7 * (1 + np.abs(xg).max()):
            out['call_mismatch'] = '(3*x - 1)() = %r at x.get() = %r' % (ec.tolist(), xg.tolist())
        return out

    def final(self):
        return dict(primal=sig(self.m.do_math()), dual=getattr(self, 'dual_sig', None))


def _defaults_snapshot():
    """The mutable default arguments (params={}) of every solver entry point the scripts can reach."""
    from rsome import lp, eco_solver, grb_solver, ort_solver, ro, dro
    out = {}
    for name, fn in (('def_sol', lp.def_sol), ('eco', eco_solver.solve), ('grb', grb_solver.solve), ('ort', ort_solver.solve),
                     ('lp.Model.solve', lp.Model.solve), ('ro.Model.solve', ro.Model.solve), ('dro.Model.solve', dro.Model.solve)):
        for p in inspect.signature(fn).parameters.values():
            if isinstance(p.default, (dict, list, set)):
                out['%s.%s' % (name, p.name)] = repr(p.default)
    return out


def _class_snapshot():
    """Class-level (process-wide) attributes of the model / expression classes: plain data only."""
    from rsome import lp, socp, gcp, ro, dro
    out = {}
    for mod in (lp, socp, gcp, ro, dro):
        for cname, cls in vars(mod).items():
            if inspect.isclass(cls) and cls.__module__ == mod.__name__:
                for a, v in vars(cls).items():
                    if a.startswith('__') or callable(v) or isinstance(v, (property, staticmethod, classmethod)):
                        continue
                    out['%s.%s.%s' % (mod.__name__, cname, a)] = repr(v)[:80]
    return out


def _same(a, b, tol):
    if a is None or b is None:
        return a is None and b is None
    if (a.get('obj') is None) != (b.get('obj') is None):
        return False
    if a.get('obj') is None:
        return True
    if abs(a['obj'] - b['obj']) > tol * (1 + abs(b['obj'])):
        return False
    return True


def run_schedule(fa, fb, sched, solo=False):
    """Execute a schedule (sequence of 'A' / 'B'); returns per slot the results at each solve and the final forms, and the
    list of observations that contradict the ideal."""
    shared = shared_arrays()
    before = {k: (v.tobytes(), v.strides, v.flags.writeable) for k, v in shared.items()}
    d0, c0 = _defaults_snapshot(), _class_snapshot()
    scripts = {'A': Script(fa, 'A', shared)}
    if fb is not None:
        scripts['B'] = Script(fb, 'B', shared)
    pc = {s: 0 for s in scripts}
    rec = {s: {} for s in scripts}
    obs = []
    for n, who in enumerate(sched):
        sc = scripts[who]
        step = STEPS[pc[who]]
        pc[who] += 1
        try:
            getattr(sc, step)()
        except Exception as e:
            import traceback
            tb = traceback.extract_tb(e.__traceback__)
            if not any('/rsome/' in fr.filename for fr in tb):
                raise
            obs.append(dict(kind='raises', slot=who, step=step, at=n, what='%s: %s' % (type(e).__name__, str(e)[:120])))
            return dict(rec=rec, obs=obs, aborted=True)
        if step in ('solve1', 'solve2'):
            rec[who][step] = sc.last
        # both models are read again after every step: a model that did not move must report what it reported before
        for s, other in scripts.items():
            if s == who or not other.solved:
                continue
            try:
                now = other.read()
            except Exception as e:
                obs.append(dict(kind='read-raises-after-other-models-step', slot=s, step=step, at=n, what='%s: %s' % (type(e).__name__, str(e)[:120])))
                continue
            if now != other.last:
                obs.append(dict(kind='results-changed-by-other-models-step', slot=s, step=step, at=n,
                                what='%r before, %r after %s.%s' % (other.last, now, who, step)))
                other.last = now
    for s, sc in scripts.items():
        if pc[s] == len(STEPS):
            rec[s]['final'] = sc.final()
    after = {k: (v.tobytes(), v.strides, v.flags.writeable) for k, v in shared.items()}
    for k in before:
        if before[k] != after[k]:
            obs.append(dict(kind='user-array-changed', slot='-', step='-', at=len(sched), what='array %s' % k))
    d1, c1 = _defaults_snapshot(), _class_snapshot()
    if d1 != d0:
        obs.append(dict(kind='solver-default-arguments-changed', slot='-', step='-', at=len(sched),
                        what=str({k: (d0.get(k), d1.get(k)) for k in set(d0) | set(d1) if d0.get(k) != d1.get(k)})))
    if c1 != c0:
        obs.append(dict(kind='class-level-state-changed', slot='-', step='-', at=len(sched),
                        what=str({k: (c0.get(k), c1.get(k)) for k in set(c0) | set(c1) if c0.get(k) != c1.get(k)})[:300]))
    return dict(rec=rec, obs=obs, aborted=False)


def solo(job):
    """Reference: one model alone, in a process that has built nothing else."""
    r = run_schedule(job['front'], None, ['A'] * len(STEPS)) if job['slot'] == 'A' else _solo_b(job['front'])
    return dict(front=job['front'], slot=job['slot'], rec=r['rec'][job['slot']] if not r['aborted'] else None, obs=r['obs'])


def _solo_b(front):
    shared = shared_arrays()
    sc = Script(front, 'B', shared)
    rec, obs = {}, []
    for step in STEPS:
        try:
            getattr(sc, step)()
        except Exception as e:
            obs.append(dict(kind='raises', slot='B', step=step, at=-1, what='%s: %s' % (type(e).__name__, str(e)[:120])))
            return dict(rec={'B': rec}, obs=obs, aborted=True)
        if step in ('solve1', 'solve2'):
            rec[step] = sc.last
    rec['final'] = sc.final()
    return dict(rec={'B': rec}, obs=obs, aborted=False)


def replay(job):
    c = job['case']
    r = run_schedule(c['fa'], c['fb'], c['sched'])
    return dict(tid=job['tid'], rec=r['rec'], obs=r['obs'], aborted=r['aborted'])
