"""Spec -> code replay for Misuse.tla (C17): one misuse on a pair of models of any two front ends."""
import math

import numpy as np

class LateRejection(Exception):
    pass


OPT = {1.0: 4.0, 2.0: 5.0}     # optimum of mk(front, shift): x0 = shift + 1, x1 = 2


def mk(front, shift):
    from rsome import ro, dro, lp, socp, gcp
    m = dict(lp=lp.Model, socp=socp.Model, gcp=gcp.Model, ro=ro.Model)[front]() if front != 'dro' else dro.Model(2)
    x = m.dvar(2)
    h = dict(m=m, x=x, front=front, z=None, fs=None)
    if front == 'ro':
        z = m.rvar()
        h['z'] = z
        m.minmax(x.sum() + 0 * z, z >= 0, z <= 1)
        m.st(x[0] >= shift + z)
    elif front == 'dro':
        z = m.rvar()
        fs = m.ambiguity()
        fs.suppset(z >= 0, z <= 1)
        h.update(z=z, fs=fs)
        m.minsup(x.sum(), fs)
        m.st(x[0] >= shift + z)
    else:
        m.min(x.sum())
        m.st(x[0] >= shift + 1)
    m.st(x[1] >= 2)
    return h


def solved_value(h):
    m = h['m']
    m.solve(display=False)
    s = m.solution
    if s is None or (isinstance(s.objval, float) and math.isnan(s.objval)):
        return None
    return float(m.get())


def misuse(kind, a, b):
    """Perform the misuse on victim a (bystander b). Returns normally if rsome accepts it."""
    import rsome as rso
    m, x, y = a['m'], a['x'], b['x']
    if kind == 'st_foreign_lin':
        m.st(y[0] + y[1] <= 100)
    elif kind == 'st_foreign_bound':
        m.st(y <= 100)
    elif kind == 'st_foreign_abs':
        m.st(abs(y) <= 100)
    elif kind == 'st_foreign_norm':
        m.st(rso.norm(y) <= 100)
    elif kind == 'concat_foreign_first':
        m.st(np.ones(4) @ rso.concat((y, x)) <= 100)
    elif kind == 'concat_foreign_last':
        m.st(np.ones(4) @ rso.concat((x, y)) <= 100)
    elif kind == 'rstack_foreign':
        m.st(rso.rstack(x, y).sum() <= 100)
    elif kind == 'vec_foreign':
        m.st(rso.vec(x[0], y[1]).sum() <= 100)
    elif kind == 'sumsqr_two_foreign':
        m.st(rso.sumsqr(x, y) <= 100)
    elif kind == 'mix_vars':
        m.st(x[0] + y[0] <= 100)
    elif kind == 'obj_foreign':
        a2 = mk(a['front'], 1.0) if False else None
        # a model WITHOUT objective yet, of the victim's class, given the bystander's variable as objective
        from rsome import ro, dro, lp, socp, gcp
        fresh = dict(lp=lp.Model, socp=socp.Model, gcp=gcp.Model, ro=ro.Model)[a['front']]() if a['front'] != 'dro' else dro.Model(2)
        v = fresh.dvar(2)
        fresh.st(v >= 0)
        fresh.min(y[0] + 0)
        # accepted by min(): the property is kept as long as NO model comes out of it - formulation must refuse
        try:
            fresh.solve(display=False)
        except Exception as e:
            import traceback
            if not any('/rsome/' in fr.filename for fr in traceback.extract_tb(e.__traceback__)):
                raise
            raise LateRejection('%s: %s' % (type(e).__name__, e))
    elif kind == 'obj_redefine_min':
        m.min(x[0] + 0)
    elif kind == 'obj_redefine_max':
        m.max(x[0] + 0)
    elif kind == 'obj_nonscalar':
        from rsome import ro, dro, lp, socp, gcp
        fresh = dict(lp=lp.Model, socp=socp.Model, gcp=gcp.Model, ro=ro.Model)[a['front']]() if a['front'] != 'dro' else dro.Model(2)
        v = fresh.dvar(2)
        fresh.min(v)
    elif kind in ('get_unsolved', 'get_after_fail'):
        m.get()
    elif kind in ('varget_unsolved', 'varget_after_fail'):
        x.get()
    elif kind == 'st_not_a_constraint':
        m.st(5)
    elif kind == 'forall_foreign_set':
        c = (x[0] >= a['z'])
        zb = b['z']
        c.forall([zb >= 0, zb <= 1]) if a['front'] == 'dro' else c.forall(zb >= 0, zb <= 1)
    elif kind == 'st_foreign_robust':
        m.st(y[0] >= b['z'])
    elif kind == 'ambiguity_after_constraints':
        m.ambiguity()
    elif kind == 'st_foreign_maxof':
        m.st(rso.maxof(y[0], -y[1]) <= 100)
    elif kind == 'st_foreign_minof':
        m.st(rso.minof(y[0], -y[1]) >= -100)
    elif kind == 'st_foreign_Emaxof':
        from rsome import E
        m.st(E(rso.maxof(y[0] + b['z'], -y[1])) <= 100)
    elif kind.startswith('robobj_'):
        from rsome import ro, dro
        lo = kind.endswith('_lo')
        what = kind[len('robobj_'):-3]
        if what == 'redefine':
            target, v, zz = m, x, a['z']
        else:
            target = ro.Model() if a['front'] == 'ro' else dro.Model(2)
            v = target.dvar(2)
            zz = target.rvar()
        expr = (v if what == 'nonscalar' else v[0]) + 0 * zz
        if a['front'] == 'ro':
            sset = (b['z'] >= 0, b['z'] <= 1) if what == 'foreign_set' else (zz >= 0, zz <= 1)
            (target.minmax if lo else target.maxmin)(expr, *sset)
        else:
            if what == 'foreign_set':
                fs = b['fs'] if b['front'] == 'dro' else [b['z'] >= 0, b['z'] <= 1]
            elif what == 'redefine':
                fs = a['fs']
            else:
                fs = target.ambiguity()
                fs.suppset(zz >= 0, zz <= 1)
            (target.minsup if lo else target.maxinf)(expr, fs)
            if what == 'foreign_set':
                # accepted by minsup/maxinf: no model may come out of it - formulation must refuse
                try:
                    target.st(v >= zz)
                    target.st(v <= 5)
                    target.solve(display=False)
                except Exception as e:
                    import traceback
                    if not any('/rsome/' in fr.filename for fr in traceback.extract_tb(e.__traceback__)):
                        raise
                    raise LateRejection('%s: %s' % (type(e).__name__, e))
                if target.solution is None:
                    raise LateRejection('no solution: the model could not be solved')
    else:
        raise ValueError(kind)


def replay(job):
    import traceback
    c = job['case']
    out = dict(tid=job['tid'])
    a, b = mk(c['f'], 1.0), mk(c['g'], 2.0)
    if c['kind'] in ('get_after_fail', 'varget_after_fail'):
        a['m'].st(a['x'][1] <= 0)                # contradicts x1 >= 2: the solve below fails
        out['first'] = solved_value(a)
    elif c['when'] == 'after':
        out['first'] = solved_value(a)
    try:
        misuse(c['kind'], a, b)
        out['misuse'] = 'accepted'
    except LateRejection as e:
        out['misuse'] = 'raised-late:%s' % str(e).split(':')[0]
        out['msg'] = str(e)[:120]
    except Exception as e:
        tb = traceback.extract_tb(e.__traceback__)
        if not any('/rsome/' in fr.filename for fr in tb):
            raise
        out['misuse'] = 'raised:%s' % type(e).__name__
        out['msg'] = str(e)[:120]
    # isolation: both models afterwards
    for key, h, shift in (('a', a, 1.0), ('b', b, 2.0)):
        try:
            out[key] = solved_value(h)
        except Exception as e:
            tb = traceback.extract_tb(e.__traceback__)
            if not any('/rsome/' in fr.filename for fr in tb):
                raise
            out[key] = 'raised:%s: %s' % (type(e).__name__, str(e)[:100])
    return out
