"""Spec -> code replay for Dispatch.tla (C06): for every (xtype, position, decoration, front end) of the
routing table build a boxed model in which the item is ACTIVE at the optimum (the objective pushes
against it and the corner of the box violates it, so a dropped or replaced item still yields an
"optimal" point - one that violates what the user wrote), solve, and evaluate the user's expression
directly at the returned variable values."""
import math

import numpy as np

TOL = {'lp': 1e-6, 'soc': 2e-5, 'exp': 5e-4}
PHAT = np.array([0.5, 0.3, 0.2])
QM = np.array([[2.0, 0.5], [0.5, 1.0]])
PB = np.array([[2, 3], [3, 2]])


def _ent(v):
    v = np.asarray(v, dtype=float)
    return float(-(v * np.log(v)).sum())


# xtype -> list of atoms.  kind: 'cvx' (f(x) <= r), 'ccv' (f(x) >= r), 'cone' (relation among variables)
# n = number of variables, elementwise = the atom maps arrays to arrays
ATOMS = {
    'A': [dict(name='abs', n=2, ew=True, kind='cvx', cone='lp', lo=-3, hi=3, r=1.5, mk=lambda rso, x: abs(x), f=lambda a: np.abs(a))],
    'M': [dict(name='norm1', n=2, ew=False, kind='cvx', cone='lp', lo=-3, hi=3, r=2.0, mk=lambda rso, x: rso.norm(x, 1), f=lambda a: np.abs(a).sum())],
    'I': [dict(name='norminf', n=2, ew=False, kind='cvx', cone='lp', lo=-3, hi=3, r=1.25, mk=lambda rso, x: rso.norm(x, 'inf'), f=lambda a: np.abs(a).max())],
    'E': [dict(name='norm2', n=2, ew=False, kind='cvx', cone='soc', lo=-3, hi=3, r=2.0, mk=lambda rso, x: rso.norm(x), f=lambda a: math.sqrt((a ** 2).sum()))],
    'S': [dict(name='square', n=2, ew=True, kind='cvx', cone='soc', lo=-3, hi=3, r=2.25, mk=lambda rso, x: rso.square(x), f=lambda a: a ** 2)],
    'Q': [dict(name='sumsqr', n=2, ew=False, kind='cvx', cone='soc', lo=-3, hi=3, r=4.0, mk=lambda rso, x: rso.sumsqr(x), f=lambda a: (a ** 2).sum()),
          dict(name='quad', n=2, ew=False, kind='cvx', cone='soc', lo=-3, hi=3, r=4.0, mk=lambda rso, x: rso.quad(x, QM), f=lambda a: float(a @ QM @ a))],
    'G': [dict(name='pnorm3', n=2, ew=False, kind='cvx', cone='soc', lo=-3, hi=3, r=2.0, mk=lambda rso, x: rso.pnorm(x, 3), f=lambda a: (np.abs(a) ** 3).sum() ** (1 / 3.0)),
          dict(name='pnorm3_2', n=2, ew=False, kind='cvx', cone='soc', lo=-3, hi=3, r=2.0, mk=lambda rso, x: rso.pnorm(x, [3, 2]), f=lambda a: (np.abs(a) ** 1.5).sum() ** (1 / 1.5))],
    'T': [dict(name='power3', n=2, ew=True, kind='cvx', cone='soc', lo=-3, hi=3, r=3.375, mk=lambda rso, x: rso.power(x, 3), f=lambda a: np.abs(a) ** 3),
          dict(name='power3_2', n=2, ew=True, kind='cvx', cone='soc', lo=-3, hi=3, r=2.0, mk=lambda rso, x: rso.power(x, 3, 2), f=lambda a: np.abs(a) ** 1.5),
          # exponent TABLE broadcast against a smaller argument: x of shape (2,) against p of shape (2, 2)
          dict(name='power_bcast', n=2, ew=True, out=(2, 2), constr_only=True, kind='cvx', cone='soc', lo=-3, hi=3, r=2.0,
               mk=lambda rso, x: rso.power(x, PB), f=lambda a: np.abs(a)[None, :] ** PB)],
    'C': [dict(name='gmean', n=2, ew=False, kind='ccv', cone='soc', lo=0.1, hi=4, r=1.5, mk=lambda rso, x: rso.gmean(x), f=lambda a: math.sqrt(a[0] * a[1]))],
    'N': [dict(name='pnorm_exc', n=2, ew=False, kind='cvx', cone='exp', lo=-3, hi=3, r=2.0, mk=lambda rso, x: rso.pnorm(x, 2.5), f=lambda a: (np.abs(a) ** 2.5).sum() ** (1 / 2.5))],
    'X': [dict(name='exp', n=2, ew=True, kind='cvx', cone='exp', lo=-2, hi=3, r=3.0, mk=lambda rso, x: rso.exp(x), f=lambda a: np.exp(a))],
    'L': [dict(name='log', n=2, ew=True, kind='ccv', cone='exp', lo=0.2, hi=5, r=0.5, mk=lambda rso, x: rso.log(x), f=lambda a: np.log(a))],
    'P': [dict(name='entropy', n=2, ew=False, kind='ccv', cone='exp', lo=0.05, hi=1.5, r=0.6, mk=lambda rso, x: rso.entropy(x), f=lambda a: _ent(a))],
    'F': [dict(name='softplus', n=2, ew=True, kind='cvx', cone='exp', lo=-3, hi=3, r=1.5, mk=lambda rso, x: rso.softplus(x), f=lambda a: np.log(1 + np.exp(a)))],
}


def _solver(cone, fe_k):
    if cone == 'lp':
        return ('def', 'ort', 'eco', 'grb')[fe_k % 4]
    if cone == 'soc':
        return ('eco', 'grb')[fe_k % 2]
    return 'eco'


def _solve(m, solver):
    if solver == 'def':
        m.solve(display=False)
    else:
        import importlib
        m.solve(importlib.import_module('rsome.%s_solver' % solver), display=False)
    s = m.solution
    return s is not None and s.x is not None and not (isinstance(s.objval, float) and math.isnan(s.objval))


def _getx(x):
    import pandas as pd
    v = x.get()
    if isinstance(v, pd.Series):
        v = v.iloc[0]
    return np.array(v, dtype=float).reshape(-1)


def _model(fe):
    from rsome import ro, dro, lp, socp, gcp
    return dict(ro=ro.Model, lp=lp.Model, socp=socp.Model, gcp=gcp.Model)[fe]() if fe != 'dro' else dro.Model(2)


_ST_COUNT = [0]


def _st(m, *cons):
    """Post constraints: ro/dro accept several arguments; the deterministic classes (lp, socp, gcp) one constraint or one
    iterable - lists and tuples alternate so that the iterable branch of every st() is exercised."""
    _ST_COUNT[0] += 1
    bare = type(m).__module__.split('.')[-1] in ('lp', 'socp', 'gcp')
    if len(cons) == 1 and not (bare and _ST_COUNT[0] % 3 == 0):
        return m.st(cons[0])
    if bare or _ST_COUNT[0] % 2:
        return m.st(list(cons) if _ST_COUNT[0] % 4 < 2 else tuple(cons))
    return m.st(*cons)


def run_atom(job):
    """One (atom, position, decoration, front end) case. Returns a finding dict or a status record."""
    import rsome as rso
    it = job['item']
    atom = ATOMS[it['x']][job['ai'] % len(ATOMS[it['x']])]
    fe, k, c, summed, vec = job['fe'], job['k'], job['c'], it['summed'], job['vec']
    name = atom['name']
    cone = atom['cone']
    tol = TOL[cone]
    m = _model(fe)
    x = m.dvar(atom['n'])
    _st(m, x >= atom['lo'], x <= atom['hi'])
    # "every constraint accepted by st()": the box is a user constraint too.  On every other case a LOOSER bound on the same
    # entries is declared after the tight one (redundant, must change nothing); the returned point must respect the tight box
    looser_later = (job.get('ai', 0) + job.get('sk', 0) + (1 if it['pos'] == 'constr' else 0)) % 2 == 1
    if looser_later:
        _st(m, x <= np.asarray(atom['hi']) + 3.0)
        _st(m, x >= np.asarray(atom['lo']) - 3.0)

    def box_sig(a, tol_):
        lo_, hi_ = np.asarray(atom['lo'], dtype=float), np.asarray(atom['hi'], dtype=float)
        out_ = float(max(np.max(a - hi_), np.max(lo_ - a)))
        if out_ > 30 * tol_ * (1 + float(np.max(np.abs(hi_)))):
            return 'C06:bound-not-enforced:%s:%s' % ('looser-bound-declared-later' if looser_later else 'single-box', fe)
        return None
    w = np.array([1.0, 0.7])
    expr = atom['mk'](rso, x)
    ew = atom['ew']
    if summed:
        expr = expr.sum()

    def fval(a):
        v = atom['f'](a)
        if summed:
            v = float(np.sum(v))
        return v
    cvx = atom['kind'] == 'cvx'
    solver = _solver(cone, job['sk'])
    tag = '%s:%s%s' % (name, it['pos'], ':summed' if summed else '')
    base = dict(atom=name, xtype=it['x'], pos=it['pos'], fe=fe, k=k, c=c, summed=summed, solver=solver)
    if it['pos'] == 'constr':
        # user writes   k*f(x) + c <= k*r + c   (or >= for concave); the objective pushes x outwards
        r = atom['r']
        if ew and not summed and vec:
            out_shape = atom.get('out', (atom['n'],))
            # a DIFFERENT limit per entry, so that entries paired with the wrong right-hand side are visible
            fac = np.array([1.0, 1.7, 0.6, 1.3, 0.8, 1.5])
            rr = r * np.resize(fac, int(np.prod(out_shape))).reshape(out_shape)      # neither increasing nor decreasing
        else:
            rr = r
        if summed:
            rr = r * 1.6
        lhs = k * expr + c
        rhs = k * rr + c
        con = (lhs <= rhs) if cvx else (lhs >= rhs)
        _st(m, con)
        if cvx:
            m.max(w @ x)
        else:
            m.min(w @ x)
        if not _solve(m, solver):
            return dict(base, status='unsolved', sig='C06:boxed-model-not-solved:%s:%s' % (tag, fe))
        a = _getx(x)
        val = fval(a)
        lim = rr
        viol = float(np.max(val - lim)) if cvx else float(np.max(lim - val))
        objv = float(m.get())
        out = dict(base, status='ok', x=a.tolist(), value=np.asarray(val).tolist(), limit=np.asarray(lim).tolist(), violation=viol, obj=objv)
        if viol > 10 * tol * (1 + abs(r)) * 3:
            out['sig'] = 'C06:constraint-not-enforced:%s:%s' % (tag, fe)
        elif viol > tol * (1 + abs(r)):
            out['inconclusive'] = True
        if abs(objv - float(w @ a)) > 10 * tol * (1 + abs(objv)):
            out['sig2'] = 'C06:objective-value-differs:affine:%s' % fe
        if box_sig(a, tol) and 'sig' not in out:
            out['sig'] = box_sig(a, tol)
        # active? (vacuity of the individual case: the constraint, not the box, stops the objective)
        out['active'] = bool(viol > -1e-3 * (1 + abs(r)))
        return out
    # objective position:  min k*f(x) + c - lin(x)   (max for concave), box only
    if atom.get('constr_only'):
        return dict(base, status='ok', skipped='objective form not defined for this atom')
    if ew and not summed:
        expr = atom['mk'](rso, x[0])      # objective must be scalar: apply the element-wise atom to one entry

        def fval(a):      # noqa
            return float(np.asarray(atom['f'](np.array([a[0]]))).reshape(-1)[0])
    lin = 0.4 * x[0] - 0.3 * x[1]
    if cvx:
        m.min(k * expr + c - lin)
    else:
        m.max(k * expr + c - lin)
    ok = _solve(m, solver)
    if not ok:
        return dict(base, status='unsolved', sig='C06:objective-dropped-or-unsolved:%s:%s' % (tag, fe))
    a = _getx(x)
    want = k * fval(a) + c - (0.4 * a[0] - 0.3 * a[1])
    objv = float(m.get())
    out = dict(base, status='ok', x=a.tolist(), obj=objv, want=want)
    if abs(objv - want) > 10 * tol * (1 + abs(want)):
        out['sig'] = 'C06:objective-value-differs:%s:%s' % (tag, fe)
    elif abs(objv - want) > tol * (1 + abs(want)):
        out['inconclusive'] = True
    if box_sig(a, tol) and 'sig' not in out:
        out['sig'] = box_sig(a, tol)
    return out


def run_other(job):
    """Constraint classes that are not Convex objects: KL, exponential cone, rotated cone, maxof/minof."""
    import rsome as rso
    kind, fe = job['kind'], job['fe']
    m = _model(fe)
    base = dict(atom=kind, pos='constr', fe=fe)
    if kind == 'KL':
        p = m.dvar(3)
        r = 0.05
        _st(m, p >= 0, p.sum() == 1)
        _st(m, rso.kldiv(p, PHAT, r))
        m.max(p[2] - p[0])
        if not _solve(m, 'eco'):
            return dict(base, status='unsolved', sig='C06:boxed-model-not-solved:kldiv:%s' % fe)
        a = _getx(p)
        a = np.maximum(a, 1e-12)
        val = float((a * np.log(a / PHAT)).sum())
        out = dict(base, status='ok', x=a.tolist(), value=val, limit=r, violation=val - r, active=bool(val - r > -1e-3))
        if val - r > 10 * TOL['exp']:
            out['sig'] = 'C06:constraint-not-enforced:kldiv:%s' % fe
        return out
    if kind == 'ExpCone':
        v = m.dvar(3)       # y, x, z :  z*exp(x/z) <= y
        _st(m, v >= 0.2, v <= 4)
        _st(m, v[2] == 1.5)
        _st(m, rso.expcone(v[0], v[1], v[2]))
        m.max(v[1] - v[0])
        if not _solve(m, 'eco'):
            return dict(base, status='unsolved', sig='C06:boxed-model-not-solved:expcone:%s' % fe)
        a = _getx(v)
        viol = a[2] * math.exp(a[1] / a[2]) - a[0]
        out = dict(base, status='ok', x=a.tolist(), violation=viol, active=bool(viol > -1e-3))
        if viol > 10 * TOL['exp'] * 5:
            out['sig'] = 'C06:constraint-not-enforced:expcone:%s' % fe
        return out
    if kind == 'RSOCone':
        u = m.dvar(2)
        yz = m.dvar(2)
        _st(m, u >= -3, u <= 3, yz >= 0.1, yz <= 2)
        _st(m, rso.rsocone(u, yz[0], yz[1]))
        m.max(u[0] + 0.5 * u[1] - 0.2 * yz[0] - 0.2 * yz[1])
        if not _solve(m, ('eco', 'grb')[job['sk'] % 2]):
            return dict(base, status='unsolved', sig='C06:boxed-model-not-solved:rsocone:%s' % fe)
        a, b = _getx(u), _getx(yz)
        viol = float((a ** 2).sum() - b[0] * b[1])
        out = dict(base, status='ok', x=a.tolist() + b.tolist(), violation=viol, active=bool(viol > -1e-3))
        if viol > 10 * TOL['soc'] * 10:
            out['sig'] = 'C06:constraint-not-enforced:rsocone:%s' % fe
        return out
    if kind in ('maxof', 'minof'):
        x = m.dvar(2)
        _st(m, x >= -3, x <= 3)
        if kind == 'maxof':
            _st(m, rso.maxof(2 * x[0] - 1, 0.5 - x[1], x[0] + x[1]) <= 1.5)
            m.max(x[0] + 0.7 * x[1])
        else:
            _st(m, rso.minof(2 * x[0] - 1, 0.5 - x[1], x[0] + x[1]) >= -1.5)
            m.min(x[0] + 0.7 * x[1])
        if not _solve(m, ('def', 'ort', 'grb')[job['sk'] % 3]):
            return dict(base, status='unsolved', sig='C06:boxed-model-not-solved:%s:%s' % (kind, fe))
        a = _getx(x)
        pieces = [2 * a[0] - 1, 0.5 - a[1], a[0] + a[1]]
        viol = max(pieces) - 1.5 if kind == 'maxof' else -1.5 - min(pieces)
        out = dict(base, status='ok', x=a.tolist(), violation=viol, active=bool(viol > -1e-3))
        if viol > 1e-5:
            out['sig'] = 'C06:constraint-not-enforced:%s:%s' % (kind, fe)
        return out
    if kind in ('maxof_obj', 'minof_obj'):
        x = m.dvar(2)
        _st(m, x >= -3, x <= 3)
        if kind == 'maxof_obj':
            m.min(rso.maxof(2 * x[0] - 1, 0.5 - x[1], x[0] + x[1]))
        else:
            m.max(rso.minof(2 * x[0] - 1, 0.5 - x[1], x[0] + x[1]))
        if not _solve(m, ('def', 'ort', 'grb')[job['sk'] % 3]):
            return dict(base, status='unsolved', sig='C06:objective-dropped-or-unsolved:%s:%s' % (kind, fe))
        a = _getx(x)
        pieces = [2 * a[0] - 1, 0.5 - a[1], a[0] + a[1]]
        want = max(pieces) if kind == 'maxof_obj' else min(pieces)
        objv = float(m.get())
        out = dict(base, status='ok', x=a.tolist(), obj=objv, want=want)
        if abs(objv - want) > 1e-5:
            out['sig'] = 'C06:objective-value-differs:%s:%s' % (kind, fe)
        return out
    raise ValueError(kind)


def replay(job):
    import traceback
    try:
        if job['what'] == 'atom':
            return run_atom(job)
        return run_other(job)
    except Exception as e:
        tb = traceback.extract_tb(e.__traceback__)
        if not any('/rsome/' in fr.filename for fr in tb):
            raise
        who = job['item']['x'] + ':' + job['item']['pos'] if job['what'] == 'atom' else job['kind']
        return dict(status='exception', fe=job['fe'], sig='C06:unexpected-exception:%s:%s:%s' % (who, job['fe'], type(e).__name__),
                    exc='%s: %s' % (type(e).__name__, e), where='%s:%d' % (tb[-1].filename, tb[-1].lineno), job={k: v for k, v in job.items()})
