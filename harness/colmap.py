"""Projection of dro.Model.rule_var()'s result to the abstract column map of Partition.tla.

rule_var() returns, per scenario s, the vector of all decision entries as an affine function of the solver
columns (static part) and, when some entry is affinely adaptive, a second affine object whose row
entry * nrand + comp names the solver column holding the slope of `entry` on random component `comp`.
column_map() reads both as   static[v][s][i] = column   and   slopes[v][s] = [[i, c, column], ...]
(1-based i and c, v = position in dm.dec_vars), which is what the specification calls Col / SlopeCol.
"""
import numpy as np


def column_map(dm, out=None):
    from rsome.lp import RoAffine
    out = dm.rule_var() if out is None else out
    ns = int(dm.num_scen)
    sizes = [int(dv.size) for dv in dm.dec_vars]
    offs = np.concatenate(([0], np.cumsum(sizes))).astype(int)
    nrand = int(dm.sup_model.vars[-1].last) if dm.sup_model.vars else 0
    static = [[None] * ns for _ in sizes]
    slopes = [[[] for _ in range(ns)] for _ in sizes]
    for s in range(ns):
        a = out[s]
        aff = a.affine if isinstance(a, RoAffine) else a
        lin = aff.linear.tocsr()
        rowcol = {}
        for r in range(lin.shape[0]):
            cols = lin.indices[lin.indptr[r]:lin.indptr[r + 1]]
            vals = lin.data[lin.indptr[r]:lin.indptr[r + 1]]
            cols = [int(c) for c, w in zip(cols, vals) if w != 0]
            rowcol[r] = cols[0] if len(cols) == 1 else -1 - len(cols)     # exactly one column per entry
        for v in range(len(sizes)):
            static[v][s] = [rowcol.get(int(offs[v]) + i, -1) for i in range(sizes[v])]
        if isinstance(a, RoAffine):
            ra = a.raffine.linear.tocoo()
            for r, c, w in sorted(zip(ra.row.tolist(), ra.col.tolist(), ra.data.tolist())):
                if w == 0:
                    continue
                entry, comp = divmod(int(r), nrand)
                v = int(np.searchsorted(offs, entry, side='right') - 1)
                slopes[v][s].append([entry - int(offs[v]) + 1, comp + 1, int(c)])
    return dict(static=static, slopes=slopes, sizes=sizes, nrand=nrand)
