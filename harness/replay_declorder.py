"""Spec -> code replay for DeclOrder.tla (C09 / C13 / C15): one fixed ro model declared in every order the partial order of
its steps allows; the solved model must be the same as for the canonical order (objective, declared dependency pattern of
the decision rule, here-and-now values)."""
import math

import numpy as np

STEPS = ['rz', 'rw', 'ru', 'dx', 'ly', 'a1', 'a2', 'a3', 'e1', 'ob', 'c1', 'c2', 'u0']
CANONICAL = ['rz', 'rw', 'ru', 'dx', 'ly', 'a1', 'a2', 'a3', 'e1', 'ob', 'c1', 'c2']
BEFORE = [('rz', 'a1'), ('ly', 'a1'), ('rz', 'a2'), ('ly', 'a2'), ('rw', 'a3'), ('ly', 'a3'),
          ('dx', 'e1'), ('rz', 'e1'),
          ('ly', 'u0'), ('rz', 'u0'),        # u0: an optional early use of the rule (nothing depends on it)
          ('rz', 'ob'), ('rw', 'ob'), ('ru', 'ob'), ('dx', 'ob'),
          ('a1', 'c1'), ('a2', 'c1'), ('a3', 'c1'), ('dx', 'c1'), ('rw', 'c1'),
          ('e1', 'c2'), ('rw', 'c2'), ('ru', 'c2'),
          ]
RVARS = dict(rz=2, rw=1, ru=1)
ADAPTS = ['a1', 'a2', 'a3']
RULE_USES = ['c1', 'u0']
EXPR_MAKE = 'e1'
EXPR_USES = ['c2']


def build(order, solve=True):
    from rsome import ro
    m = ro.Model()
    o = {}
    for s in order:
        if s == 'rz':
            o['z'] = m.rvar(2)
        elif s == 'rw':
            o['w'] = m.rvar()
        elif s == 'ru':
            o['u'] = m.rvar()           # a random variable the decision rule never depends on
        elif s == 'dx':
            o['x'] = m.dvar(2)
        elif s == 'ly':
            o['y'] = m.ldr(2)
        elif s == 'a1':
            o['y'][0].adapt(o['z'][0])
        elif s == 'a2':
            o['y'][1].adapt(o['z'][1])
        elif s == 'a3':
            o['y'][1].adapt(o['w'])
        elif s == 'u0':
            # a use of the rule that is thrown away; while the rule has no adaptation yet it is an ordinary decision and
            # z*y is a legal bi-affine term (afterwards the product would be a rule times a random variable: C10)
            if not any(a in order[:order.index('u0')] for a in ADAPTS):
                o['tmp'] = o['z'][0] * o['y'][0]
            else:
                o['tmp'] = o['y'][0] + 0 if len(order) % 2 else 2 * o['y'][0] - 1
        elif s == 'e1':
            o['e'] = o['x'][1] * o['z'][0] - o['x'][0]
        elif s == 'ob':
            m.minmax(o['x'][0] + o['x'][1], abs(o['z']) <= 1, abs(o['w']) <= 1, abs(o['u']) <= 1)
        elif s == 'c1':
            y, z, w, x = o['y'], o['z'], o['w'], o['x']
            m.st(y[0] >= z[0], y[0] <= z[0] + x[0], y[1] >= z[1] + 2 * w, y[1] <= z[1] + 2 * w + x[0])
            m.st(x >= 0, x[1] >= 1, x <= 5, y <= 4)
        elif s == 'c2':
            m.st((o['e'] + o['w'] * o['x'][1] + 0.5 * o['u'] * o['x'][1] <= 2).forall(abs(o['z']) <= 1, abs(o['w']) <= 0.5, abs(o['u']) <= 1))
        else:
            raise ValueError(s)
    if not solve:
        return dict(obj=None)
    m.solve(display=False)
    sol = m.solution
    if sol is None or (isinstance(sol.objval, float) and math.isnan(sol.objval)):
        return dict(obj=None)
    cz = np.asarray(o['y'].get(o['z']), dtype=float)
    cw = np.asarray(o['y'].get(o['w']), dtype=float)
    return dict(obj=float(m.get()), x=[float(v) for v in np.asarray(o['x'].get(), dtype=float).reshape(-1)],
                mask=[[bool(np.isnan(v)) for v in cz.reshape(-1)], [bool(np.isnan(v)) for v in cw.reshape(-1)]],
                coef=[[None if np.isnan(v) else round(float(v), 6) for v in cz.reshape(-1)], [None if np.isnan(v) else round(float(v), 6) for v in cw.reshape(-1)]])


def replay(job):
    import traceback
    out = dict(tid=job['tid'])
    if job.get('illegal'):
        # the last step is an adapt() on a rule that was already used: every step before it is legal, the last one must raise
        try:
            build(job['order'][:-1], solve=False)
        except Exception as e:
            tb = traceback.extract_tb(e.__traceback__)
            if not any('/rsome/' in fr.filename for fr in tb):
                raise
            out['prefix_exc'] = '%s: %s' % (type(e).__name__, str(e)[:150])
            return out
        try:
            build(job['order'], solve=False)
            out['illegal_outcome'] = 'accepted'
        except Exception as e:
            tb = traceback.extract_tb(e.__traceback__)
            if not any('/rsome/' in fr.filename for fr in tb):
                raise
            out['illegal_outcome'] = 'raised:%s' % type(e).__name__
        return out
    for key, order in (('canonical', CANONICAL), ('order', job['order'])):
        try:
            out[key] = build(order)
        except Exception as e:
            tb = traceback.extract_tb(e.__traceback__)
            if not any('/rsome/' in fr.filename for fr in tb):
                raise
            out[key] = dict(exc='%s: %s' % (type(e).__name__, str(e)[:150]))
    return out
