"""Spec -> code and code -> spec binding for LpFormat.tla (C16).

For every program TLC generated (ranks in GEN_TABLE) the worker
  1. builds a real rsome model through the public API (lp / socp / ro Model, dvar / st / min / max) and
     takes the ACTUAL formula (do_math(), or do_math(primal=False)) as the program the exports must
     describe; for `ez` rows the formula is rebuilt through the public constructor with explicit
     0.0 / -0.0 entries stored in the sparse matrix (rsome's own compilation never stores zeros);
  2. projects that formula to the rank-encoded record P of the specification;
  3. lexes formula.lp_export() with an independent CPLEX-LP lexer into the token events of the spec and
     formula.show() into cell events -- these two streams are validated by TLC in the parent;
  4. writes formula.to_lp() into a scratch directory, reads the file with gurobipy (independent
     reader), compares the read-back program STRUCTURALLY (exact floats) with the formula and solves
     it; reconstructs the program from the token stream and solves it with HiGHS (scipy) and with a
     hand-built Gurobi model; compares all optima / statuses with the solve of the formula's arrays and
     with rsome's own solve.

Verdicts (observable first): only exported text / frame / file versus the formula object.  rsome's
solver interfaces deviating from the formula is another property (C11) and is reported as such.
"""
import math
import os
import re
import shutil
import tempfile

import numpy as np

INF = float('inf')
GEN_TABLE = [-INF, -1e12, -2.0, -1.0, -0.5, -1e-9, 0.0, 1e-9, 0.5, 1.0, 2.0, 1e12, INF]
GEN_ZERO = 7
GEN_ONE = 10

TOL_LP = 1e-6
GRB_PARAMS = {'Threads': 1, 'TimeLimit': 5}
TOL_SOC = 1e-5


# ------------------------------------------------------------------------------------------------
# 1. model construction from a TLC-generated program

def build(rec):
    """Returns (model, x, formula). Raises only what rsome raises."""
    from rsome import lp, socp, ro, norm
    T = GEN_TABLE
    n = rec['n']
    M = {'LinProg': lp.Model, 'SOCProg': socp.Model, 'GCProg': ro.Model}[rec['cls']]
    m = M()
    vt = ''.join(rec['vt'])
    x = m.dvar(n, vt if n > 1 else vt[0])

    def lin(coefs):
        expr = None
        for j, r in enumerate(coefs):
            v = T[r - 1]
            if v == 0:
                continue
            term = v * x[j]
            expr = term if expr is None else expr + term
        if expr is None:
            expr = 0 * x[0]
        return expr

    robust = rec['mode'] == 'robust'
    if robust:
        # row 1 becomes  a.x + 0.5 z.x <= b  for all z in a box (intersected with a ball when n >= 2):
        # the formula is the robust counterpart compiled by ro.Model (dual columns, a cone from the ball)
        z = m.rvar(n)
        uset = (abs(z) <= 1, norm(z) <= 1.2) if n >= 2 else (abs(z) <= 1)
        (m.minmax if rec['dir'] == 'min' else m.maxmin)(lin(rec['obj']), uset)
    else:
        (m.min if rec['dir'] == 'min' else m.max)(lin(rec['obj']))
    for j in range(n):
        lo, hi = T[rec['lb'][j] - 1], T[rec['ub'][j] - 1]
        if lo > -INF:
            m.st(x[j] >= lo)
        if hi < INF:
            m.st(x[j] <= hi)
    for i, row in enumerate(rec['rows']):
        e = lin(row['a'])
        if robust and i == 0:
            e = e + 0.5 * (z @ x)
        b = T[row['b'] - 1]
        m.st(e <= b if row['s'] == 'le' else e == b)
    for c in rec['cones']:
        m.st(norm(x[[k - 1 for k in c['mem']]]) <= x[c['h'] - 1])
    f = m.do_math(primal=False) if rec['mode'] == 'dual' else m.do_math()
    return m, x, f


def snapshot(f):
    """Copy of the public attributes of a formula (def_sol mutates lb/ub of binaries in place)."""
    A = f.linear.tocsr()
    F = dict(cls=type(f).__name__,
             data=np.array(A.data, dtype=float).copy(), indices=np.array(A.indices).copy(),
             indptr=np.array(A.indptr).copy(), shape=tuple(int(s) for s in A.shape),
             const=np.array(f.const, dtype=float).reshape(-1).copy(),
             sense=np.array(f.sense).reshape(-1).copy(),
             vtype=np.array([str(v) for v in np.array(f.vtype).reshape(-1)]),
             ub=np.array(f.ub, dtype=float).reshape(-1).copy(),
             lb=np.array(f.lb, dtype=float).reshape(-1).copy(),
             obj=np.array(f.obj, dtype=float).reshape(-1).copy(),
             qmat=[[int(k) for k in q] for q in (getattr(f, 'qmat', None) or [])],
             nxmat=len(getattr(f, 'xmat', None) or []), nlmi=len(getattr(f, 'lmi', None) or []))
    return F


def dense(F):
    m, n = F['shape']
    D = np.zeros((m, n))
    for i in range(m):
        for k in range(F['indptr'][i], F['indptr'][i + 1]):
            D[i, F['indices'][k]] += F['data'][k]
    return D


def inject_zeros(f, rec, x_first):
    """Same formula, with the zero coefficients of the `ez` rows stored explicitly (0.0 / -0.0)."""
    import scipy.sparse as sp
    T = GEN_TABLE
    A = f.linear.tocsr()
    data, indices, indptr = [], [], [0]
    changed = 0
    nuser = rec['n']
    D = A.toarray()
    for i in range(A.shape[0]):
        s, e = A.indptr[i], A.indptr[i + 1]
        d = [float(v) for v in A.data[s:e]]
        ix = [int(v) for v in A.indices[s:e]]
        if i < len(rec['rows']) and rec['rows'][i]['ez']:
            row = rec['rows'][i]
            want = np.array([T[r - 1] for r in row['a']])
            got = D[i, x_first:x_first + nuser]
            if got.shape == want.shape and np.array_equal(got, want):
                z = 0.0 if row['ez'] == 1 else -0.0
                for j in range(nuser):
                    col = x_first + j
                    if want[j] == 0 and col not in ix:
                        ix.append(col)
                        d.append(z)
                        changed += 1
                order = sorted(range(len(ix)), key=lambda k: ix[k])
                ix = [ix[k] for k in order]
                d = [d[k] for k in order]
        data += d
        indices += ix
        indptr.append(len(data))
    if not changed:
        return f, 0
    A2 = sp.csr_matrix((np.array(data, dtype=float), np.array(indices, dtype=A.indices.dtype),
                        np.array(indptr, dtype=A.indptr.dtype)), shape=A.shape)
    name = type(f).__name__
    cls = type(f)
    if name == 'LinProg':
        f2 = cls(A2, f.const, f.sense, f.vtype, f.ub, f.lb, f.obj)
    elif name == 'SOCProg':
        f2 = cls(A2, f.const, f.sense, f.vtype, f.ub, f.lb, f.qmat, f.obj)
    else:
        f2 = cls(A2, f.const, f.sense, f.vtype, f.ub, f.lb, f.qmat, f.xmat, f.lmi, f.obj)
    return f2, changed


# ------------------------------------------------------------------------------------------------
# 2. projection of the real formula to the rank-encoded record P

def make_table(F):
    vals = {0.0, 1.0, -1.0, INF, -INF}
    for arr in (F['data'], F['const'], F['ub'], F['lb'], F['obj']):
        for v in arr:
            v = float(v)
            if math.isnan(v):
                raise ValueError('nan in formula')
            vals.add(v + 0.0)
            vals.add(-v + 0.0)
    table = sorted(vals)
    return table


class Ranker:
    def __init__(self, table):
        self.table = table
        self.idx = {v: k + 1 for k, v in enumerate(table)}
        self.nv = len(table)

    def __call__(self, v):
        try:
            v = float(v)
        except (TypeError, ValueError):
            return 0
        if math.isnan(v):
            return 0
        return self.idx.get(v + 0.0, 0)

    def neg(self, r):
        return self.nv + 1 - r


def project(F):
    table = make_table(F)
    rk = Ranker(table)
    m, n = F['shape']
    D = dense(F)
    A = [[rk(D[i, j]) for j in range(n)] for i in range(m)]
    ord_ = []
    dup = False
    for i in range(m):
        cols = [int(F['indices'][k]) + 1 for k in range(F['indptr'][i], F['indptr'][i + 1])]
        if len(set(cols)) != len(cols):
            dup = True
        ord_.append(cols)
    sense = ['eq' if s == 1 else ('le' if s == 0 else 'bad') for s in F['sense']]
    P = dict(cls=F['cls'], nv=rk.nv, one=rk(1.0), n=n, m=m, A=A, ord=ord_, sense=sense,
             rhs=[rk(v) for v in F['const']], lb=[rk(v) for v in F['lb']], ub=[rk(v) for v in F['ub']],
             vt=[str(v) for v in F['vtype']], obj=[rk(v) for v in F['obj']],
             cones=[dict(h=q[0] + 1, mem=[k + 1 for k in q[1:]]) for q in F['qmat']])
    return P, rk, dup


# ------------------------------------------------------------------------------------------------
# 3a. independent lexer for the CPLEX-LP dialect -> token events of LpFormat.tla

def ev(k, a=0, b=0, c=0, s='', l=()):
    return dict(k=k, a=int(a), b=int(b), c=int(c), s=str(s), l=[int(v) for v in l])


_NUM = r'(?:\d+\.?\d*|\.\d+)(?:[eE][+-]?\d+)?'
_NAME = r'[A-Za-z_][A-Za-z0-9_.]*'
_TOK = re.compile(r'\s*(?:(?P<num>' + _NUM + r')|(?P<name>' + _NAME + r')|(?P<op><=|=<|>=|=>|<|>|=|\+|-|\[|\]|\^|\*|/|:)|(?P<junk>\S+))')
_SECTIONS = [
    ('min', r'(?:minimize|minimum|min)'), ('max', r'(?:maximize|maximum|max)'),
    ('st', r'(?:subject\s+to|such\s+that|s\.t\.|st\.|st)'), ('bounds', r'(?:bounds|bound)'),
    ('general', r'(?:generals|general|gen|integers|integer)'), ('binary', r'(?:binaries|binary|bin)'),
    ('end', r'end')]
_SEC_RE = [(name, re.compile(r'^\s*' + pat + r'(?=\s|$)', re.I)) for name, pat in _SECTIONS]
_REL = {'<=': 'le', '=<': 'le', '<': 'le', '>=': 'ge', '=>': 'ge', '>': 'ge', '=': 'eq'}


def _tokens(s):
    out = []
    pos = 0
    while pos < len(s):
        mt = _TOK.match(s, pos)
        if not mt:
            break
        pos = mt.end()
        kind = mt.lastgroup
        out.append((kind, mt.group(kind)))
    return out


def _col(name):
    mt = re.match(r'^x(\d+)$', name)
    return int(mt.group(1)) if mt else 0


def _label_index(label, letter, ordinal):
    if label is not None:
        mt = re.match(r'^%s(\d+)$' % letter, label)
        if mt:
            return int(mt.group(1))
    return ordinal


def lex_lp(text, rk):
    """LP text -> list of events.  Anything the grammar does not cover becomes a Junk event (which the
    acceptor rejects), never an exception."""
    events = []
    # split into sections, keeping the remainder of a keyword line
    chunks = []          # (section, [token,...]) ; bounds keep line structure
    cur = None
    for raw in text.split('\n'):
        line = raw.split('\\', 1)[0]
        if not line.strip():
            continue
        hit = None
        for name, rx in _SEC_RE:
            mt = rx.match(line)
            if mt:
                # 'st' / 'min' ... at line start could also be a label or a variable: a keyword is not
                # followed by ':' or an operator
                rest = line[mt.end():]
                if rest.strip()[:1] in (':', '<', '>', '=', '+', '-', '^', '*'):
                    continue
                hit = (name, rest)
                break
        if hit:
            cur = [hit[0], []]
            chunks.append(cur)
            line = hit[1]
            if not line.strip():
                continue
        if cur is None:
            cur = ['preamble', []]
            chunks.append(cur)
        cur[1].append(_tokens(line))

    nlin = [0]
    nq = [0]

    def junk(what):
        events.append(ev('Junk', s=what[:60]))

    def signed_value(toks, k, allow_inf):
        """parse sign* (num | inf) at toks[k:]; returns (value or None, next k)"""
        sg = 1.0
        seen = False
        while k < len(toks) and toks[k] in (('op', '+'), ('op', '-')):
            if toks[k][1] == '-':
                sg = -sg
            k += 1
            seen = True
        if k < len(toks) and toks[k][0] == 'num':
            return sg * float(toks[k][1]), k + 1
        if allow_inf and k < len(toks) and toks[k][0] == 'name' and toks[k][1].lower() in ('inf', 'infinity'):
            return sg * INF, k + 1
        return None, k

    def parse_terms(toks, k, stop):
        """linear terms from toks[k:] until a token satisfying stop; returns (terms, k, err)"""
        terms = []
        while k < len(toks) and not stop(toks[k]):
            sg = 1
            while k < len(toks) and toks[k] in (('op', '+'), ('op', '-')):
                if toks[k][1] == '-':
                    sg = -sg
                k += 1
            coef = None
            if k < len(toks) and toks[k][0] == 'num':
                coef = float(toks[k][1])
                k += 1
            if k < len(toks) and toks[k][0] == 'name' and not stop(toks[k]):
                terms.append((sg, 1.0 if coef is None else coef, toks[k][1]))
                k += 1
            else:
                return terms, k, 'term-without-variable'
        return terms, k, None

    for sec, lines in chunks:
        flat = [tk for ln in lines for tk in ln]
        if sec == 'preamble':
            junk('text-before-objective')
            continue
        if sec == 'end':
            events.append(ev('End'))
            if flat:
                junk('text-after-end')
            continue
        events.append(ev('Section', s=sec))
        if sec in ('min', 'max'):
            k = 0
            if len(flat) >= 2 and flat[0][0] == 'name' and flat[1] == ('op', ':'):
                k = 2
            terms, k, err = parse_terms(flat, k, lambda tk: tk[0] == 'junk' or tk == ('op', '['))
            for sg, coef, name in terms:
                events.append(ev('ObjTerm', a=sg, b=rk(coef), c=_col(name)))
            if err or k < len(flat):
                junk('objective:' + (err or 'unparsed'))
        elif sec == 'st':
            k = 0
            while k < len(flat):
                label = None
                if k + 1 < len(flat) and flat[k][0] == 'name' and flat[k + 1] == ('op', ':'):
                    label = flat[k][1]
                    k += 2
                isrel = lambda tk: tk[0] == 'op' and tk[1] in _REL   # noqa: E731
                terms, k, err = parse_terms(flat, k, lambda tk: isrel(tk) or tk == ('op', '[') or tk[0] == 'junk')
                quad = None
                if err is None and k < len(flat) and flat[k] == ('op', '['):
                    k += 1
                    quad = []
                    qerr = None
                    while k < len(flat) and flat[k] != ('op', ']'):
                        sg = 1
                        while k < len(flat) and flat[k] in (('op', '+'), ('op', '-')):
                            if flat[k][1] == '-':
                                sg = -sg
                            k += 1
                        coef = 1.0
                        if k < len(flat) and flat[k][0] == 'num':
                            coef = float(flat[k][1])
                            k += 1
                        if k + 2 < len(flat) and flat[k][0] == 'name' and flat[k + 1] == ('op', '^') \
                                and flat[k + 2] == ('num', '2'):
                            quad.append((sg * coef, flat[k][1], flat[k][1]))
                            k += 3
                        elif k + 2 < len(flat) and flat[k][0] == 'name' and flat[k + 1] == ('op', '*') \
                                and flat[k + 2][0] == 'name':
                            quad.append((sg * coef, flat[k][1], flat[k + 2][1]))
                            k += 3
                        else:
                            qerr = 'quadratic-term'
                            break
                    if qerr is None and k < len(flat) and flat[k] == ('op', ']'):
                        k += 1
                        more, k, err = parse_terms(flat, k, lambda tk: isrel(tk) or tk[0] == 'junk')
                        terms += more
                    else:
                        err = qerr or 'unclosed-bracket'
                if err is not None or k >= len(flat) or not isrel(flat[k]):
                    junk('constraint:' + (err or 'no-relation'))
                    break
                rel = _REL[flat[k][1]]
                k += 1
                val, k = signed_value(flat, k, False)
                if val is None:
                    junk('constraint:no-right-hand-side')
                    break
                if quad is None:
                    nlin[0] += 1
                    events.append(ev('RowStart', a=_label_index(label, 'c', nlin[0]), s='c'))
                    for sg, coef, name in terms:
                        events.append(ev('Term', a=sg, b=rk(coef), c=_col(name)))
                    events.append(ev('Rel', s=rel))
                    events.append(ev('Rhs', b=rk(val)))
                else:
                    nq[0] += 1
                    why = 'ok'
                    neg = [q for q in quad if q[0] == -1.0 and q[1] == q[2]]
                    pos = [q for q in quad if q[0] == 1.0 and q[1] == q[2]]
                    if terms:
                        why = 'linear-part'
                    elif len(neg) != 1 or len(neg) + len(pos) != len(quad):
                        why = 'not-a-cone'
                    elif rel != 'le' or val != 0:
                        why = 'relation-or-rhs'
                    head = _col(neg[0][1]) if len(neg) == 1 else 0
                    events.append(ev('QRow', a=_label_index(label, 'q', nq[0]), c=head, s=why,
                                     l=[_col(q[1]) for q in pos]))
        elif sec == 'bounds':
            for ln in lines:
                if not ln:
                    continue
                k = 0
                v1, k1 = signed_value(ln, 0, True)
                ok = False
                if v1 is not None:
                    # value rel name [rel value]
                    if k1 + 1 < len(ln) and ln[k1][0] == 'op' and ln[k1][1] in _REL and ln[k1 + 1][0] == 'name':
                        r1 = _REL[ln[k1][1]]
                        name = ln[k1 + 1][1]
                        k2 = k1 + 2
                        if k2 == len(ln):
                            if r1 == 'le':
                                events.append(ev('Lower', a=rk(v1), c=_col(name)))
                                ok = True
                            elif r1 == 'ge':
                                events.append(ev('Upper', b=rk(v1), c=_col(name)))
                                ok = True
                        elif ln[k2][0] == 'op' and ln[k2][1] in _REL:
                            r2 = _REL[ln[k2][1]]
                            v2, k3 = signed_value(ln, k2 + 1, True)
                            if v2 is not None and k3 == len(ln) and r1 == r2 and r1 in ('le', 'ge'):
                                lo, hi = (v1, v2) if r1 == 'le' else (v2, v1)
                                events.append(ev('Bound', a=rk(lo), b=rk(hi), c=_col(name)))
                                ok = True
                elif ln[0][0] == 'name':
                    name = ln[0][1]
                    if len(ln) == 2 and ln[1][0] == 'name' and ln[1][1].lower() == 'free':
                        events.append(ev('Free', c=_col(name)))
                        ok = True
                    elif len(ln) >= 3 and ln[1][0] == 'op' and ln[1][1] in _REL:
                        r1 = _REL[ln[1][1]]
                        v2, k3 = signed_value(ln, 2, True)
                        if v2 is not None and k3 == len(ln):
                            if r1 == 'ge':
                                events.append(ev('Lower', a=rk(v2), c=_col(name)))
                            elif r1 == 'le':
                                events.append(ev('Upper', b=rk(v2), c=_col(name)))
                            else:
                                events.append(ev('Bound', a=rk(v2), b=rk(v2), c=_col(name)))
                            ok = True
                if not ok:
                    junk('bound:' + ' '.join(tk[1] for tk in ln))
        elif sec in ('general', 'binary'):
            for tk in flat:
                if tk[0] == 'name':
                    events.append(ev('General' if sec == 'general' else 'Binary', c=_col(tk[1])))
                else:
                    junk(sec + ':' + tk[1])
    return events


# ------------------------------------------------------------------------------------------------
# 3b. show() frame -> cell events

def lex_show(df, rk):
    import pandas as pd
    events = []
    if not isinstance(df, pd.DataFrame):
        return [ev('Junk', s='show-returned-' + type(df).__name__)]
    cols = [str(c) for c in df.columns]
    xs = []
    for c in cols:
        if re.match(r'^x\d+$', c):
            xs.append(c)
        else:
            break
    names_ok = cols == ['x%d' % (j + 1) for j in range(len(xs))] + ['sense', 'constant']
    events.append(ev('SHead', a=len(xs), s='ok' if names_ok else 'names'))
    if not names_ok:
        return events + [ev('SEnd')]

    def cell(v):
        if isinstance(v, str):
            return 0, v
        if isinstance(v, (bool, np.bool_)):
            return 0, repr(v)
        try:
            fv = float(v)
        except (TypeError, ValueError):
            return 0, repr(v)[:20]
        if math.isnan(fv):
            return 0, 'nan'
        return rk(fv), ''

    for lab, row in zip(df.index, df.itertuples(index=False, name=None)):
        lab = str(lab)
        mt = re.match(r'^(LC|QC|EC|PSDC)(\d+)$', lab)
        if mt:
            kind, idx = mt.group(1), int(mt.group(2))
        elif lab in ('Obj', 'UB', 'LB', 'Type'):
            kind, idx = lab, 0
        else:
            kind, idx = '?', 0
        events.append(ev('SRow', a=idx, s=kind))
        for j in range(len(xs)):
            r, s = cell(row[j])
            events.append(ev('SCell', b=r, c=j + 1, s=s))
        r, s = cell(row[len(xs)])
        events.append(ev('SSense', s=s if s else repr(row[len(xs)])))
        r, s = cell(row[len(xs) + 1])
        events.append(ev('SConst', b=r, s=s))
    events.append(ev('SEnd'))
    return events


# ------------------------------------------------------------------------------------------------
# 4. solving: arrays, tokens, file

def arrays_from_F(F):
    import scipy.sparse as sp
    A = sp.csr_matrix((F['data'], F['indices'], F['indptr']), shape=F['shape'])
    return dict(A=A, const=F['const'], sense=np.array([1 if s == 1 else 0 for s in F['sense']]),
                vtype=F['vtype'], lb=F['lb'], ub=F['ub'], obj=F['obj'], qmat=F['qmat'])


def arrays_from_tokens(events, n, table):
    """Reconstruct the program the TEXT denotes (LP-format defaults: bounds [0, inf), continuous).
    Returns None when the stream contains something the reconstruction does not cover."""
    import scipy.sparse as sp
    val = lambda r: table[r - 1] if 1 <= r <= len(table) else None   # noqa: E731
    obj = np.zeros(n)
    lb = np.zeros(n)
    ub = np.full(n, INF)
    vtype = np.array(['C'] * n)
    rows, const, sense, qmat = [], [], [], []
    cur = None
    rel = None
    for e in events:
        k = e['k']
        if k in ('Junk',):
            return None
        if k in ('ObjTerm', 'Term', 'Bound', 'Free', 'Lower', 'Upper', 'General', 'Binary') and not (1 <= e['c'] <= n):
            return None
        if k == 'Section' and e['s'] == 'max':
            return None
        if k == 'ObjTerm':
            v = val(e['b'])
            if v is None:
                return None
            obj[e['c'] - 1] += e['a'] * v
        elif k == 'RowStart':
            cur = np.zeros(n)
        elif k == 'Term':
            v = val(e['b'])
            if v is None or cur is None:
                return None
            cur[e['c'] - 1] += e['a'] * v
        elif k == 'Rel':
            rel = e['s']
        elif k == 'Rhs':
            v = val(e['b'])
            if v is None or cur is None:
                return None
            if rel == 'ge':
                cur, v = -cur, -v
            rows.append(cur)
            const.append(v)
            sense.append(1 if rel == 'eq' else 0)
            cur = None
        elif k == 'QRow':
            if e['s'] != 'ok' or not (1 <= e['c'] <= n) or any(not (1 <= j <= n) for j in e['l']):
                return None
            qmat.append([e['c'] - 1] + [j - 1 for j in e['l']])
        elif k == 'Bound':
            lo, hi = val(e['a']), val(e['b'])
            if lo is None or hi is None:
                return None
            lb[e['c'] - 1], ub[e['c'] - 1] = lo, hi
        elif k == 'Free':
            lb[e['c'] - 1], ub[e['c'] - 1] = -INF, INF
        elif k == 'Lower':
            lb[e['c'] - 1] = val(e['a'])
        elif k == 'Upper':
            ub[e['c'] - 1] = val(e['b'])
        elif k == 'General':
            vtype[e['c'] - 1] = 'I'
        elif k == 'Binary':
            vtype[e['c'] - 1] = 'B'
    A = sp.csr_matrix(np.array(rows).reshape(len(rows), n))
    return dict(A=A, const=np.array(const, dtype=float), sense=np.array(sense, dtype=int), vtype=vtype,
                lb=lb, ub=ub, obj=obj, qmat=qmat)


def _eff_bounds(Q):
    lb, ub = Q['lb'].astype(float).copy(), Q['ub'].astype(float).copy()
    B = Q['vtype'] == 'B'
    lb[B] = np.maximum(lb[B], 0.0)
    ub[B] = np.minimum(ub[B], 1.0)
    return lb, ub


def solve_scipy(Q):
    """HiGHS through scipy.optimize.milp, called directly (not through rsome). LP/MILP only."""
    from scipy.optimize import milp, LinearConstraint, Bounds
    if Q['qmat']:
        return ('n/a', None)
    lb, ub = _eff_bounds(Q)
    if np.any(lb > ub):
        return ('infeasible', None)
    integ = (Q['vtype'] != 'C').astype(int)
    m = Q['A'].shape[0]
    cons = ()
    if m:
        bu = Q['const'].astype(float)
        bl = np.where(Q['sense'] == 1, bu, -INF)
        cons = LinearConstraint(Q['A'], bl, bu)
    try:
        res = milp(c=Q['obj'], constraints=cons, bounds=Bounds(lb, ub), integrality=integ,
                   options=dict(time_limit=5.0))
    except Exception as e:   # scipy refuses the input (e.g. inf in a matrix)
        return ('other', repr(e)[:80])
    if res.status == 0:
        return ('optimal', float(Q['obj'] @ res.x))
    if res.status == 2:
        return ('infeasible', None)
    if res.status == 3:
        return ('unbounded', None)
    return ('other', res.status)


_ENV = [None]


def _env():
    import gurobipy as gp
    if _ENV[0] is None:
        _ENV[0] = gp.Env(params={'OutputFlag': 0, 'Threads': 1})
    return _ENV[0]


def _grb_finish(g):
    g.Params.DualReductions = 0
    g.Params.TimeLimit = 5
    g.optimize()
    st = g.Status
    if st == 2:
        return ('optimal', float(g.ObjVal))
    if st == 3:
        return ('infeasible', None)
    if st == 5:
        return ('unbounded', None)
    if st == 4:
        return ('inf_or_unbd', None)
    return ('other', st)


def solve_gurobi(Q):
    """A Gurobi model built here from the arrays (cones as  sum mem^2 <= head^2 )."""
    import gurobipy as gp
    n = Q['A'].shape[1]
    g = gp.Model(env=_env())
    x = g.addMVar(n, lb=Q['lb'].astype(float), ub=Q['ub'].astype(float), vtype=[str(v) for v in Q['vtype']])
    eq = Q['sense'] == 1
    if eq.any():
        g.addMConstr(Q['A'][eq, :], x, '=', Q['const'][eq])
    if (~eq).any():
        g.addMConstr(Q['A'][~eq, :], x, '<', Q['const'][~eq])
    for q in Q['qmat']:
        mem = list(q[1:])
        lhs = gp.quicksum(x[j].item() * x[j].item() for j in mem) if mem else 0
        g.addConstr(lhs <= x[q[0]].item() * x[q[0]].item())
    g.setObjective(Q['obj'] @ x)
    try:
        return _grb_finish(g)
    finally:
        g.dispose()


def _norm_inf(v):
    v = float(v)
    return INF if v >= 1e20 else (-INF if v <= -1e20 else v)


def _dom(lb, ub, vt):
    lb, ub = _norm_inf(lb), _norm_inf(ub)
    if vt == 'B':
        lb, ub = max(lb, 0.0), min(ub, 1.0)
    if vt in 'BI':
        lb = math.ceil(lb) if lb > -INF else lb
        ub = math.floor(ub) if ub < INF else ub
    return lb, ub


def read_file_with_gurobi(path, F):
    """Independent reader: parse the .lp file, compare the read-back program exactly with F, solve it.
    Returns (diffs, outcome) ; diffs = list of strings naming what differs."""
    import gurobipy as gp
    g = gp.read(path, env=_env())
    try:
        g.update()
        diffs = []
        m, n = F['shape']
        D = dense(F)
        vs = g.getVars()
        name2var = {v.VarName: v for v in vs}
        want_names = {'x%d' % (j + 1) for j in range(n)}
        if set(name2var) != want_names:
            missing = sorted(want_names - set(name2var))
            extra = sorted(set(name2var) - want_names)
            diffs.append('columns:missing=%s,extra=%s' % (missing[:3], extra[:3]))
        if g.ModelSense != 1:
            diffs.append('objective-sense')
        if g.ObjCon != 0:
            diffs.append('objective-constant')
        for j in range(n):
            v = name2var.get('x%d' % (j + 1))
            if v is None:
                continue
            if v.Obj != F['obj'][j]:
                diffs.append('objective-coef')
            if v.VType != F['vtype'][j]:
                diffs.append('type:%s-read-as-%s' % (F['vtype'][j], v.VType))
            if _dom(v.LB, v.UB, v.VType) != _dom(F['lb'][j], F['ub'][j], F['vtype'][j]):
                diffs.append('bound:%s' % F['vtype'][j])
        cons = g.getConstrs()
        byname = {c.ConstrName: c for c in cons}
        if len(cons) != m or set(byname) != {'c%d' % (i + 1) for i in range(m)}:
            diffs.append('rows:%d-read-%d' % (m, len(cons)))
        for i in range(m):
            c = byname.get('c%d' % (i + 1))
            if c is None:
                continue
            row = g.getRow(c)
            got = np.zeros(n)
            okcols = True
            for k in range(row.size()):
                mt = re.match(r'^x(\d+)$', row.getVar(k).VarName)
                if not mt or not (1 <= int(mt.group(1)) <= n):
                    okcols = False
                    continue
                got[int(mt.group(1)) - 1] += row.getCoeff(k)
            if not okcols or not np.array_equal(got, D[i]):
                diffs.append('coef')
            if (c.Sense == '=') != (F['sense'][i] == 1) or c.Sense == '>':
                diffs.append('sense')
            if c.RHS != F['const'][i]:
                diffs.append('rhs')
        got_cones = []
        for qc in g.getQConstrs():
            r = g.getQCRow(qc)
            head, mem, bad = None, [], False
            if r.getLinExpr().size() != 0 or qc.QCSense != '<' or qc.QCRHS != 0:
                bad = True
            for k in range(r.size()):
                a, b, cf = r.getVar1(k).VarName, r.getVar2(k).VarName, r.getCoeff(k)
                if a != b:
                    bad = True
                elif cf == -1.0 and head is None:
                    head = _col(a) - 1
                elif cf == 1.0:
                    mem.append(_col(a) - 1)
                else:
                    bad = True
            got_cones.append(('bad',) if bad or head is None else (head, tuple(sorted(mem))))
        want_cones = [(q[0], tuple(sorted(q[1:]))) for q in F['qmat']]
        if sorted(got_cones, key=repr) != sorted(want_cones, key=repr):
            diffs.append('cone')
        outcome = _grb_finish(g)
        return sorted(set(diffs)), outcome
    finally:
        g.dispose()


def compare(a, b, tol):
    """'ok' | 'inconclusive' | 'status' | 'value' for two (status, value) outcomes."""
    sa, va = a
    sb, vb = b
    if sa in ('other', 'n/a') or sb in ('other', 'n/a'):
        return 'inconclusive'
    amb = ('infeasible', 'unbounded', 'inf_or_unbd')
    if sa == 'inf_or_unbd' or sb == 'inf_or_unbd':
        return 'ok' if (sa in amb and sb in amb) else 'status'
    if sa != sb:
        return 'status'
    if sa != 'optimal':
        return 'ok'
    d = abs(va - vb)
    scale = 1 + max(abs(va), abs(vb))
    if d <= tol * scale:
        return 'ok'
    if d > 10 * tol * scale:
        return 'value'
    return 'inconclusive'


def well_conditioned(F):
    vals = [abs(float(v)) for arr in (F['data'], F['const'], F['obj'], F['lb'], F['ub']) for v in arr]
    vals = [v for v in vals if v != 0 and v != INF]
    return all(1e-6 <= v <= 1e6 for v in vals)


# ------------------------------------------------------------------------------------------------
# 5. classes for the vacuity guard

def classes_of(F, text, outcome, rec, injected):
    D = dense(F)
    m, n = F['shape']
    cl = set()
    data = F['data']
    if np.any(data < 0):
        cl.add('coef-negative')
    if np.any((np.abs(data) > 0) & (np.abs(data) <= 1e-8)):
        cl.add('coef-tiny')
    if np.any(np.abs(data) >= 1e11):
        cl.add('coef-huge')
    if np.any((np.abs(data) > 0) & (np.abs(data) != np.round(np.abs(data)))):
        cl.add('coef-fractional')
    if np.any(data == 0):
        cl.add('zero-stored-explicitly')
        if np.any((data == 0) & np.signbit(data)):
            cl.add('negative-zero-stored')
    if np.any((F['const'] == 0) & np.signbit(F['const'])):
        cl.add('rhs-negative-zero')
    if np.any(F['const'] < 0):
        cl.add('rhs-negative')
    for i in range(m):
        if not np.any(D[i] != 0):
            cl.add('empty-row')
            if F['indptr'][i + 1] == F['indptr'][i]:
                cl.add('empty-row-nothing-stored')
    for j in range(n):
        if not np.any(D[:, j] != 0):
            cl.add('column-in-no-row')
            if F['obj'][j] == 0:
                cl.add('column-in-no-row-nor-objective')
    for v in F['vtype']:
        cl.add('vtype-' + v)
    for j in range(n):
        lo, hi = F['lb'][j], F['ub'][j]
        cl.add('lb-' + ('-inf' if lo == -INF else 'zero' if lo == 0 else 'neg' if lo < 0 else 'pos'))
        cl.add('ub-' + ('+inf' if hi == INF else 'zero' if hi == 0 else 'neg' if hi < 0 else 'pos'))
        if lo == hi:
            cl.add('fixed-column')
        if lo > hi:
            cl.add('crossed-bounds')
        if F['vtype'][j] == 'B' and (lo > -INF or hi < INF):
            cl.add('binary-with-user-bound')
    if F['qmat']:
        cl.add('cone')
        if any(len(q) == 2 for q in F['qmat']):
            cl.add('cone-one-member')
    if np.any(F['sense'] == 1):
        cl.add('row-eq')
    if np.any(F['sense'] == 0):
        cl.add('row-le')
    e1 = np.zeros(n)
    e1[0] = 1.0
    if not np.array_equal(F['obj'], e1):
        cl.add('objective-general')
    if np.any(F['obj'] < 0):
        cl.add('objective-negative-coef')
    if not np.any(F['obj'] != 0):
        cl.add('objective-all-zero')
    # classes of the INPUT (not of the text, which a defective writer may distort)
    shown = [float(v) for arr in (data, F['obj'], F['const']) for v in arr]
    if any('e' in repr(abs(v)) for v in shown if v not in (INF, -INF)):
        cl.add('exponent-notation-in-text')
    if any('e-' in repr(abs(v)) for v in shown if v not in (INF, -INF)):
        cl.add('negative-exponent-in-text')
    for i in range(m):
        if F['indptr'][i + 1] > F['indptr'][i] and data[F['indptr'][i]] < 0:
            cl.add('row-leading-minus')
    nzobj = [v for v in F['obj'] if v != 0]
    if nzobj and nzobj[0] < 0:
        cl.add('objective-leading-minus')
    cl.add('cls-' + F['cls'])
    cl.add('mode-' + rec['mode'])
    cl.add('dir-' + rec['dir'])
    cl.add('outcome-' + outcome)
    if injected:
        cl.add('constructed-with-stored-zeros')
    return sorted(cl)


# ------------------------------------------------------------------------------------------------
# 6. the replay of one program

def rec_sig(rec):
    rows = ';'.join('%s%s%d%s' % (','.join(map(str, r['a'])), '<' if r['s'] == 'le' else '=', r['b'],
                                  'z%d' % r['ez'] if r['ez'] else '') for r in rec['rows'])
    cones = ';'.join('%d>%s' % (c['h'], ','.join(map(str, c['mem']))) for c in rec['cones'])
    return '%s|%s|%s|lb%s|ub%s|o%s|R%s|K%s' % (rec['cls'], rec['mode'], rec['dir'] + ''.join(rec['vt']),
                                               ','.join(map(str, rec['lb'])), ','.join(map(str, rec['ub'])),
                                               ','.join(map(str, rec['obj'])), rows, cones)


def _replay(job, phase):
    import warnings
    warnings.filterwarnings('ignore')
    rec = job['rec']
    findings, notes = [], []
    sig = rec_sig(rec)

    def finding(s, what, prop='C16', **kw):
        d = dict(sig=s, prop=prop, what=what, program=rec, recsig=sig)
        d.update(kw)
        findings.append(d)

    phase[0] = 'build'
    m, x, f = build(rec)
    injected = 0
    if rec['mode'] == 'primal' and any(r['ez'] for r in rec['rows']):
        phase[0] = 'construct'
        f, injected = inject_zeros(f, rec, int(getattr(x, 'first', 1)))
        if not injected:
            notes.append('ez rows not located in the formula; nothing injected')
    F = snapshot(f)
    if F['nxmat'] or F['nlmi']:
        raise RuntimeError('harness: formula outside LP/MILP/SOCP')
    P, rk, dup = project(F)
    if dup:
        notes.append('duplicate column entries in a sparse row')
    if 'bad' in P['sense']:
        raise RuntimeError('harness: sense outside {0,1}')
    if P['n'] > 40 or P['m'] > 40:
        raise RuntimeError('harness: formula larger than expected %s' % (F['shape'],))

    # -------------------------------------------------------------------------- exports
    phase[0] = 'lp_export'
    text = f.lp_export()
    if not isinstance(text, str):
        finding('C16:lp-text:not-a-string', 'lp_export() returned %s' % type(text).__name__)
        text = ''
    phase[0] = 'show'
    frame = f.show()
    phase[0] = 'lex'
    lp_events = lex_lp(text, rk)
    show_events = lex_show(frame, rk)

    scratch = tempfile.mkdtemp(prefix='rsome-verif-c16-', dir=os.environ.get('VERIF_TMP', '/tmp'))
    try:
        phase[0] = 'to_lp'
        base = os.path.join(scratch, 'prog')
        f.to_lp(base)
        path = base + '.lp'
        if not os.path.exists(path):
            finding('C16:lp-file:not-written', 'to_lp(name) did not write name.lp', files=os.listdir(scratch))
            file_text = None
        else:
            with open(path) as fh:
                file_text = fh.read()
            if file_text != text:
                finding('C16:lp-file:differs-from-lp_export', 'file content differs from lp_export()')
        # ---------------------------------------------------------------------- independent reader
        phase[0] = 'harness-read'
        Qf = arrays_from_F(F)
        truth_g = solve_gurobi(Qf)
        truth_s = solve_scipy(Qf)
        tol = TOL_SOC if F['qmat'] else TOL_LP
        wc = well_conditioned(F)
        res = dict(truth_gurobi=truth_g, truth_scipy=truth_s)
        inconclusive = 0
        # the two independent solvers on the formula itself: calibration of what "agree" can mean
        c0 = compare(truth_g, truth_s, tol)
        solver_pair_ok = c0 == 'ok' or truth_s[0] == 'n/a'
        if not solver_pair_ok:
            inconclusive += 1
            notes.append('gurobi and highs differ on the formula itself: %s vs %s' % (truth_g, truth_s))
        if file_text is not None:
            import gurobipy as gp
            try:
                diffs, file_out = read_file_with_gurobi(path, F)
            except gp.GurobiError as e:
                diffs, file_out = None, None
                finding('C16:lp-file:reader-rejects-file', 'gurobipy.read() failed: %s' % e, text=text)
            if diffs is not None:
                res['file_gurobi'] = file_out
                for dname in diffs:
                    finding('C16:lp-file:read-back-differs:' + dname.split(':')[0],
                            'program read back from the .lp file differs from the formula: ' + dname,
                            text=text, diffs=diffs)
                c1 = compare(truth_g, file_out, tol)
                res['file_vs_formula'] = c1
                if c1 in ('status', 'value'):
                    if diffs or (wc and solver_pair_ok):
                        finding('C16:lp-file:optimum:' + c1, 'solving the file gives %s, solving the formula %s'
                                % (file_out, truth_g), text=text, diffs=diffs)
                    else:
                        inconclusive += 1
                elif c1 == 'inconclusive':
                    inconclusive += 1
        # ---------------------------------------------------------------------- token reconstruction
        phase[0] = 'harness-tokens'
        Qt = arrays_from_tokens(lp_events, P['n'], rk.table)
        if Qt is None:
            res['tokens'] = 'not-reconstructible'
        else:
            tok_s = solve_scipy(Qt)
            tok_g = solve_gurobi(Qt)
            res['tokens_scipy'] = tok_s
            res['tokens_gurobi'] = tok_g
            # the same solver on both sides; a mismatch of either pair means the programs differ
            cs = [compare(truth_g, tok_g, tol)] + ([compare(truth_s, tok_s, tol)] if not F['qmat'] else [])
            c2 = ('status' if 'status' in cs else 'value' if 'value' in cs else 'ok' if 'ok' in cs else 'inconclusive')
            res['tokens_vs_formula'] = c2
            if c2 in ('status', 'value'):
                if wc:
                    finding('C16:lp-text:optimum:' + c2,
                            'program reconstructed from the tokens gives %s / %s, the formula %s / %s'
                            % (tok_g, tok_s, truth_g, truth_s), text=text)
                else:
                    inconclusive += 1
            elif c2 == 'inconclusive':
                inconclusive += 1
    finally:
        shutil.rmtree(scratch, ignore_errors=True)

    # -------------------------------------------------------------------------- rsome's own solve
    phase[0] = 'rsome-solve'
    direct = {}
    try:
        from rsome import grb_solver
        import rsome.lp as rlp
        # gurobi first: the default MILP interface overwrites the bounds of binaries in the cached formula
        if rec['mode'] != 'dual' and not injected:
            m.solve(grb_solver, display=False, params=GRB_PARAMS)
            direct['gurobi'] = _sol_outcome(m.solution, grb=True)
            if not F['qmat']:
                m.solve(display=False)
                direct['default'] = _sol_outcome(m.solution)
        else:
            direct['gurobi'] = _sol_outcome(grb_solver.solve(f, display=False, params=GRB_PARAMS), grb=True)
            if not F['qmat']:
                direct['default'] = _sol_outcome(rlp.def_sol(f, display=False))
    except Exception as e:   # solver-interface trouble is not this property's business
        notes.append('rsome solve raised %r' % (e,))
    res['direct'] = direct
    truth = truth_g if truth_g[0] != 'other' else truth_s
    for sname, out in direct.items():
        # Not this property: rsome's solver interface versus the formula.  Reported (as C11) only when two
        # independent solvers agree on what the formula denotes and optimality itself is in question.
        c3 = compare(truth, out, tol)
        decisive = (truth[0] == 'optimal') != (out[0] == 'optimal') or c3 == 'value'
        if c3 in ('status', 'value') and decisive and wc and c0 == 'ok':
            tag = 'binary-with-user-bound' if any(
                F['vtype'][j] == 'B' and (F['lb'][j] > -INF or F['ub'][j] < INF) for j in range(P['n'])) else 'other'
            finding('C11:solve-differs-from-formula:%s:%s' % (sname, tag),
                    'rsome %s solve gives %s, the formula denotes %s' % (sname, out, truth), prop='C11')
    outcome = truth[0]
    cls = classes_of(F, text, outcome, rec, injected)
    heads_ok = all(F['lb'][q[0]] >= 0 for q in F['qmat'])
    if not heads_ok:
        notes.append('a cone head has a negative lower bound: the quadratic row denotes a non-convex set')
    return dict(findings=findings, notes=notes, recsig=sig, P=P, lp=lp_events, show=show_events, classes=cls,
                res=res, inconclusive=inconclusive, text=text if len(text) < 1500 else text[:1500],
                table=[repr(v) for v in rk.table], shape=list(F['shape']), injected=injected,
                show_rows=[str(i) for i in getattr(frame, 'index', [])][:40])


def _sol_outcome(sol, grb=False):
    if sol is None:
        return ('other', 'no-solution-object')
    v = sol.objval
    st = sol.status
    if v is not None and not (isinstance(v, float) and math.isnan(v)):
        return ('optimal', float(v))
    if grb:
        return {3: ('infeasible', None), 4: ('inf_or_unbd', None), 5: ('unbounded', None)}.get(st, ('other', st))
    return {2: ('infeasible', None), 3: ('unbounded', None)}.get(st, ('other', st))


def replay(job):
    """Library exceptions where the property promises success (exporting a compiled formula) are
    findings; exceptions of the harness are machinery errors."""
    import traceback
    phase = ['start']
    try:
        return _replay(job, phase)
    except Exception as e:
        tb = traceback.extract_tb(e.__traceback__)
        in_lib = any('/rsome/' in fr.filename for fr in tb) and phase[0] in (
            'build', 'construct', 'lp_export', 'show', 'to_lp')
        if not in_lib:
            raise
        rec = job['rec']
        where = [fr for fr in tb if '/rsome/' in fr.filename][-1]
        if phase[0] in ('build', 'construct'):
            # the program could not be compiled at all: nothing to export; not this property
            return dict(findings=[], notes=['build raised %r at %s:%d' % (e, where.filename, where.lineno)],
                        recsig=rec_sig(rec), P=None, lp=[], show=[], classes=['build-raised'], res={},
                        inconclusive=0, text='', table=[], shape=[0, 0], injected=0, show_rows=[])
        return dict(findings=[dict(sig='C16:unexpected-exception:%s:%s' % (phase[0], type(e).__name__), prop='C16',
                                   what='rsome raised %r in %s of a compiled formula' % (e, phase[0]),
                                   where='%s:%d' % (where.filename, where.lineno), program=rec,
                                   recsig=rec_sig(rec))],
                    notes=[], recsig=rec_sig(rec), P=None, lp=[], show=[], classes=['export-raised'], res={},
                    inconclusive=0, text='', table=[], shape=[0, 0], injected=0, show_rows=[])
