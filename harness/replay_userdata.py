"""Spec -> code replay for UserData.tla (C19): a user array of a given kind in a given role; the array must come back
byte-identical after build / do_math (primal, dual) / solve / do_math, no step may raise because of the array's kind, and
the standard forms must equal those obtained with a plain float64 copy of the same numbers."""
import hashlib

import numpy as np

BASE = {'vec': np.array([2.0, -1.0, 3.0]), 'mat': np.array([[1.0, 2.0, 0.0], [0.0, -1.0, 3.0], [2.0, 0.0, 1.0]]),
        'vec01': np.array([1.0, 0.0, 1.0]),
        'psd': np.array([[3.0, 1.0, 1.0], [1.0, 3.0, 1.0], [1.0, 1.0, 2.0]])}   # dense on purpose: not tridiagonal


def make(kind, dtype, layout, writeable):
    """An array equal in value to BASE[kind] (cast to dtype) with the requested memory layout."""
    base = BASE[kind]
    if dtype == 'bool':
        base = np.eye(3) if kind == 'psd' else (BASE['vec01'] if kind != 'mat' else (BASE['mat'] != 0).astype(float))
    if dtype in ('uint8',):
        base = np.abs(base)
    vals = base.astype(dtype if dtype != 'object' else object)
    if layout == 'contiguous':
        a = np.ascontiguousarray(vals)
    elif layout == 'fortran':
        a = np.asfortranarray(vals)
    elif layout == 'strided':
        big = np.zeros(tuple(2 * s for s in vals.shape), dtype=vals.dtype)
        big[tuple(slice(None, None, 2) for _ in vals.shape)] = vals
        a = big[tuple(slice(None, None, 2) for _ in vals.shape)]
    elif layout == 'reversed':
        rev = np.ascontiguousarray(vals[tuple(slice(None, None, -1) for _ in vals.shape)])
        a = rev[tuple(slice(None, None, -1) for _ in vals.shape)]
    elif layout == 'transposed':
        a = np.ascontiguousarray(vals.T).T
    elif layout == 'broadcast':
        a = np.broadcast_to(vals, vals.shape)          # read-only view
    else:
        raise ValueError(layout)
    assert np.array_equal(np.asarray(a, dtype=float), np.asarray(vals, dtype=float))
    if layout != 'broadcast':
        a.flags.writeable = bool(writeable)
    return a, np.array(np.asarray(vals, dtype=float), dtype=float, order='C', copy=True)


def _fl(v):
    """float64 bytes with -0.0 normalised to 0.0 (numerically the same program)."""
    return (np.asarray(v, dtype=float) + 0.0).tobytes()


def sig(f):
    parts = [_fl(f.linear.data), np.asarray(f.linear.indices, dtype=np.int64).tobytes(), np.asarray(f.linear.indptr, dtype=np.int64).tobytes(),
             str(f.linear.shape).encode(), _fl(f.const), _fl(f.sense), _fl(f.ub), _fl(f.lb), _fl(f.obj), str(list(f.vtype)).encode(),
             str([list(map(int, q)) for q in getattr(f, 'qmat', [])]).encode(), str([list(map(int, q)) for q in getattr(f, 'xmat', [])]).encode()]
    return hashlib.sha1(b'|'.join(parts)).hexdigest()


def build(front, role, arr):
    import rsome as rso
    from rsome import ro, dro, E
    m = ro.Model() if front == 'ro' else dro.Model(2)
    x = m.dvar(3)
    z = m.rvar(3)
    fs = None
    box = [z >= -1, z <= 1]
    if front == 'dro':
        fs = m.ambiguity()
    # defaults
    setc = box
    obj = x.sum()
    rows = [x >= -5, x <= 5]
    if role == 'obj':
        obj = arr @ x
    elif role == 'elemmul':
        rows.append((arr * x).sum() <= 4)
    elif role == 'matmul_left':
        rows.append(arr @ x <= 4)
    elif role == 'matmul_right':
        rows.append(x @ arr <= 4)
    elif role == 'rhs':
        rows.append(-2 * x <= arr)
    elif role == 'bound':
        rows.append(x <= arr)
    elif role == 'add_const':
        rows.append((x + arr).sum() <= 12)
    elif role == 'set_rhs':
        setc = [z >= -1, z <= arr]
    elif role == 'set_matrix':
        setc = box + [arr @ z <= 3]
    elif role == 'rand_coef':
        rows.append((arr @ z) @ x <= 20)
    elif role == 'quad_matrix':
        rows.append(rso.quad(x, arr) <= 30)
    elif role == 'quad_set':
        setc = box + [rso.quad(z, arr) <= 4]
    elif role == 'expt_rhs':
        pass
    elif role == 'prob_rhs':
        pass
    else:
        raise ValueError(role)
    if front == 'ro':
        m.minmax(obj + 0 * z.sum(), setc)
    else:
        fs.suppset(*setc)
        if role == 'expt_rhs':
            fs.exptset(E(z) <= arr)
        if role == 'prob_rhs':
            fs.probset(m.p <= arr[:2])
        m.minsup(E(obj + 0 * z.sum()), fs)
    m.st(rows)
    m.st(x[0] + x[1] + x[2] >= -z.sum())
    return m


def run_case(front, role, arr):
    steps = {}
    m = build(front, role, arr)
    steps['built'] = None
    P = m.do_math()
    steps['primal'] = sig(P)
    D = m.do_math(primal=False)
    steps['dual'] = sig(D)
    if role in ('quad_matrix', 'quad_set'):
        from rsome import eco_solver
        m.solve(eco_solver, display=False)
    else:
        m.solve(display=False)
    steps['solved'] = None if m.solution is None else repr(round(float(m.solution.objval), 9))
    steps['primal2'] = sig(m.do_math())
    return steps


def replay(job):
    import traceback
    c = job['case']
    kind = 'mat' if c['role'] in ('matmul_left', 'matmul_right', 'set_matrix', 'rand_coef') else 'vec'
    if c['role'] in ('quad_matrix', 'quad_set'):
        kind = 'psd'
    if c['role'] == 'prob_rhs':
        kind = 'vec01'          # upper bounds on the two scenario probabilities: (1, 0)
    arr, plain = make(kind, c['dtype'], c['layout'], c['writeable'])
    before = (arr.tobytes(), arr.dtype.str, arr.shape, arr.strides, bool(arr.flags.writeable))
    out = dict(tid=job['tid'])
    rs = np.random.get_state()[1].tobytes()
    try:
        out['steps'] = run_case(c['front'], c['role'], arr)
    except Exception as e:
        tb = traceback.extract_tb(e.__traceback__)
        if not any('/rsome/' in fr.filename for fr in tb):
            raise
        out['exc'] = '%s: %s' % (type(e).__name__, str(e)[:150])
        out['where'] = '%s:%d' % (tb[-1].filename.split('/')[-1], tb[-1].lineno)
    after = (arr.tobytes(), arr.dtype.str, arr.shape, arr.strides, bool(arr.flags.writeable))
    out['array_untouched'] = before == after
    out['rng_untouched'] = np.random.get_state()[1].tobytes() == rs
    try:
        out['ref'] = run_case(c['front'], c['role'], plain)
    except Exception as e:
        tb = traceback.extract_tb(e.__traceback__)
        if not any('/rsome/' in fr.filename for fr in tb):
            raise
        out['ref_exc'] = '%s: %s' % (type(e).__name__, str(e)[:150])
    return out


def two_process_signatures(job):
    """Standard-form signatures of a fixed list of models, computed in THIS process (spawned with its own PYTHONHASHSEED)."""
    out = {}
    for front in ('ro', 'dro'):
        for role in job['roles']:
            if role in ('expt_rhs', 'prob_rhs') and front != 'dro':
                continue
            kind = 'mat' if role in ('matmul_left', 'matmul_right', 'set_matrix', 'rand_coef') else ('vec01' if role == 'prob_rhs' else 'vec')
            if role in ('quad_matrix', 'quad_set'):
                kind = 'psd'
            try:
                st = run_case(front, role, BASE[kind].copy())
                out['%s:%s' % (front, role)] = [st['primal'], st['dual'], st['solved']]
            except Exception as e:
                out['%s:%s' % (front, role)] = 'exc:' + type(e).__name__
    return out
