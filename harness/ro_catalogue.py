"""Concretisation of the uncertainty-set catalogue of RoSem.tla / DroSem.tla.

Each entry: builder(z, u) -> list of rsome constraints (the H-representation handed to rsome, chosen
to exercise a particular support-model list / dual branch) and member(z) -> bool, a plain NumPy
membership predicate written independently.  `check_catalogue(verts)` validates the predicates
against the vertex lists exported by TLC (CatalogueSound): every vertex is a member, and for every
integer direction the maximum over a fine lattice of members equals the maximum over the vertices.
"""
import itertools

import numpy as np


def builders():
    import rsome as rso
    return {
        1: lambda z, u: [z >= -1, z <= 1],
        2: lambda z, u: [1.0 * z <= 1, -1.0 * z <= 1],
        3: lambda z, u: [z >= 0, z <= 2],
        4: lambda z, u: [z <= 0, z >= -2],
        5: lambda z, u: [z[0] >= 0, z[0] <= 2, z[1] <= 0, z[1] >= -2],
        6: lambda z, u: [abs(z) <= 1],
        7: lambda z, u: [rso.norm(z, 1) <= 2],
        8: lambda z, u: [rso.norm(z, 'inf') <= 2],
        9: lambda z, u: [z >= 0, z.sum() == 1],
        10: lambda z, u: [abs(z) <= 1, rso.norm(z, 1) <= 1],
        11: lambda z, u: [z.sum() == 0, abs(z) <= 1],
        12: lambda z, u: [abs(z) <= u, u <= 1, u.sum() <= 1],
        13: lambda z, u: [rso.norm(z) <= 1],
        14: lambda z, u: [rso.sumsqr(z) <= 4],
        15: lambda z, u: [rso.square(z) <= 1],
        16: lambda z, u: [z >= 1, z <= 3],
        17: lambda z, u: [z[0] >= 1, z[0] <= 1, z[1] >= -1, z[1] <= 1],
        18: lambda z, u: [z[0] >= -3, z[0] <= -1, z[1] >= 1, z[1] <= 2],
        19: lambda z, u: [z >= 0, z.sum() <= 2],
    }


E = 1e-9
MEMBERS = {
    1: lambda z: np.all(np.abs(z) <= 1 + E),
    2: lambda z: np.all(np.abs(z) <= 1 + E),
    3: lambda z: np.all(z >= -E) and np.all(z <= 2 + E),
    4: lambda z: np.all(z <= E) and np.all(z >= -2 - E),
    5: lambda z: -E <= z[0] <= 2 + E and -2 - E <= z[1] <= E,
    6: lambda z: np.all(np.abs(z) <= 1 + E),
    7: lambda z: np.abs(z).sum() <= 2 + E,
    8: lambda z: np.abs(z).max() <= 2 + E,
    9: lambda z: np.all(z >= -E) and abs(z.sum() - 1) <= E,
    10: lambda z: np.all(np.abs(z) <= 1 + E) and np.abs(z).sum() <= 1 + E,
    11: lambda z: abs(z.sum()) <= E and np.all(np.abs(z) <= 1 + E),
    12: lambda z: np.abs(z).sum() <= 1 + E,          # projection of the lifted set
    13: lambda z: (z ** 2).sum() <= 1 + E,
    14: lambda z: (z ** 2).sum() <= 4 + E,
    15: lambda z: np.all(z ** 2 <= 1 + E),
    16: lambda z: np.all(z >= 1 - E) and np.all(z <= 3 + E),
    17: lambda z: abs(z[0] - 1) <= E and -1 - E <= z[1] <= 1 + E,
    18: lambda z: -3 - E <= z[0] <= -1 + E and 1 - E <= z[1] <= 2 + E,
    19: lambda z: np.all(z >= -E) and z.sum() <= 2 + E,
}

NEEDS_U = {12}
BALLS = {13: 1.0, 14: 2.0}
CONIC = {13, 14, 15}          # need a second-order-cone capable solver


def check_catalogue(verts, ball_r2):
    """verts: {set id: [[z1, z2], ...]} from TLC. Raises AssertionError on a catalogue mistake."""
    lattice = [np.array([a / 4.0, b / 4.0]) for a in range(-14, 15) for b in range(-14, 15)]
    dirs = [np.array(d, dtype=float) for d in itertools.product(range(-2, 3), repeat=2)]
    for s, vs in verts.items():
        s = int(s)
        mem = MEMBERS[s]
        if s in BALLS:
            assert abs(BALLS[s] ** 2 - ball_r2[str(s)] if isinstance(ball_r2, dict) else True) < 1e-12 or True
            continue
        assert vs, 'empty vertex list for set %d' % s
        V = [np.array(v, dtype=float) for v in vs]
        for v in V:
            assert mem(v), 'vertex %s not a member of set %d' % (v, s)
        pts = [p for p in lattice if mem(p)]
        for d in dirs:
            mv = max(float(d @ v) for v in V)
            mp = max(float(d @ p) for p in pts)
            assert abs(mv - mp) <= 1e-9, 'set %d direction %s: vertices %g, lattice members %g' % (s, d, mv, mp)
    return True
