"""Concretisation of the uncertainty-set catalogue of RoSem.tla / DroSem.tla.

Each entry: builder(z, u) -> list of rsome constraints (the H-representation handed to rsome, chosen
to exercise a particular support-model list / dual branch) and member(z) -> bool, a plain NumPy
membership predicate written independently.  `check_catalogue(verts)` validates the predicates
against the vertex lists exported by TLC (CatalogueSound): every vertex is a member, and for every
integer direction the maximum over a fine lattice of members equals the maximum over the vertices.

Conic / transcendental sets (ids 20..36): the membership predicate is a list of convex functions F[s]
(member iff every f <= 0; sets with an equality live on the line z1 + z2 = 1).  Everything else is DERIVED
from membership alone (never from rsome): dense inner / outer polygons for the float oracle
(`dense(s)`), and the verification of the coarse integer polygons written as literals in spec/RoSets.tla
(`check_sand`).  See the section "Sandwich sets" below for the argument why the outer test is sound.
"""
import itertools

import numpy as np


def builders():
    import rsome as rso
    return {
        1: lambda z, u: [z >= -1, z <= 1],
        2: lambda z, u: [1.0 * z <= 1, -1.0 * z <= 1],
        3: lambda z, u: [z >= 0, z <= 2],
        4: lambda z, u: [z <= 0, z >= -2],
        5: lambda z, u: [z[0] >= 0, z[0] <= 2, z[1] <= 0, z[1] >= -2],
        6: lambda z, u: [abs(z) <= 1],
        7: lambda z, u: [rso.norm(z, 1) <= 2],
        8: lambda z, u: [rso.norm(z, 'inf') <= 2],
        9: lambda z, u: [z >= 0, z.sum() == 1],
        10: lambda z, u: [abs(z) <= 1, rso.norm(z, 1) <= 1],
        11: lambda z, u: [z.sum() == 0, abs(z) <= 1],
        12: lambda z, u: [abs(z) <= u, u <= 1, u.sum() <= 1],
        13: lambda z, u: [rso.norm(z) <= 1],
        14: lambda z, u: [rso.sumsqr(z) <= 4],
        15: lambda z, u: [rso.square(z) <= 1],
        16: lambda z, u: [z >= 1, z <= 3],
        17: lambda z, u: [z[0] >= 1, z[0] <= 1, z[1] >= -1, z[1] <= 1],
        18: lambda z, u: [z[0] >= -3, z[0] <= -1, z[1] >= 1, z[1] <= 2],
        19: lambda z, u: [z >= 0, z.sum() <= 2],
        37: lambda z, u: [z[0] >= 0, z[0] <= 1, z[1] >= -1, z[1] <= 1],   # sign-restricted component (Bounds, bound 0) + non-zero bounds
        38: lambda z, u: [z[0] <= 0, z[0] >= -2, z[1] >= 1, z[1] <= 3],
        # ---- conic / transcendental sets
        20: lambda z, u: [rso.pnorm(z, 3) <= 2],                                   # power-cone tower (SOC)
        21: lambda z, u: [rso.quad(z, np.array([[1, .5], [.5, 1]])) <= 1],          # rotated ellipse
        22: lambda z, u: [abs(z) <= 1, rso.norm(z) <= 1.2],                         # box and 2-ball
        23: lambda z, u: [z >= 0, z.sum() == 1, rso.kldiv(z, np.array([.5, .5]), 0.1)],   # KL ball on the simplex
        24: lambda z, u: [rso.exp(z[0]) <= z[1], z[0] >= -1, z[1] <= 2],            # exp-cone piece + bounds
        25: lambda z, u: [z >= 0, z.sum() == 1, rso.entropy(z) >= 0.5],             # entropy set
        26: lambda z, u: [rso.exp(z) <= u, u.sum() <= 3, z >= -1],                  # lifted exp set
        27: lambda z, u: [rso.power(z[0], 2) <= z[1], z[1] <= 2],                   # parabola region
        28: lambda z, u: [rso.quad(z, np.diag([.25, 1.])) <= 1],                    # axis-aligned ellipse (exact in TLC)
        29: lambda z, u: [rso.pnorm(z, 1.5) <= 2],                                  # p < 2, float degree: exp cones
        30: lambda z, u: [rso.softplus(z[0]) <= z[1], z[1] <= 2, z[0] >= -2],       # softplus
        31: lambda z, u: [rso.log(z[1]) >= z[0], z[0] >= -1, z[1] <= 2],            # the set of 24 written with log
        32: lambda z, u: [rso.pnorm(z, (3, 2)) <= 2],                               # the set of 29, rational degree: SOC tower
        33: lambda z, u: [rso.norm(z) <= 1.5, z.sum() == 1],                        # 2-ball and an equality (a chord)
        34: lambda z, u: [rso.exp(z[0]) <= z[1], z[0] + z[1] == 1, z[0] >= -1],     # exp piece and an equality: segment (-1,2)-(0,1) EXACTLY
        39: lambda z, u: [rso.norm(z[0:1]) <= 1, rso.norm(z) <= 1.6],                 # TWO second-order cones of different dimension (2 and 3)
        35: lambda z, u: [rso.gmean(z) >= 1, z <= 2],                               # hyperbola region z1 z2 >= 1
        36: lambda z, u: [rso.norm(z - np.array([1., 0.])) <= 1],                   # shifted ball (exact in TLC)
    }


E = 1e-9
MEMBERS = {
    1: lambda z: np.all(np.abs(z) <= 1 + E),
    2: lambda z: np.all(np.abs(z) <= 1 + E),
    3: lambda z: np.all(z >= -E) and np.all(z <= 2 + E),
    4: lambda z: np.all(z <= E) and np.all(z >= -2 - E),
    5: lambda z: -E <= z[0] <= 2 + E and -2 - E <= z[1] <= E,
    6: lambda z: np.all(np.abs(z) <= 1 + E),
    7: lambda z: np.abs(z).sum() <= 2 + E,
    8: lambda z: np.abs(z).max() <= 2 + E,
    9: lambda z: np.all(z >= -E) and abs(z.sum() - 1) <= E,
    10: lambda z: np.all(np.abs(z) <= 1 + E) and np.abs(z).sum() <= 1 + E,
    11: lambda z: abs(z.sum()) <= E and np.all(np.abs(z) <= 1 + E),
    12: lambda z: np.abs(z).sum() <= 1 + E,          # projection of the lifted set
    13: lambda z: (z ** 2).sum() <= 1 + E,
    14: lambda z: (z ** 2).sum() <= 4 + E,
    15: lambda z: np.all(z ** 2 <= 1 + E),
    16: lambda z: np.all(z >= 1 - E) and np.all(z <= 3 + E),
    17: lambda z: abs(z[0] - 1) <= E and -1 - E <= z[1] <= 1 + E,
    18: lambda z: -3 - E <= z[0] <= -1 + E and 1 - E <= z[1] <= 2 + E,
    19: lambda z: np.all(z >= -E) and z.sum() <= 2 + E,
    34: lambda z: abs(z.sum() - 1) <= E and np.exp(z[0]) <= z[1] + E and z[0] >= -1 - E,
    37: lambda z: -E <= z[0] <= 1 + E and -1 - E <= z[1] <= 1 + E,
    38: lambda z: -2 - E <= z[0] <= E and 1 - E <= z[1] <= 3 + E,
}

NEEDS_U = {12, 26}
BALLS = {13: 1.0, 14: 2.0}
CONIC = {13, 14, 15}          # need a second-order-cone capable solver


def check_catalogue(verts, ball_r2, inner=None, outer=None, quadrics=None):
    """verts: {set id: [[z1, z2], ...]} from TLC. Raises AssertionError on a catalogue mistake.
    inner / outer: the integer polygons of the sandwich sets (see check_sand); quadrics: {set id: dict(c=, w=)}
    the centre and squared semi-axes TLC uses for the sets it decides exactly in squares (see check_quadrics).
    Returns {set id: sandwich gap}."""
    gaps = {}
    if inner or outer:
        gaps = check_sand(inner or {}, outer or {})
    if quadrics:
        check_quadrics(quadrics)
    lattice = [np.array([a / 4.0, b / 4.0]) for a in range(-14, 15) for b in range(-14, 15)]
    dirs = [np.array(d, dtype=float) for d in itertools.product(range(-2, 3), repeat=2)]
    for s, vs in verts.items():
        s = int(s)
        mem = MEMBERS[s]
        if s in BALLS:
            assert abs(BALLS[s] ** 2 - ball_r2[str(s)] if isinstance(ball_r2, dict) else True) < 1e-12 or True
            continue
        assert vs, 'empty vertex list for set %d' % s
        V = [np.array(v, dtype=float) for v in vs]
        for v in V:
            assert mem(v), 'vertex %s not a member of set %d' % (v, s)
        pts = [p for p in lattice if mem(p)]
        for d in dirs:
            mv = max(float(d @ v) for v in V)
            mp = max(float(d @ p) for p in pts)
            assert abs(mv - mp) <= 1e-9, 'set %d direction %s: vertices %g, lattice members %g' % (s, d, mv, mp)
    return gaps


def check_quadrics(quadrics):
    """TLC decides max g0 + g.z over {(z-c)' diag(1/w) (z-c) <= 1} as g0 + g.c + sqrt(w1 g1^2 + w2 g2^2): the points
    c + (sqrt(w1) cos t, sqrt(w2) sin t) must be THE boundary of the catalogue's set."""
    th = 2.0 * np.pi * np.arange(720) / 720
    for s, q in quadrics.items():
        s = int(s)
        assert s in EXACT_QUADRICS, 'set %d is not an exact quadric of the catalogue' % s
        c = np.array(q['c'], dtype=float)
        assert tuple(c) == tuple(float(v) for v in CENTRE[s]), 'set %d: centre %s' % (s, c)
        R = np.stack([np.sqrt(q['w'][0]) * np.cos(th), np.sqrt(q['w'][1]) * np.sin(th)], axis=1)
        Pi = c + (1 - 1e-7) * R
        Po = c + (1 + 1e-7) * R
        assert inside(s, Pi[:, 0], Pi[:, 1]).all() and not inside(s, Po[:, 0], Po[:, 1]).any(), 'set %d: quadric %s is not the set' % (s, q)
    return True


# =====================================================================================================
# Sandwich sets: convex sets with a curved boundary (conic / transcendental H-representation)
# =====================================================================================================
# F[s]: convex functions of (a, b) = (z1, z2), vectorised over NumPy arrays; z is a member iff every f <= 0
# (and z1 + z2 = 1 for the sets in ON_LINE).  Written from the mathematical definition of the set, not from
# rsome.  A function returns nan/inf outside its domain (=> not a member).

def _xlogx(a):
    a = np.asarray(a, dtype=float)
    return np.where(a > 0, a * np.log(np.where(a > 0, a, 1.0)), np.where(a == 0, 0.0, np.inf))


def _log(b):
    b = np.asarray(b, dtype=float)
    return np.where(b > 0, np.log(np.where(b > 0, b, 1.0)), -np.inf)


F = {
    13: [lambda a, b: a * a + b * b - 1.0],
    14: [lambda a, b: a * a + b * b - 4.0],
    20: [lambda a, b: np.abs(a) ** 3 + np.abs(b) ** 3 - 8.0],
    21: [lambda a, b: a * a + a * b + b * b - 1.0],
    22: [lambda a, b: np.abs(a) - 1.0, lambda a, b: np.abs(b) - 1.0, lambda a, b: a * a + b * b - 1.44],
    23: [lambda a, b: -a, lambda a, b: -b,
         lambda a, b: _xlogx(a) + _xlogx(b) + (a + b) * np.log(2.0) - 0.1],       # sum z log(z / .5) <= .1
    24: [lambda a, b: np.exp(a) - b, lambda a, b: -1.0 - a, lambda a, b: b - 2.0],
    25: [lambda a, b: -a, lambda a, b: -b, lambda a, b: 0.5 + _xlogx(a) + _xlogx(b)],   # -sum z log z >= .5
    26: [lambda a, b: np.exp(a) + np.exp(b) - 3.0, lambda a, b: -1.0 - a, lambda a, b: -1.0 - b],
    27: [lambda a, b: a * a - b, lambda a, b: b - 2.0],
    28: [lambda a, b: a * a / 4.0 + b * b - 1.0],
    29: [lambda a, b: np.abs(a) ** 1.5 + np.abs(b) ** 1.5 - 2.0 ** 1.5],
    30: [lambda a, b: np.logaddexp(0.0, a) - b, lambda a, b: b - 2.0, lambda a, b: -2.0 - a],
    31: [lambda a, b: a - _log(b), lambda a, b: -1.0 - a, lambda a, b: b - 2.0],
    32: [lambda a, b: np.abs(a) ** 1.5 + np.abs(b) ** 1.5 - 2.0 ** 1.5],
    33: [lambda a, b: a * a + b * b - 2.25],
    35: [lambda a, b: -a, lambda a, b: -b, lambda a, b: 1.0 - np.sqrt(np.maximum(a, 0.0) * np.maximum(b, 0.0)),
         lambda a, b: a - 2.0, lambda a, b: b - 2.0],
    36: [lambda a, b: (a - 1.0) ** 2 + b * b - 1.0],
    39: [lambda a, b: np.abs(a) - 1.0, lambda a, b: a * a + b * b - 2.56],
}
ON_LINE = {23, 25, 33}                       # sets inside the line z1 + z2 = 1 (segments)
CENTRE = {13: (0, 0), 14: (0, 0), 20: (0, 0), 21: (0, 0), 22: (0, 0), 23: (.5, .5), 24: (-.3, 1.4), 25: (.5, .5),
          26: (0, 0), 27: (0, 1), 28: (0, 0), 29: (0, 0), 30: (-.5, 1.3), 31: (-.3, 1.4), 32: (0, 0), 33: (.5, .5),
          35: (1.5, 1.5), 36: (1, 0), 39: (0, 0)}     # a point well inside each set (relative interior for segments)

SAND = {20, 21, 22, 23, 24, 25, 26, 27, 29, 30, 31, 32, 33, 35, 39}   # kind "sand" in RoSem.tla (RoSets.tla literals)
EXACT_QUADRICS = {13, 14, 28, 36}            # kind "ball": decided exactly by TLC in squares
NEW_SETS = sorted(SAND | {28, 34, 36})
NEEDS_EXP = {23, 24, 25, 26, 29, 30, 31, 34}  # exponential cones: ECOS only, continuous decisions only
NEEDS_SOC = {13, 14, 15, 20, 21, 22, 27, 28, 32, 33, 35, 36, 39}   # second-order cones: ECOS or Gurobi
IPCONE_POW2 = {27, 35}                       # integer power cone, degrees summing to a power of two (see replay_rosem.build)
DENSE_SETS = SAND | EXACT_QUADRICS           # sets whose float oracle uses dense(s)
ZD = 1000                                    # scale of the integer polygons of RoSets.tla
DENSE_N = 360                                # uniform rays of the dense polygons (refined where the boundary bends)
DENSE_CAP = 1e-5                             # target height of the outer caps
TMAX = 8.0                                   # every set lies within distance TMAX of its centre


def _fmember(s):
    fs = F[s]
    line = s in ON_LINE

    def mem(z):
        z = np.asarray(z, dtype=float)
        with np.errstate(all='ignore'):
            ok = all(bool(f(z[0], z[1]) <= E) for f in fs)
        return ok and (not line or abs(z[0] + z[1] - 1.0) <= E)
    return mem


for _s in F:
    if _s not in MEMBERS:
        MEMBERS[_s] = _fmember(_s)


def inside(s, A, B, slack=0.0):
    """Vectorised membership (of the inequality part): every f(A, B) <= slack."""
    A = np.asarray(A, dtype=float)
    B = np.asarray(B, dtype=float)
    ok = np.ones(A.shape, dtype=bool)
    with np.errstate(all='ignore'):
        for f in F[s]:
            ok &= (f(A, B) <= slack)
    return ok


def _bisect(s, c, D, slack):
    """Boundary of S along the rays c + t*D[k], t in [0, TMAX]: returns (t_in, t_out), |t_out - t_in| ~ 1e-15,
    c + t_in*D[k] a member, c + t_out*D[k] not a member (the members on a ray from a member are an interval)."""
    n = D.shape[0]
    lo = np.zeros(n)
    hi = np.full(n, TMAX)
    assert bool(inside(s, np.array(c[0]), np.array(c[1]), -1e-3)), 'centre of set %d is not well inside' % s
    assert not inside(s, c[0] + TMAX * D[:, 0], c[1] + TMAX * D[:, 1], slack).any(), 'set %d not within TMAX' % s
    for _ in range(70):
        mid = 0.5 * (lo + hi)
        ins = inside(s, c[0] + mid * D[:, 0], c[1] + mid * D[:, 1], slack)
        lo = np.where(ins, mid, lo)
        hi = np.where(ins, hi, mid)
    return lo, hi


def boundary(s, n, phase=0.0, slack=0.0):
    """Boundary points of a full-dimensional set in angular order (rays from the centre; n = number of uniform
    rays or an increasing array of angles): (P_in, P_out) arrays (n, 2): members / non-members ~1e-15 apart."""
    c = np.array(CENTRE[s], dtype=float)
    th = phase + 2.0 * np.pi * np.arange(n) / n if np.isscalar(n) else np.asarray(n, dtype=float)
    D = np.stack([np.cos(th), np.sin(th)], axis=1)
    lo, hi = _bisect(s, c, D, slack)
    return c + lo[:, None] * D, c + hi[:, None] * D


def _cap_heights(P, Q):
    w = np.roll(P, -1, axis=0) - P
    return np.abs((Q - P)[:, 0] * w[:, 1] - (Q - P)[:, 1] * w[:, 0]) / np.maximum(np.hypot(w[:, 0], w[:, 1]), 1e-300)


def segment(s, slack=0.0):
    """Sets on the line z1 + z2 = 1: ((a_in_lo, a_in_hi), (a_out_lo, a_out_hi)) for the z1-coordinate."""
    c = np.array(CENTRE[s], dtype=float)
    assert abs(c.sum() - 1.0) < 1e-15
    D = np.array([[1.0, -1.0], [-1.0, 1.0]])
    lo, hi = _bisect(s, c, D, slack)
    return (c[0] - lo[1], c[0] + lo[0]), (c[0] - hi[1], c[0] + hi[0])


def wedge_points(P):
    """Outer wedge vertices.  P: boundary points of a convex set S in angular order around an interior point c.

    Claim: the part of S in the sector between the rays through P[k] and P[k+1] lies inside the line through
    P[k-1], P[k] and inside the line through P[k+2], P[k+1].  (If a member s of that sector were strictly outside
    the line P[k-1]P[k], the segment P[k-1]..s, contained in S, would cross the ray of P[k] strictly beyond P[k], so
    P[k] would be strictly between the interior point c and a member: an interior point, not a boundary point.)
    Hence S is contained in conv(P + Q), Q[k] = the intersection of the two lines (the apex of the cap over the
    chord P[k]P[k+1]); for (numerically) parallel lines the cap is flat and the chord midpoint stands for it."""
    Pm1 = np.roll(P, 1, axis=0)
    Pp1 = np.roll(P, -1, axis=0)
    Pp2 = np.roll(P, -2, axis=0)
    d1 = P - Pm1
    d2 = Pp1 - Pp2
    cross = d1[:, 0] * d2[:, 1] - d1[:, 1] * d2[:, 0]
    w = Pp1 - P
    n1 = np.hypot(d1[:, 0], d1[:, 1])
    n2 = np.hypot(d2[:, 0], d2[:, 1])
    flat = np.abs(cross) <= 1e-7 * n1 * n2
    sc = np.where(flat, 0.0, (w[:, 0] * d2[:, 1] - w[:, 1] * d2[:, 0]) / np.where(flat, 1.0, cross))
    Q = np.where(flat[:, None], 0.5 * (P + Pp1), P + sc[:, None] * d1)
    # sanity of the construction: the apex is beyond P[k] along d1 (s >= 0) and close to the chord
    chord = np.hypot(w[:, 0], w[:, 1])
    assert (sc * n1 >= -1e-9).all() and (np.hypot(*(Q - P).T) <= 4.0 * chord + 1e-9).all(), 'wedge construction failed'
    return Q


def _hull(points):
    from scipy.spatial import ConvexHull
    pts = np.asarray(points, dtype=float)
    h = ConvexHull(pts)
    return pts[h.vertices], h.equations


_dense_cache = {}


def dense(s):
    """Dense polygons of set s from membership alone: dict(inner=[[z1, z2], ...] members of S, outer=[...] with
    S inside conv(outer), gap = largest support-function difference over 720 directions)."""
    if s in _dense_cache:
        return _dense_cache[s]
    if s in ON_LINE:
        (ilo, ihi), (olo, ohi) = segment(s)
        inner = [[ilo, 1.0 - ilo], [ihi, 1.0 - ihi]]
        outer = [[olo - 1e-12, 1.0 - olo + 1e-12], [ohi + 1e-12, 1.0 - ohi - 1e-12]]
    else:
        # rays: uniform, then sectors whose cap (outer apex over the chord) is high are subdivided
        th = 2.0 * np.pi * np.arange(DENSE_N) / DENSE_N
        for _ in range(4):
            Pin, Pout = boundary(s, th)
            Q = wedge_points(Pout)
            h = _cap_heights(Pout, Q)
            parts = np.clip(np.ceil(np.sqrt(h / DENSE_CAP)), 1, 6).astype(int)
            if parts.max() == 1 or len(th) > 6 * DENSE_N:
                break
            nxt = np.append(th[1:], th[0] + 2.0 * np.pi)
            th = np.concatenate([t0 + (t1 - t0) * np.arange(m) / m for t0, t1, m in zip(th, nxt, parts)])
        c = np.array(CENTRE[s], dtype=float)
        # corners: where the cap is not flat, add the boundary point under its apex to the inner polygon
        idx = np.argsort(-h)[:64]
        D = Q[idx] - c
        r = np.hypot(D[:, 0], D[:, 1])
        lo, hi = _bisect(s, c, D / r[:, None], 0.0)
        extra = c + np.minimum(lo, r)[:, None] * (D / r[:, None])
        inner, _ = _hull(np.vstack([Pin, extra]))
        outer, _ = _hull(np.vstack([Pout, Q]))
        assert inside(s, inner[:, 0], inner[:, 1], 0.0).all()
        inner, outer = inner.tolist(), outer.tolist()
    th = 2.0 * np.pi * np.arange(720) / 720
    Dd = np.stack([np.cos(th), np.sin(th)])
    gap = float(np.max(np.max(np.array(outer) @ Dd, axis=0) - np.max(np.array(inner) @ Dd, axis=0)))
    _dense_cache[s] = dict(inner=inner, outer=outer, gap=gap)
    return _dense_cache[s]


def _in_hull_margin(V, pts):
    """min over pts of the signed distance to the complement of conv(V) (positive = inside); V may be a segment."""
    V = np.asarray(V, dtype=float)
    pts = np.asarray(pts, dtype=float)
    U = np.unique(V, axis=0)
    d = U[-1] - U[0]
    if len(U) == 2 or np.allclose((U - U[0]) @ np.array([-d[1], d[0]]), 0.0, atol=1e-12):
        # degenerate: all vertices on one line
        a = U[np.argmin(U @ d)]
        b = U[np.argmax(U @ d)]
        L = float(np.hypot(*(b - a)))
        u = (b - a) / L
        t = (pts - a) @ u
        off = float(np.max(np.abs((pts - a) @ np.array([-u[1], u[0]]))))
        if off > 1e-9:
            return -off
        return float(min(np.min(t), np.min(L - t)))
    _, eq = _hull(U)
    return float(-np.max(eq[:, :2] @ pts.T + eq[:, 2:3]))


def check_sand(vin, vout, zd=ZD):
    """Verification of the coarse integer polygons exported by TLC (RoSets.tla literals), run in EVERY run.
    vin / vout: {set id: [[Z1, Z2], ...]} integers scaled by zd.  Raises AssertionError on a catalogue mistake.
    Returns {set id: gap} (largest support-function difference outer - inner over 64 directions, unscaled)."""
    gaps = {}
    th = 2.0 * np.pi * np.arange(64) / 64
    Dd = np.stack([np.cos(th), np.sin(th)])
    for s in sorted(set(int(k) for k in vin) | set(int(k) for k in vout)):
        assert s in SAND, 'set %d has polygons in the spec but is not a sandwich set of the catalogue' % s
        I = vin.get(str(s), vin.get(s))
        O = vout.get(str(s), vout.get(s))
        assert I and O, 'set %d: empty inner or outer polygon' % s
        for v in list(I) + list(O):
            assert all(isinstance(x, int) for x in v) and max(abs(x) for x in v) <= 3 * zd, 'set %d: vertex %s out of range' % (s, v)
        I = np.array(I, dtype=float) / zd
        O = np.array(O, dtype=float) / zd
        # (1) every inner vertex is a member with margin (and exactly on the line for segments)
        assert inside(s, I[:, 0], I[:, 1], -1e-7).all(), 'set %d: an inner vertex is not a member (margin 1e-7)' % s
        if s in ON_LINE:
            for v in list(vin.get(str(s), vin.get(s))) + list(vout.get(str(s), vout.get(s))):
                assert v[0] + v[1] == zd, 'set %d: vertex %s is not on the line z1 + z2 = 1' % (s, v)
            # (2) the segment (bisection on the line, >= 2000 sample points) lies inside the outer segment
            (_, _), (olo, ohi) = segment(s, slack=E)
            a = np.linspace(olo, ohi, 2001)
            pts = np.stack([a, 1.0 - a], axis=1)
        else:
            # (2) dense boundary sample (non-member side of the bisection, 2048 rays not aligned with the rays of
            #     the generator) AND the wedge apexes over every chord (which cover the corners between two rays)
            _, Pout = boundary(s, 2048, phase=0.0123, slack=E)
            pts = np.vstack([Pout, wedge_points(Pout)])
        m = _in_hull_margin(O, pts)
        assert m >= 1e-7, 'set %d: a boundary point of S is outside conv(Outer) (margin %.3g)' % (s, m)
        gaps[s] = float(np.max(np.max(O @ Dd, axis=0) - np.max(I @ Dd, axis=0)))
        assert gaps[s] <= 0.08, 'set %d: sandwich gap %.3g too wide to be useful' % (s, gaps[s])
    return gaps


def check_dense(s):
    """Self-check of dense(s) with an independent sample (other rays): inner members, outer contains S."""
    d = dense(s)
    I = np.array(d['inner'])
    O = np.array(d['outer'])
    assert inside(s, I[:, 0], I[:, 1], E).all(), 'dense inner vertex of set %d not a member' % s
    if s in ON_LINE:
        assert np.allclose(I.sum(axis=1), 1.0, atol=1e-12) and np.allclose(O.sum(axis=1), 1.0, atol=1e-12)
        (_, _), (olo, ohi) = segment(s)
        assert O[:, 0].min() <= olo and O[:, 0].max() >= ohi
    else:
        Pin, _ = boundary(s, 3000, phase=0.0321)
        m = _in_hull_margin(O, Pin)
        assert m >= -1e-12, 'dense outer polygon of set %d does not contain a member of S (%.3g)' % (s, m)
    assert d['gap'] <= 5e-5, 'dense polygons of set %d: gap %.3g' % (s, d['gap'])
    return d['gap']
