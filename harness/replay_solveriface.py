"""Spec -> code replay for SolverIface.tla (C11): build a declaration through the API, take the compiled
program P, solve the SAME model through every interface able to, and return what each reports."""
import math

import numpy as np

from harness.replay_stdform import prog_json, INF

PATTERN = {1: (None, None), 2: (0, None), 3: (None, 0), 4: (1, None), 5: (-1, None), 6: (None, 2), 7: (-1, 2), 8: (0, 2),
           9: (-2, 0), 10: (1, 1), 11: (0, 0), 12: (None, -1), 13: (-2, -1), 14: (0, 1), 15: (-3, 3)}


def build(job):
    import rsome as rso
    from rsome import ro
    d = job['decl']
    nc = len(d['pats'])
    var = job.get('variant', 0)
    m = ro.Model()
    if var % 2:
        x = m.dvar(nc, vtype=''.join(d['vt']))
        xs = [x[j] for j in range(nc)]
    else:
        xs = [m.dvar(vtype=d['vt'][j]) for j in range(nc)]
    for j, k in enumerate(d['pats']):
        lb, ub = PATTERN[k]
        if lb is not None:
            m.st(xs[j] >= lb)
        if ub is not None:
            m.st(xs[j] <= ub)
    obj = sum(float(c) * xs[j] for j, c in enumerate(d['obj']))
    m.min(obj)
    for r in d['rows']:
        e = sum(float(c) * xs[j] for j, c in enumerate(r['coef']))
        m.st(e == r['rhs'] if r['sense'] == 1 else e <= r['rhs'])
    cone = job.get('cone', 'none')
    if cone == 'norm2':
        m.st(rso.norm(rso.vec(*xs)) <= 3)
    elif cone == 'square':
        m.st(rso.square(xs[0]) <= xs[nc - 1] + 3)
    elif cone == 'exp':
        m.st(rso.exp(xs[0]) <= xs[nc - 1] + 4)
    elif cone.startswith('ro-'):
        # a robust row: the compiled program is the counterpart, whose cones sit on multipliers of the dualised set
        # (cone heads bounded / free as the dual construction left them - each interface must read the same cones)
        z = m.rvar(2)
        sets = {'sumsqr': rso.sumsqr(z) <= 4, 'quad': rso.quad(z, np.array([[1.0, 0.5], [0.5, 1.0]])) <= 1,
                'norm2r2': rso.norm(z) <= 2, 'square': rso.square(z) <= 1}
        m.st((xs[0] * z[0] + xs[nc - 1] * z[1] - xs[nc - 1] <= 6).forall(sets[cone[3:]]))
    return m, xs


def _replay(job, phase):
    import importlib
    import warnings
    warnings.filterwarnings('ignore')
    phase[0] = 'build'
    m, xs = build(job)
    phase[0] = 'do_math'
    P = m.do_math()
    Pj = prog_json(P)
    if Pj is not None:
        Pj['vt'] = [str(v) for v in P.vtype]
    out = dict(tid=job['tid'], P=Pj, ncols=int(P.linear.shape[1]), xmat=len(getattr(P, 'xmat', [])), runs=[])
    for iface in job['ifaces']:
        phase[0] = 'solve:' + iface
        rec = dict(iface=iface)
        try:
            # display / log settings must not change what is solved (stdout goes to /dev/null in the workers)
            kw = dict(display=(job.get('variant', 0) == 3), log=(job.get('variant', 0) == 2))
            if iface == 'def':
                m.solve(**kw)
            elif iface == 'grb':
                # Gurobi does not return on some unbounded mixed-integer cone programs: bound its run time
                m.solve(importlib.import_module('rsome.grb_solver'), params={'TimeLimit': 10}, **kw)
            else:
                m.solve(importlib.import_module('rsome.%s_solver' % iface), **kw)
        except Exception as e:
            rec.update(status='raised', exc='%s: %s' % (type(e).__name__, e))
            out['runs'].append(rec)
            continue
        s = m.solution
        ok = s is not None and not (isinstance(s.objval, float) and math.isnan(s.objval))
        if ok:
            rec.update(status='ok', objval=float(s.objval), x=[float(v) for v in np.asarray(s.x).reshape(-1)], get=float(m.get()),
                       solver_status=str(s.status))
            if len(rec['x']) != out['ncols']:
                rec['xlen_mismatch'] = True
        else:
            rec.update(status='fail', solver_status=str(getattr(s, 'status', None)), x_is_none=(s is None or s.x is None))
            for nm, fn in (('get', m.get), ('xget', xs[0].get)):
                try:
                    fn()
                    rec[nm] = 'returned'
                except RuntimeError:
                    rec[nm] = 'raised'
                except Exception as e:
                    rec[nm] = 'raised:' + type(e).__name__
        out['runs'].append(rec)
    phase[0] = 'after'
    P2 = m.do_math()
    Pj2 = prog_json(P2)
    if Pj2 is not None:
        Pj2['vt'] = [str(v) for v in P2.vtype]
    out['formula_unchanged'] = (Pj2 == Pj) and (P2 is P)
    return out


def replay(job):
    import traceback
    phase = ['start']
    try:
        return _replay(job, phase)
    except Exception as e:
        tb = traceback.extract_tb(e.__traceback__)
        if not any('/rsome/' in fr.filename for fr in tb):
            raise
        return dict(tid=job['tid'], status='exception', phase=phase[0], exc='%s: %s' % (type(e).__name__, e),
                    where='%s:%d' % (tb[-1].filename, tb[-1].lineno))


def replay_weak_relaxation(job):
    """A MILP family with a WEAK LP relaxation (number partitioning: min |a.x - b| over binaries): branch-and-bound needs
    thousands of nodes, so iteration / node limits of an interface matter.  The instances are feasible and bounded (the ECOS
    branch-and-bound, which never returns on infeasible integer programs, can therefore be included).  Oracle: brute force."""
    import importlib
    import itertools
    import traceback
    from rsome import ro
    a = np.array(job['a'], dtype=float)
    n = len(a)
    b = a.sum() / 2.0 + 0.5
    X = np.array(list(itertools.product((0.0, 1.0), repeat=n)))
    brute = float(np.min(np.abs(X @ a - b)))
    out = dict(tid=job['tid'], brute=brute, runs=[])
    for iface in job['ifaces']:
        m = ro.Model()
        x = m.dvar(n, 'B')
        t = m.dvar()
        m.min(t)
        m.st(t >= a @ x - b, t >= b - a @ x)
        rec = dict(iface=iface)
        try:
            if iface == 'def':
                m.solve(display=False)
            elif iface == 'grb':
                m.solve(importlib.import_module('rsome.grb_solver'), display=False, params={'TimeLimit': 60})
            else:
                m.solve(importlib.import_module('rsome.%s_solver' % iface), display=False)
        except Exception as e:
            tb = traceback.extract_tb(e.__traceback__)
            if not any('/rsome/' in fr.filename for fr in tb):
                raise
            rec.update(status='raised', exc='%s: %s' % (type(e).__name__, e))
            out['runs'].append(rec)
            continue
        s_ = m.solution
        if s_ is not None and not (isinstance(s_.objval, float) and math.isnan(s_.objval)):
            xv = np.array(x.get(), dtype=float).reshape(-1)
            rec.update(status='ok', objval=float(s_.objval), at_x=float(abs(a @ np.round(xv) - b)), integral=float(np.max(np.abs(xv - np.round(xv)))),
                       solver_status=str(s_.status))
        else:
            rec.update(status='fail', solver_status=str(getattr(s_, 'status', None)))
        out['runs'].append(rec)
    return out
