"""Spec -> code replay for DroLifecycle.tla: histories of ambiguity(), suppset, minsup, late dvar/adapt, st,
do_math, solve on a real rsome.dro model; after every solve each constraint must report the value of the
DECLARED supports (fresh single-constraint ro models, where nothing can leak or be stale)."""
import math

import numpy as np

from harness.replay_lifecycle import A, item_constraints, solo_value, formula_sig

TOL = 2e-5


def _replay(job, phase):
    import rsome as rso
    from rsome import dro, E, eco_solver
    import pandas as pd
    rec = job['rec']
    K, NS = job['K'], job['NS']
    hist = rec['hist']
    findings, notes = [], []

    def finding(prop, sig, what, **kw):
        findings.append(dict(prop=prop, sig=sig, what=what, hist=[(h['act'], h['args'] if h['act'] not in ('solve', 'do_math') else '...') for h in hist], **kw))

    m = dro.Model(NS)
    z = m.rvar(2)
    t = {1: m.dvar()}
    own = {}
    pending = [1]          # lower bounds t_k >= -10 are added once the ambiguity set exists (ambiguity() refuses to run after st())
    fset = None
    solved_any = False
    for si, step in enumerate(hist):
        act, args, expect = step['act'], step['args'], step['expect']
        phase[0] = '%s@%d' % (act, si)
        raised = None
        try:
            if act == 'ambiguity':
                fset = m.ambiguity()
                fset.probset(m.p == 1.0 / NS)      # fixed probabilities: every scenario's value is pinned by the objective
                for k_ in pending:
                    m.st(t[k_] >= -10)
                pending = []
            elif act == 'suppset':
                s, S = args
                its = item_constraints(rso, z, [] if S == ['noset'] else S)
                tgt = fset if s == 0 else fset[s - 1]
                tgt.suppset(its) if si % 2 else tgt.suppset(*its)
            elif act == 'minsup':
                m.minsup(E(sum(t[k] for k in sorted(t))), fset)
            elif act == 'dvar':
                k = args[0]
                t[k] = m.dvar()
                if fset is not None:
                    m.st(t[k] >= -10)
                else:
                    pending.append(k)
            elif act == 'adapt':
                k = args[0]
                for s in range(NS):
                    t[k].adapt(s)
            elif act == 'ownset':
                own[args[0]] = args[1]
            elif act == 'st':
                k = args[0]
                c_ = (t[k] >= A[k] @ z)
                if k in own:
                    # the constraint carries its own support (raw support constraints, as a list / a tuple)
                    its = item_constraints(rso, z, [] if own[k] == ['noset'] else own[k])
                    c_ = c_.forall(list(its) if si % 2 else tuple(its))
                m.st(c_)
            elif act == 'do_math':
                f1 = m.do_math()
                if formula_sig(m.do_math()) != formula_sig(f1):
                    finding('C19', 'C19:dro:repeated-do_math-differs', 'two formulations without change differ')
            elif act == 'solve':
                m.solve(eco_solver, display=False)
            else:
                raise ValueError(act)
        except Exception as e:
            import traceback
            tb = traceback.extract_tb(e.__traceback__)
            if not any('/rsome/' in fr.filename for fr in tb):
                raise
            raised = '%s: %s' % (type(e).__name__, e)
        late = any(h['act'] in ('dvar', 'adapt') for h in hist[:si]) and any(h['act'] in ('solve', 'do_math') and h['expect'] == 'ok' for h in hist[:si])
        latetag = _late_tag(hist, si)
        if expect == 'err' and raised is None:
            if act == 'ambiguity':
                finding('C17', 'C17:dro:ambiguity-after-constraints-accepted', 'ambiguity() after st() did not raise')
            else:
                finding('C17', 'C17:dro:unformulable-model-compiled:%s' % act, '%s succeeded without objective / with a scenario lacking a support' % act)
        if expect == 'ok' and raised is not None:
            finding('C09', 'C09:dro:unexpected-exception:%s:%s%s' % (act, raised.split(':')[0], latetag), 'step %d %s raised %s' % (si, act, raised))
            break
        if act == 'solve' and raised is None and expect == 'ok':
            ok = m.solution is not None and not (isinstance(m.solution.objval, float) and math.isnan(m.solution.objval))
            if not ok:
                finding('C09', 'C09:dro:solve-failed' + latetag, 'step %d: no solution for a model every part of which solves alone' % si)
                break
            solved_any = True
            total = 0.0
            for k in sorted(t):
                d = args[k - 1]
                if not d['sets']:
                    continue
                per_s = [solo_value(k, [] if s_ == ['noset'] else s_) for s_ in d['sets']]
                try:
                    val = t[k].get()
                except Exception as e:
                    finding('C09', 'C09:dro:result-query-raised:%s%s' % (type(e).__name__, latetag), 'constraint %d: t.get() raised %r after a successful solve' % (k, e), step=si)
                    continue
                if d['evw']:
                    want = per_s
                    got = [float(np.array(v).reshape(-1)[0]) for v in (val if isinstance(val, pd.Series) else [val] * NS)]
                    if not isinstance(val, pd.Series):
                        finding('C12', 'C12:dro:eventwise-result-not-series' + latetag, 'event-wise decision returned a plain value')
                else:
                    want = [max(per_s)]
                    got = [float(np.array(val.iloc[0] if isinstance(val, pd.Series) else val).reshape(-1)[0])]
                for w_, g_ in zip(want, got):
                    items = sum(([i for i in s_] for s_ in d['sets']), [])
                    tol = (5e-4 if ('ex' in items or 'p3' in items) else TOL) * (1 + abs(w_))
                    if abs(g_ - w_) > 10 * tol:
                        kind = 'too-small' if g_ < w_ else 'too-large'
                        finding('C09', 'C09:dro:constraint-value-differs-from-declared-supports:%s%s' % (kind, latetag),
                                'constraint %d: %.6g in the history-built model, %.6g for the declared supports %s' % (k, g_, w_, d['sets']), step=si)
                        break
                    elif abs(g_ - w_) > tol:
                        notes.append('inconclusive')
    return dict(findings=findings, notes=notes, hsig=';'.join('%s:%s' % (h['act'], h['args'] if h['act'] not in ('solve', 'do_math') else '') for h in hist),
                solved=solved_any)


def _late_tag(hist, si):
    """Names the history class: a declaration changed after a formulation was attempted (rule_var() runs and
    caches before anything can fail), or a decision variable was declared after a constraint object existed."""
    tags = []
    first_form = next((i for i, h in enumerate(hist[:si]) if h['act'] in ('solve', 'do_math')), None)
    if first_form is not None:
        later = {h['act'] for h in hist[first_form + 1:si]}
        tags += ['after-formulation+' + a for a in ('dvar', 'adapt', 'suppset') if a in later]
    first_con = next((i for i, h in enumerate(hist[:si]) if h['act'] in ('st', 'ambiguity') and h['expect'] == 'ok'), None)
    if first_con is not None and any(h['act'] == 'dvar' for h in hist[first_con + 1:si]):
        tags.append('dvar-after-constraint')
    return (':' + ','.join(tags)) if tags else ''


def replay(job):
    phase = ['start']
    return _replay(job, phase)
