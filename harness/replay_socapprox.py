"""Conformance harness for SocApprox.tla (C18: soc_solve / GCProg.to_socp).

Three kinds of job (all run in pmap workers, rsome imported from VERIF_REPO):

  'abstract'  spec -> code.  The abstract program P and degree L of one exported TLC behaviour are
              handed to the real GCProg.to_socp; the returned program must be the program TLC
              computed (exact comparison: integers and rationals), and P must be what it was.
  'model'     code -> spec.  A real model with 1-3 exponential-cone constraints among linear and
              SOC constraints is built through a front end (ro / dro / gcp); P = m.do_math(),
              Q = P.to_socp(L) and P after the call are recorded in the spec's encoding for
              validation by TLC (suite_socapprox).  On a second, fresh model the observable form of
              "input untouched" is checked: do_math() before and after soc_solve() must be equal,
              and soc_solve() again / solve() must still work and give the right optimum.
  'accuracy'  a pinned-exponent program per (front end, atom, exponent, scale, position); for each
              degree and SOC interface a FRESH model is solved by soc_solve and compared with the
              closed-form optimum (cross-checked once with the exact exponential-cone solve).

Verdicts are observable-first: a finding is raised only against the IDEAL (same prefix, input
untouched, optimum within 1e-3); a difference to the transcription that keeps the ideal is drift.
"""
import math
import traceback
from fractions import Fraction

import numpy as np

FIELDS = ['ncols', 'nrows', 'lin', 'const', 'sense', 'vtype', 'ub', 'lb', 'obj', 'qmat', 'xmat']
TOL_SOC = 1e-5          # README rule 3
TOL_EXP = 5e-4          # exponential cone by ECOS
REL_BOUND = 1e-3        # the property's bound for |x/z| <= 4
MONO_SLACK = 1e-6       # solver slack for "no larger at higher degrees" when both solvers agree
C18_PHASES = ('to_socp', 'soc_solve', 'do_math-after')
# Feasibility tolerance of the SOC interfaces (ECOS feastol, Gurobi FeasibilityTol / BarQCPConvTol).
# The block ends in a chain of L squarings v_{k+1} * alpha >= v_k^2: a perturbation of relative size
# eps at the head of the chain arrives multiplied by 2^L at t, so the solver's own tolerance on the
# optimum of a degree-L program is 2^L * eps (measured: Gurobi 1.3e-4 at L = 7, ECOS 1e-8..1e-6).
FEAS = {'eco': 1e-8, 'grb': 1e-6}
# A result whose solver status says "reduced accuracy" (ECOS exit flag 10, accepted by
# eco_solver.py:117) is judged only when a second solver confirms it.  Set True to treat it as a
# full verdict (see the report of C18: ECOS, degree 8).
REDUCED_STATUS_IS_VERDICT = False


def soc_tol(sname, degree):
    return max(TOL_SOC, (2 ** degree) * FEAS.get(sname, 1e-6))


# ------------------------------------------------------------------------------------------------
# encoding of programs (shared with SocApprox.tla: numbers are <<num, den>>)

def _rat(v):
    v = float(v)
    if v == math.inf:
        return (1, 0)
    if v == -math.inf:
        return (-1, 0)
    if v != v:
        return None
    fr = Fraction(v).limit_denominator(1 << 20)
    if abs(fr.numerator) < 2 ** 30 and (float(fr) == v or abs(float(fr) - v) <= 1e-13 * abs(v)):
        return (fr.numerator, fr.denominator)
    return None


class Encoder:
    """Floats -> <<num, den>>; floats that are no small rational are rank encoded as <<rank, -1>>
    (equality and order are kept, which is all the 'same prefix' clauses need)."""

    def __init__(self, arrays):
        opaque = set()
        for a in arrays:
            for v in np.asarray(a, dtype=float).ravel():
                if _rat(v) is None:
                    opaque.add('nan' if v != v else float(v))
        nums = sorted(x for x in opaque if x != 'nan')
        self.rank = {v: i + 1 for i, v in enumerate(nums)}
        if 'nan' in opaque:
            self.rank['nan'] = 0
        self.opaque = len(self.rank)

    def num(self, v):
        r = _rat(v)
        if r is not None:
            return [r[0], r[1]]
        v = float(v)
        return [self.rank['nan' if v != v else v], -1]


def _canon(linear):
    import scipy.sparse as sp
    a = sp.csr_matrix(linear, copy=True)
    a.sum_duplicates()
    a.eliminate_zeros()
    return a.tocoo()


def capture(prog):
    """Deep copy of the public attributes of a GCProg/SOCProg (taken at this moment)."""
    coo = _canon(prog.linear)
    return dict(shape=(int(prog.linear.shape[0]), int(prog.linear.shape[1])),
                row=np.array(coo.row), col=np.array(coo.col), data=np.array(coo.data, dtype=float),
                const=np.array(prog.const, dtype=float), sense=np.array(prog.sense, dtype=float),
                vtype=[str(v) for v in prog.vtype],
                ub=np.array(prog.ub, dtype=float), lb=np.array(prog.lb, dtype=float),
                obj=np.array(prog.obj, dtype=float),
                qmat=[[int(i) for i in q] for q in prog.qmat],
                xmat=[[int(i) for i in e] for e in getattr(prog, 'xmat', [])])


def float_arrays(cap):
    return [cap['data'], cap['const'], cap['ub'], cap['lb'], cap['obj']]


def encode(cap, enc):
    """A captured program in the spec's encoding."""
    lin = sorted([int(r), int(c), enc.num(v)] for r, c, v in zip(cap['row'], cap['col'], cap['data']))
    return dict(ncols=cap['shape'][1], nrows=cap['shape'][0], lin=lin,
                const=[enc.num(v) for v in cap['const']],
                sense=[int(v) if float(v) == int(v) else -1 for v in cap['sense']],
                vtype=list(cap['vtype']),
                ub=[enc.num(v) for v in cap['ub']], lb=[enc.num(v) for v in cap['lb']],
                obj=[enc.num(v) for v in cap['obj']],
                qmat=[list(q) for q in cap['qmat']], xmat=[list(e) for e in cap['xmat']])


def encode_all(*caps):
    enc = Encoder([a for c in caps for a in float_arrays(c)])
    return [encode(c, enc) for c in caps], enc


def norm_rec(p):
    """A program record exported by TLC (sets arrive as unordered lists)."""
    q = dict(p)
    q['lin'] = sorted([int(e[0]), int(e[1]), [int(e[2][0]), int(e[2][1])]] for e in p['lin'])
    for f in ('const', 'ub', 'lb', 'obj'):
        q[f] = [[int(v[0]), int(v[1])] for v in p[f]]
    q['qmat'] = [list(map(int, c)) for c in p['qmat']]
    q['xmat'] = [list(map(int, c)) for c in p['xmat']]
    q['sense'] = list(map(int, p['sense']))
    q['vtype'] = list(p['vtype'])
    return q


def diff_fields(a, b):
    return [f for f in FIELDS if a[f] != b[f]]


def _val(v):
    n, d = v
    if d == 0:
        return math.inf if n > 0 else -math.inf
    return n / d


def prog_from_rec(p):
    """The real GCProg for an abstract program of the spec."""
    import scipy.sparse as sp
    from rsome.gcp import GCProg
    rows = [e[0] for e in p['lin']]
    cols = [e[1] for e in p['lin']]
    data = [_val(e[2]) for e in p['lin']]
    linear = sp.csr_matrix((data, (rows, cols)), shape=(p['nrows'], p['ncols']))
    return GCProg(linear, np.array([_val(v) for v in p['const']], dtype=float),
                  np.array(p['sense'], dtype=float), np.array(p['vtype']),
                  np.array([_val(v) for v in p['ub']], dtype=float),
                  np.array([_val(v) for v in p['lb']], dtype=float),
                  [list(q) for q in p['qmat']], [list(e) for e in p['xmat']], [],
                  np.array([_val(v) for v in p['obj']], dtype=float))


def mutation_finding(before, after, where, extra):
    """IDEAL: the program handed to to_socp is unchanged.  Signature names what was changed."""
    d = diff_fields(before, after)
    if not d:
        return None
    if d == ['qmat'] and after['qmat'][:len(before['qmat'])] == before['qmat']:
        tag = 'qmat-extended-in-place'
    else:
        tag = '+'.join(d)
    det = dict(sig='C18:input-mutated:' + tag, prop='C18', where=where,
               what='the formula returned by do_math() / handed to to_socp() is changed by the call',
               changed=d, cones_before=len(before['qmat']), cones_after=len(after['qmat']),
               ncols=before['ncols'])
    det.update(extra)
    return det


# ------------------------------------------------------------------------------------------------
# 'abstract': spec -> code

def _replay_abstract(job, phase):
    rec = job['rec']
    L = rec['L']
    P, Qx, Ax = norm_rec(rec['P']), norm_rec(rec['Q']), norm_rec(rec['Pafter'])
    findings, drift = [], []
    phase[0] = 'build'
    prog = prog_from_rec(P)
    c_before = capture(prog)
    (before,), _ = encode_all(c_before)
    if before != P:
        raise RuntimeError('harness: GCProg built from the spec record does not read back: %s' % diff_fields(before, P))
    phase[0] = 'to_socp'
    out = prog.to_socp(L)
    (after, got), enc = encode_all(capture(prog), capture(out))
    d = diff_fields(got, Qx)
    record = None
    if d or enc.opaque:
        record = dict(P=P, L=L, Q=got, Pafter=after)      # TLC decides ideal vs drift
    f = mutation_finding(P, after, 'GCProg.to_socp on the abstract program of the spec',
                         dict(layout=rec['layout'], degree=L, predicted_by_tlc=not rec['idealOK']['input']))
    if f:
        findings.append(f)
    if after != Ax:
        drift.append(dict(kind='input-after-call', want_changed=diff_fields(P, Ax), got_changed=diff_fields(P, after)))
    aliased = getattr(out, 'qmat', None) is getattr(prog, 'qmat', 0)
    return dict(kind='abstract', findings=findings, drift=drift, match=not d, diff=d, record=record,
                key=('A', tuple(rec['layout']), L), mutated=bool(f), aliased=aliased,
                nexp=len(P['xmat']), nsoc=len(P['qmat']))


# ------------------------------------------------------------------------------------------------
# real models

def _new_model(fe):
    if fe == 'ro':
        from rsome import ro
        return ro.Model()
    if fe == 'dro':
        from rsome import dro
        return dro.Model(1)
    if fe == 'gcp':
        from rsome import gcp
        return gcp.Model()
    raise ValueError(fe)


def _solver(name):
    import rsome
    if name == 'eco':
        from rsome import eco_solver
        return eco_solver
    if name == 'grb':
        from rsome import grb_solver
        return grb_solver
    raise ValueError(name)


def _params(sname):
    """A wrong block can make the SOC program non-convex for Gurobi (spatial branching without end):
    bound every Gurobi call; a time-out surfaces as 'no solution'."""
    return {'TimeLimit': 30} if sname == 'grb' else {}


def _licence_limited(e):
    """Gurobi's size-limited licence refusing a model is an environment limit, not a verdict."""
    return type(e).__name__ == 'GurobiError' and 'size-limited' in str(e)


def _full_status(name, status):
    if REDUCED_STATUS_IS_VERDICT:
        return True
    if name == 'eco':
        return status == 'Optimal solution found'
    if name == 'grb':
        return status == 2
    return False


XPIN = (1.0, -0.5, 2.0)
EXP_ATOMS = ('exp', 'pexp', 'expcone', 'log', 'plog', 'entropy', 'softplus', 'kldiv')


ZPIN = 2.0


def _exp_item(m, rso, x, zs, tj, atom, i):
    """One exponential-cone constraint 'atom(...) <= t_j' with pinned x (and scale zs = ZPIN);
    returns the optimal t_j."""
    xi = XPIN[i]
    if atom == 'exp':
        m.st(rso.exp(x[i]) <= tj)
        return math.exp(xi)
    if atom == 'pexp':
        m.st(rso.pexp(x[i], zs) <= tj)
        return ZPIN * math.exp(xi / ZPIN)
    if atom == 'expcone':
        m.st(rso.expcone(tj, x[i], zs))
        return ZPIN * math.exp(xi / ZPIN)
    if atom == 'log':
        m.st(rso.log(tj) >= x[i])
        return math.exp(xi)
    if atom == 'plog':
        m.st(rso.plog(tj, zs) >= x[i])
        return ZPIN * math.exp(xi / ZPIN)
    if atom == 'entropy':               # -sum p log p >= -t  on p = (x0, x2) = (1, 2)
        m.st(rso.entropy(x[[0, 2]]) >= -tj)
        return sum(v * math.log(v) for v in (XPIN[0], XPIN[2]))
    if atom == 'softplus':
        m.st(rso.softplus(x[i]) <= tj)
        return math.log1p(math.exp(xi))
    if atom == 'kldiv':
        q = np.array([0.5, 0.5])
        m.st(rso.kldiv(x[[0, 2]], q, tj))
        return sum(v * math.log(v / 0.5) for v in (XPIN[0], XPIN[2]))
    raise ValueError(atom)


def build_struct_model(desc):
    """Model for one layout: min sum t + sum s (+ sum b) with x pinned; returns (model, exact)."""
    import rsome as rso
    m = _new_model(desc['fe'])
    items = desc['items']
    nexp = sum(1 for it in items if it['kind'] == 'exp')
    nsoc = sum(1 for it in items if it['kind'] == 'soc')
    x = m.dvar(3)
    t = m.dvar(nexp)
    s = m.dvar(max(nsoc, 1))
    zs = m.dvar()
    b = m.dvar(2, 'I') if desc.get('ints') else None
    obj = t.sum() + s.sum()
    if b is not None:
        obj = obj + b.sum()
    m.min(obj)
    exact = 0.0
    for i in range(3):
        m.st(x[i] == XPIN[i])
    m.st(zs == ZPIN)
    if nsoc == 0:
        m.st(s >= 0.25)
        exact += 0.25
    if b is not None:
        m.st(b >= 0.5)
        m.st(b <= 3)
        exact += 2.0
    je = js = 0
    for pos, it in enumerate(items):
        if it['kind'] == 'lin':
            m.st(x[0] + x[1] + x[2] <= 10 + pos)
        elif it['kind'] == 'soc':
            if it.get('dim', 3) == 3:
                m.st(rso.norm(x) <= s[js])
                exact += math.sqrt(sum(v * v for v in XPIN))
            else:
                m.st(rso.norm(x[:2]) <= s[js])
                exact += math.sqrt(XPIN[0] ** 2 + XPIN[1] ** 2)
            js += 1
        else:
            exact += _exp_item(m, rso, x, zs, t[je], it['atom'], it['i'])
            je += 1
    return m, exact


def _get(m):
    v = m.get()
    return float(v)


def _replay_model(job, phase):
    desc = job['desc']
    L = desc['L']
    findings, notes = [], []
    tag = '%s:%s' % (desc['fe'], '.'.join(it['kind'] if it['kind'] != 'exp' else it['atom'] for it in desc['items']))
    base = dict(model=tag, degree=L, front_end=desc['fe'], solver=desc['solver'])

    # ---- recording P, to_socp(P), P afterwards (code -> spec)
    phase[0] = 'build'
    m, exact = build_struct_model(desc)
    phase[0] = 'do_math'
    prog = m.do_math()
    c_before = capture(prog)
    phase[0] = 'to_socp'
    out = prog.to_socp(L)
    (before, after, got), enc = encode_all(c_before, capture(prog), capture(out))
    record = dict(P=before, L=L, Q=got, Pafter=after)
    f_direct = mutation_finding(before, after, 'GCProg.to_socp(m.do_math())', dict(base))
    f_obs = None
    conseq = {}

    # ---- the observable form on a fresh model
    res = dict(v_soc=None, v_again=None, v_exact=None, acc=None)
    if desc.get('solve', True):
        phase[0] = 'build2'
        m2, exact = build_struct_model(desc)
        p0 = m2.do_math()
        c0 = capture(p0)
        sname = desc['solver']
        sv = _solver(sname)
        phase[0] = 'soc_solve'
        try:
            m2.soc_solve(sv, degree=L, display=False, params=_params(sname))
        except Exception as e:                                    # noqa
            if not _licence_limited(e):
                raise
            notes.append('licence-limited')
            sname = 'eco'
            sv = _solver(sname)
            m2, exact = build_struct_model(desc)
            p0 = m2.do_math()
            c0 = capture(p0)
            m2.soc_solve(sv, degree=L, display=False, params=_params(sname))
        res['v_soc'] = _get(m2)
        full = _full_status(sname, m2.solution.status)
        phase[0] = 'do_math-after'
        p1 = m2.do_math()
        (s0, s1), _ = encode_all(c0, capture(p1))
        f_obs = mutation_finding(s0, s1, 'm.do_math() before / after m.soc_solve()', dict(base))
        phase[0] = 'soc_solve-again'
        try:
            m2.soc_solve(sv, degree=L, display=False, params=_params(sname))
            res['v_again'] = _get(m2)
            if not _close(res['v_again'], res['v_soc'], 10 * TOL_SOC):
                conseq['second_soc_solve'] = 'optimum %.9g, first call %.9g' % (res['v_again'], res['v_soc'])
        except Exception as e:                                    # noqa
            conseq['second_soc_solve'] = 'raised %s: %s' % (type(e).__name__, str(e)[:120])
        phase[0] = 'solve-after'
        try:
            from rsome import eco_solver
            m2.solve(eco_solver, display=False)
            res['v_exact'] = _get(m2)
            if not _close(res['v_exact'], exact, 10 * TOL_EXP):
                conseq['solve_after_soc_solve'] = 'optimum %.9g, exact %.9g' % (res['v_exact'], exact)
        except Exception as e:                                    # noqa
            conseq['solve_after_soc_solve'] = 'raised %s: %s' % (type(e).__name__, str(e)[:120])
        if conseq and not (f_obs or f_direct):
            for kname, what in conseq.items():
                findings.append(dict(sig='C18:model-unusable-after-soc_solve:' + kname, prop='C18',
                                     what='do_math() is unchanged but the model misbehaves after soc_solve(): ' + what, **base))
        # accuracy inside a larger program (fresh model, first soc_solve)
        res['acc'] = _judge_one(res['v_soc'], exact, exact, full, False, soc_tol(sname, L))
        if res['acc'] == 'violation':
            findings.append(dict(sig='C18:accuracy:larger-program:deg%d' % L, prop='C18',
                                 what='soc_solve optimum of a larger program deviates by more than 1e-3',
                                 got=res['v_soc'], exact=exact, **base))
    f = f_obs or f_direct
    if f:
        f['consequence'] = conseq
        f['seen_via'] = [x['where'] for x in (f_obs, f_direct) if x]
        findings.append(f)
    return dict(kind='model', findings=findings, drift=[], notes=notes, record=record,
                key=('M', tag, L, desc['solver'], bool(desc.get('ints'))), mutated=bool(f), conseq=conseq, res=res, exact=exact,
                nexp=len(before['xmat']), nsoc=len(before['qmat']), opaque=enc.opaque,
                atoms=[it['atom'] for it in desc['items'] if it['kind'] == 'exp'])


def _close(a, b, tol):
    return a is not None and b is not None and a == a and b == b and abs(a - b) <= tol * (1 + abs(b))


# ------------------------------------------------------------------------------------------------
# accuracy

ACC_ATOMS = ('exp_c', 'exp_o', 'pexp_c', 'expcone', 'log_c', 'log_o', 'plog_c', 'entropy_c', 'entropy_o',
             'softplus_c', 'kldiv_c')
PERSPECTIVE = ('pexp_c', 'expcone', 'plog_c')
MAXFORM = ('log_c', 'log_o', 'plog_c', 'entropy_c', 'entropy_o')


def atom_exact(atom, r, z):
    if atom in ('exp_c', 'exp_o'):
        return math.exp(r)
    if atom in ('pexp_c', 'expcone'):
        return z * math.exp(r)
    if atom in ('log_c', 'log_o'):
        return r
    if atom == 'plog_c':
        return z * r
    if atom in ('entropy_c', 'entropy_o'):
        return r * math.exp(-r)
    if atom == 'softplus_c':
        return math.log1p(math.exp(r))
    if atom == 'kldiv_c':
        pv = (0.5 * math.exp(-r), 0.25)
        return sum(p * math.log(p / 0.5) for p in pv)
    raise ValueError(atom)


def exponents(atom, r, z):
    """x/z of every exponential cone of the program at its optimum (must stay inside [-4, 4])."""
    if atom == 'softplus_c':
        t = math.log1p(math.exp(r))
        return [r - t, -t]
    if atom in ('entropy_c', 'entropy_o'):
        return [r, 0.0]
    if atom == 'kldiv_c':
        return [r, math.log(2.0)]
    return [r]


def build_acc_model(fe, atom, r, z, pos):
    """min/max program whose exponential cone(s) sit at the pinned exponent r (scale z)."""
    import rsome as rso
    m = _new_model(fe)
    x = m.dvar()
    t = m.dvar()
    zz = m.dvar()
    p = m.dvar(2)
    w = m.dvar(2)
    s = m.dvar()
    maxform = atom in MAXFORM
    extra = 0.0

    def soc_a():
        m.st(rso.norm(w) <= s)
        m.st(w[0] == 1)

    def soc_b():
        m.st(rso.norm(w) <= 7)

    def the_atom():
        if atom == 'exp_c':
            m.st(rso.exp(x) <= t)
            m.st(x == r)
        elif atom == 'exp_o':
            m.st(x == r)
        elif atom == 'pexp_c':
            m.st(rso.pexp(x, zz) <= t)
            m.st(x == r * z)
            m.st(zz == z)
        elif atom == 'expcone':
            m.st(rso.expcone(t, x, zz))
            m.st(x == r * z)
            m.st(zz == z)
        elif atom == 'log_c':
            m.st(rso.log(x) >= t)
            m.st(x == math.exp(r))
        elif atom == 'log_o':
            m.st(x == math.exp(r))
        elif atom == 'plog_c':
            m.st(rso.plog(x, zz) >= t)
            m.st(x == z * math.exp(r))
            m.st(zz == z)
        elif atom == 'entropy_c':
            m.st(rso.entropy(p) >= t)
            m.st(p[0] == math.exp(-r))
            m.st(p[1] == 1)
        elif atom == 'entropy_o':
            m.st(p[0] == math.exp(-r))
            m.st(p[1] == 1)
        elif atom == 'softplus_c':
            m.st(rso.softplus(x) <= t)
            m.st(x == r)
        elif atom == 'kldiv_c':
            m.st(rso.kldiv(p, np.array([0.5, 0.5]), t))
            m.st(p[0] == 0.5 * math.exp(-r))
            m.st(p[1] == 0.25)
        else:
            raise ValueError(atom)

    if atom == 'exp_o':
        core = rso.exp(x)
    elif atom == 'log_o':
        core = rso.log(x)
    elif atom == 'entropy_o':
        core = rso.entropy(p)
    else:
        core = t
    if pos == 'solo':
        (m.max if maxform else m.min)(core)
        the_atom()
    else:
        extra = -1.0 if maxform else 1.0
        (m.max if maxform else m.min)(core - s if maxform else core + s)
        order = dict(first=(the_atom, soc_a, soc_b), middle=(soc_a, the_atom, soc_b), last=(soc_a, soc_b, the_atom))[pos]
        for f in order:
            f()
    ex = atom_exact(atom, r, z)
    return m, ex + extra, ex


def _judge_one(v, total, atom_part, full, confirmed_by_other=False, tol=TOL_SOC):
    """'ok' | 'inconclusive' | 'violation' for one soc_solve optimum (README rule 3)."""
    if v is None or v != v:
        return 'nosolution'
    err = abs(v - total)
    bound = REL_BOUND * abs(atom_part)
    if err <= bound:
        return 'ok'
    if full and err > bound + 10 * tol * (1 + abs(total)):
        return 'violation'
    if full and confirmed_by_other:
        return 'violation'
    if full and err <= bound + tol * (1 + abs(total)):
        return 'ok'                      # within the solver's own tolerance of the bound
    return 'inconclusive'


def _replay_accuracy(job, phase):
    fe, atom, r, z, pos = job['fe'], job['atom'], job['r'], job['z'], job['pos']
    degrees, solvers = job['degrees'], job['solvers']
    findings, notes = [], []
    base = dict(front_end=fe, atom=atom, exponent=r, scale=z, position=pos)
    assert all(abs(e) <= 4.0 + 1e-12 for e in exponents(atom, r, z)), (atom, r, z)
    # oracle self-check: the closed form against the exact exponential-cone solve
    phase[0] = 'exact-solve'
    from rsome import eco_solver
    m, total, part = build_acc_model(fe, atom, r, z, pos)
    m.solve(eco_solver, display=False)
    v_exact = _get(m)
    oracle_ok = _close(v_exact, total, 10 * TOL_EXP)
    if not oracle_ok:
        findings.append(dict(sig='C07:atom-optimum:%s' % atom, prop='C07',
                             what='exact exponential-cone optimum differs from the closed form', got=v_exact, want=total, **base))
    vals = {}
    for sname in solvers:
        sv = _solver(sname)
        for d in degrees:
            phase[0] = 'soc_solve:%s:deg%d' % (sname, d)
            m, total, part = build_acc_model(fe, atom, r, z, pos)       # FRESH model for every call
            # configurations: on every other case the judged call is not the model's first soc_solve - the user first tried
            # a cut-off range that excludes the exponents (or another degree) and then calls again with the setting under test
            pre = (len(atom) + int(round(abs(r) * 8)) + int(round(abs(z) * 4)) + d + len(fe)) % 4
            try:
                if pre == 1:
                    m.soc_solve(sv, degree=d, cuts=(-0.5, 0.5), display=False, params=_params(sname))
                elif pre == 3:
                    m.soc_solve(sv, degree=d + 2, cuts=(-30, 0.25), display=False, params=_params(sname))
            except Exception as e:                                # noqa
                if not _licence_limited(e):
                    raise
            try:
                m.soc_solve(sv, degree=d, display=False, params=_params(sname))
            except Exception as e:                                # noqa
                if not _licence_limited(e):
                    raise
                notes.append('licence-limited')
                continue
            sol = m.solution
            if sol is None or sol.x is None:
                vals[(sname, d)] = (None, False, getattr(sol, 'status', None))
            else:
                vals[(sname, d)] = (_get(m), _full_status(sname, sol.status), sol.status)
    verdicts = {}
    inconclusive = 0
    reduced = []
    for d in degrees:
        over = {}
        for sname in solvers:
            if (sname, d) not in vals:
                continue
            v, full, status = vals[(sname, d)]
            if v is None or v != v:
                findings.append(dict(sig='C18:no-solution:%s:%s' % (atom, sname), prop='C18',
                                     what='soc_solve returned no solution for a feasible bounded program', degree=d, status=str(status), **base))
                continue
            if not full:
                reduced.append((sname, d, str(status), abs(v - total) / abs(part)))
            over[sname] = abs(v - total) > REL_BOUND * abs(part)
        fullover = [s for s in over if over[s] and vals[(s, d)][1]]
        confirmed = len(fullover) >= 2
        for sname in over:
            v, full, status = vals[(sname, d)]
            j = _judge_one(v, total, part, full, confirmed, soc_tol(sname, d))
            verdicts[(sname, d)] = j
            if j == 'violation' and oracle_ok:
                findings.append(dict(sig='C18:accuracy:%s:deg%d' % (atom, d), prop='C18',
                                     what='soc_solve optimum deviates from the exact optimum by more than 1e-3 (relative)',
                                     solver=sname, got=v, exact=total, relerr=abs(v - total) / abs(part),
                                     confirmed_by_second_solver=confirmed, **base))
            elif j == 'inconclusive':
                inconclusive += 1
    # no larger at higher degrees
    for d0, d1 in zip(degrees, degrees[1:]):
        inc = {}
        for sname in solvers:
            a, b = vals.get((sname, d0)), vals.get((sname, d1))
            if a and b and a[0] is not None and b[0] is not None and a[1] and b[1]:
                inc[sname] = abs(b[0] - total) - abs(a[0] - total)
        hard = [s for s, x in inc.items() if x > 10 * soc_tol(s, d1) * (1 + abs(total))]
        both = [s for s, x in inc.items() if x > MONO_SLACK * (1 + abs(total))]
        soft = [s for s, x in inc.items() if x > soc_tol(s, d1) * (1 + abs(total))]
        if oracle_ok and (hard or (len(both) >= 2 and len(both) == len(inc))):
            findings.append(dict(sig='C18:accuracy-not-monotone:%s' % atom, prop='C18',
                                 what='the error at degree %d is larger than at degree %d' % (d1, d0),
                                 increase={s: inc[s] for s in inc}, exact=total, **base))
        elif soft:
            inconclusive += 1
    out_vals = {'%s:%d' % k: (v[0], v[1]) for k, v in vals.items()}
    relerr = {'%s:%d' % k: (abs(v[0] - total) / abs(part) if v[0] is not None and v[0] == v[0] else None) for k, v in vals.items()}
    return dict(kind='accuracy', findings=findings, drift=[], notes=notes, vals=out_vals, relerr=relerr,
                exact=total, part=part, v_exact=v_exact, inconclusive=inconclusive, reduced=reduced,
                keys=[('X', fe, atom, r, z, pos, d, s) for s in solvers for d in degrees if (s, d) in vals], base=base)


def predicted_relerr(coef24, scale, r):
    """|A(r) - exp(r)| / exp(r) for the approximant the spec derived from the transcription:
    A(r) = (sum_k coef24[k]/24 * (r/scale)^k) ^ scale."""
    y = r / scale
    tpoly = sum((c[0] / c[1]) / 24.0 * y ** k for k, c in enumerate(coef24))
    return abs(tpoly ** scale - math.exp(r)) / math.exp(r)


# ------------------------------------------------------------------------------------------------

def replay(job):
    """Library exceptions where the property promises success are findings, harness exceptions are
    machinery errors (propagate)."""
    phase = ['start']
    kind = job['kind']
    try:
        if kind == 'abstract':
            out = _replay_abstract(job, phase)
        elif kind == 'model':
            out = _replay_model(job, phase)
        elif kind == 'accuracy':
            out = _replay_accuracy(job, phase)
        else:
            raise ValueError(kind)
        for f in out['findings']:
            f.setdefault('job', job)
        return out
    except Exception as e:                                            # noqa
        tb = traceback.extract_tb(e.__traceback__)
        in_lib = any('/rsome/' in fr.filename for fr in tb)
        if not in_lib:
            raise
        ph = phase[0].split(':')[0]
        what = {k: job[k] for k in job if k not in ('rec',)}
        if kind == 'abstract':
            what = dict(kind='abstract', layout=job['rec']['layout'], degree=job['rec']['L'])
        key = ('E', kind, repr(sorted(what.items(), key=repr)))
        # C18 promises success of the transformation and of the approximate solve; building the
        # model, compiling it and the exact solve belong to other properties (C06/C07)
        prop = 'C18' if ph in C18_PHASES else 'C07'
        return dict(kind=kind, findings=[dict(sig='%s:unexpected-exception:%s:%s' % (prop, ph, type(e).__name__), prop=prop,
                                               what='rsome raised %r in phase %s' % (e, phase[0]),
                                               where='%s:%d' % (tb[-1].filename, tb[-1].lineno), job=what)],
                    drift=[], notes=[], record=None, key=key, keys=[key], failed=True)
