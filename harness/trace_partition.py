"""Code -> spec for Partition.tla: record traces of random API programs (beyond the constants TLC enumerates)
from the real library under harness/tracer.py."""
import random


def record(job):
    """One random program on a fresh dro model; returns the list of traces (one per model)."""
    from harness import tracer
    tracer.install()
    tracer.reset()
    from rsome import dro
    rng = random.Random(job['seed'])
    ns, sizes, vtypes, nr = job['ns'], job['sizes'], job['vtypes'], job['nr']
    labels = None if job['seed'] % 3 == 0 else (['s%d' % k for k in range(ns)] if job['seed'] % 3 == 1 else [7 * (ns - k) for k in range(ns)])
    m = dro.Model(ns) if labels is None else dro.Model(labels)
    lab = (lambda p: p) if labels is None else (lambda p: labels[p])
    z = m.rvar(nr)
    xs = [m.dvar(sz, vt) for sz, vt in zip(sizes, vtypes)]
    held = []
    for _ in range(job['steps']):
        x = rng.choice(xs)
        r = rng.random()
        try:
            if r < 0.45:
                k = rng.randint(1, max(1, ns - 1))
                E = rng.sample(range(ns), k)
                if rng.random() < 0.08:
                    E = E + [E[0]]                       # duplicate
                arg = [lab(p) for p in E]
                if rng.random() < 0.06:
                    arg = arg + ['no-such-scenario']     # unknown label
                x.adapt(arg[0] if len(arg) == 1 and rng.random() < 0.5 else arg)
            elif r < 0.6 and x.size > 0:
                lo = rng.randrange(x.size)
                hi = rng.randint(lo + 1, x.size)
                held.append(x[lo:hi])
            elif r < 0.8:
                comps = sorted(rng.sample(range(nr), rng.randint(1, nr)))
                x.adapt(z[comps] if len(comps) > 1 or rng.random() < 0.5 else z[comps[0]])
            elif r < 0.9 and held:
                comps = sorted(rng.sample(range(nr), rng.randint(1, nr)))
                rng.choice(held).adapt(z[comps])
            else:
                lo = rng.randrange(x.size)
                comps = sorted(rng.sample(range(nr), rng.randint(1, nr)))
                x[lo:lo + 1].adapt(z[comps])
        except Exception as e:
            import traceback
            tb = traceback.extract_tb(e.__traceback__)
            if not any('/rsome/' in fr.filename for fr in tb):
                raise
    # an unrelated decision declared last (not traced), sometimes on its own partition, then the formulation's
    # column map (rule_var): logged by the tracer as one more event
    from rsome import lp
    extra = m.dvar()
    try:
        if rng.random() < 0.6:
            lp.DecVar.evtadapt.__wrapped__(extra, lab(rng.randrange(ns)))
        m.rule_var()
    except Exception as e:
        import traceback
        if not any('/rsome/' in fr.filename for fr in traceback.extract_tb(e.__traceback__)):
            raise
    return tracer.traces()
