"""Shared plumbing for the per-property checks: report object, evidence, known findings,
replay worker pool."""
import fnmatch
import hashlib
import json
import os
import sys
import time
import traceback

HERE = os.path.dirname(os.path.abspath(__file__))
ROOT = os.path.dirname(HERE)
EVIDENCE_DIR = os.environ.get('VERIF_EVIDENCE_DIR') or os.path.join(ROOT, 'evidence')   # bin/seedcheck redirects it: committed evidence is from /repo only
REPLAY_DIR = os.path.join(ROOT, 'replays')
KNOWN_PATH = os.path.join(ROOT, 'KNOWN_FINDINGS.json')


def repo_path():
    return os.environ.get('VERIF_REPO', '/repo')


def seed_value():
    try:
        return int(os.environ.get('VERIF_SEED', '0'))
    except ValueError:
        return 0


def load_known():
    try:
        with open(KNOWN_PATH) as f:
            k = json.load(f)
    except FileNotFoundError:
        return []
    return k.get('findings', [])


CURRENT = [None]     # the report of the running check (bin/check finishes it when a suite ends early)


class Report:
    """Accumulates what a check did; prints VIOLATION / KNOWN-FINDING lines; writes evidence."""

    def __init__(self, prop, tier, level='model_checking'):
        CURRENT[0] = self
        self.prop = prop
        self.tier = tier
        self.level = level
        self.seed = seed_value()
        self.t0 = time.time()
        self.states = 0
        self.transitions = 0
        self.traces_validated = 0
        self.evaluations = 0
        self.distinct = set()
        self.samples = []
        self.violations = []      # dicts(sig, detail)
        self.known_hits = {}      # sig -> count
        self.tlc_runs = []
        self.notes = []
        self.assumptions = []
        self.extra = {}
        self.inconclusive = 0
        self.known = [k for k in load_known() if k.get('property') == prop]
        self.rule = ''
        self.exhaustive = None

    # ---- bookkeeping
    def add_tlc(self, name, res, note=None):
        self.states += res['distinct']
        self.transitions += res['states']
        cov = {k: v[0] for k, v in res.get('coverage', {}).items()}
        self.tlc_runs.append(dict(spec=name, distinct_states=res['distinct'], states_generated=res['states'],
                                  depth=res.get('depth', 0), wall_s=round(res['wall_s'], 2),
                                  violated=res.get('violated'), action_counts=cov, note=note))

    def count(self, key=None, n=1):
        self.evaluations += n
        if key is not None:
            self.distinct.add(key)

    def sample(self, obj, cap=6):
        if len(self.samples) < cap:
            self.samples.append(obj)

    def note(self, s):
        self.notes.append(s)

    def match_known(self, sig):
        for k in self.known:
            pat = k.get('signature', '')
            if sig == pat or fnmatch.fnmatchcase(sig, pat):
                return k
        return None

    def violation(self, sig, detail):
        """Record a violation with a stable signature naming the specific trigger."""
        k = self.match_known(sig)
        if k is not None:
            self.known_hits.setdefault(k['signature'], [0, k])[0] += 1
            return False
        self.violations.append(dict(sig=sig, detail=detail))
        return True

    # ---- finish
    def finish(self):
        os.makedirs(EVIDENCE_DIR, exist_ok=True)
        os.makedirs(REPLAY_DIR, exist_ok=True)
        wall = time.time() - self.t0
        for sig, (n, k) in sorted(self.known_hits.items()):
            print('KNOWN-FINDING: property=%s %s [%d occurrence(s) this run; signature %s]'
                  % (self.prop, k.get('what', ''), n, sig))
        seen = {}
        for v in self.violations:
            seen.setdefault(v['sig'], []).append(v)
        replay_paths = []
        for sig, vs in seen.items():
            h = hashlib.sha1(sig.encode()).hexdigest()[:10]
            path = os.path.join(REPLAY_DIR, '%s-%s.json' % (self.prop, h))
            with open(path, 'w') as f:
                json.dump(dict(property=self.prop, signature=sig, count=len(vs), tier=self.tier,
                               seed=self.seed, repo=repo_path(), first=vs[0]['detail'],
                               more=[x['detail'] for x in vs[1:4]]), f, indent=1, default=str)
            replay_paths.append(path)
            print('VIOLATION property=%s replay=%s' % (self.prop, path))
            print('  signature: %s (%d case(s))' % (sig, len(vs)))
        cov = dict(states=self.states, transitions=self.transitions,
                   # TLC-generated behaviours executed on the implementation and/or implementation results validated by TLC
                   traces_validated_against_impl=self.traces_validated or self.evaluations,
                   evaluations=max(self.evaluations, 0), distinct_nontrivial=len(self.distinct),
                   rule=self.rule, samples=self.samples[:8] or [{'note': 'no sample recorded'}],
                   tlc_runs=self.tlc_runs, inconclusive=self.inconclusive,
                   known_findings_hit={s: n for s, (n, _) in self.known_hits.items()},
                   notes=self.notes)
        if self.exhaustive is not None:
            cov['exhaustive'] = bool(self.exhaustive)
        cov.update(self.extra)
        ev = dict(property_id=self.prop, tier=self.tier, seed=self.seed, level=self.level, coverage=cov,
                  assumptions=self.assumptions, wall_s=round(wall, 2), violations=len(seen))
        with open(os.path.join(EVIDENCE_DIR, self.prop + '.json'), 'w') as f:
            json.dump(ev, f, indent=1, default=str)
        print('%s %s: states=%d transitions=%d impl_cases=%d traces_validated=%d violations=%d known=%d wall=%.1fs'
              % (self.prop, self.tier, self.states, self.transitions, self.evaluations,
                 self.traces_validated, len(seen), len(self.known_hits), wall))
        return 1 if seen else 0


# --------------------------------------------------------------------------------------------
# replay worker pool

def _worker_init(repo, quiet):
    os.environ.setdefault('OMP_NUM_THREADS', '1')
    os.environ.setdefault('OPENBLAS_NUM_THREADS', '1')
    os.environ.setdefault('MKL_NUM_THREADS', '1')
    if repo not in sys.path[:1]:
        sys.path.insert(0, repo)
    if HERE not in sys.path:
        sys.path.insert(1, HERE)
    if ROOT not in sys.path:
        sys.path.insert(1, ROOT)
    if quiet:
        # solver interfaces print banners straight to fd 1/2
        devnull = os.open(os.devnull, os.O_WRONLY)
        os.dup2(devnull, 1)
    import warnings
    warnings.filterwarnings('ignore')
    # diagnostic only (bin/anchorcov): statement coverage of rsome under the replay families
    cdir = os.environ.get('VERIF_COVERAGE_DIR')
    if cdir and _COV[0] is None:
        import coverage
        os.makedirs(cdir, exist_ok=True)
        _COV[0] = coverage.Coverage(data_file=os.path.join(cdir, 'cov.%d' % os.getpid()), include=[os.path.join(repo, 'rsome', '*')], branch=False)
        _COV[0].start()


_COV = [None, 0]


def _cov_tick(force=False):
    if _COV[0] is not None:
        _COV[1] += 1
        if force or _COV[1] % 200 == 0:
            _COV[0].save()


def _call(args):
    modname, fname, job = args
    try:
        import importlib
        mod = importlib.import_module(modname)
        try:
            return getattr(mod, fname)(job)
        finally:
            _cov_tick()
    except Exception as e:  # harness bug or import error: machinery, not a verdict - unless the library itself raised
        frames = traceback.extract_tb(e.__traceback__)
        lib = [fr for fr in frames if '/rsome/' in fr.filename.replace('\\', '/')]
        return dict(machinery_error='%s: %s' % (type(e).__name__, e), tb=traceback.format_exc(), job=job, library=bool(lib),
                    exc_type=type(e).__name__, where=('%s:%s' % (os.path.basename(lib[-1].filename), lib[-1].name)) if lib else None)


def _call_chunk(args):
    modname, fname, chunk = args
    try:
        return [_call((modname, fname, j)) for j in chunk]
    finally:
        _cov_tick(force=True)


def pmap(modname, fname, jobs, workers=None, chunksize=8, quiet=True):
    """Run harness function modname.fname(job) for every job in worker processes that import
    rsome from VERIF_REPO.  Returns results in order."""
    import multiprocessing as mp
    jobs = list(jobs)
    if not jobs:
        return []
    workers = workers or min(16, os.cpu_count() or 4)
    ctx = mp.get_context('spawn')
    # A solver can hang inside C code (observed: ECOS branch-and-bound on infeasible integer programs, Gurobi on
    # unbounded mixed-integer cone programs, HiGHS presolve): never wait forever - a chunk that does not come back
    # within job_timeout seconds ends the run as a machinery failure (exit 2), and the workers are killed.
    job_timeout = float(os.environ.get('VERIF_JOB_TIMEOUT', '900'))
    chunks = [jobs[i:i + chunksize] for i in range(0, len(jobs), chunksize)]
    pool = ctx.Pool(workers, initializer=_worker_init, initargs=(repo_path(), quiet))
    try:
        pending = [pool.apply_async(_call_chunk, ((modname, fname, ch),)) for ch in chunks]
        out = []
        for k, a in enumerate(pending):
            try:
                out.extend(a.get(timeout=job_timeout))
            except mp.TimeoutError:
                pool.terminate()
                from harness.tlc import MachineryError
                raise MachineryError('%s.%s: a replay chunk (jobs %d..%d) did not return within %.0f s (solver hang?)'
                                     % (modname, fname, k * chunksize, k * chunksize + len(chunks[k]) - 1, job_timeout))
        pool.close()
    finally:
        pool.terminate()
        pool.join()
    return out


def machinery_failures(results):
    """Replay jobs that ended with an exception the suite did not classify.  When the exception was raised INSIDE the library
    (the harness was building / formulating / solving a model of the family, which works on a tree where the property holds)
    this is an observation about the code, not a broken harness: LibraryFailure, which bin/check reports as a violation."""
    bad = [r for r in results if isinstance(r, dict) and 'machinery_error' in r]
    if bad and all(b.get('library') for b in bad):
        from harness.tlc import LibraryFailure
        raise LibraryFailure('%d replay job(s) ended with an exception raised inside rsome: %s' % (len(bad), bad[0]['machinery_error']), bad)
    return bad
