"""Spec -> code replay for DroSem.tla: build the declared dro model through rsome.dro, solve it, return
what the API reports (goes back to TLC for the post-condition of C03 at every member distribution /
support vertex) and run the independent float oracle: the primal moment problem (an LP over
distributions on support vertices) for the worst-case expectation at the returned solution (C03), and
a cutting-plane loop around it for the true optimum under the declared adaptation (C04).

Lifted supports (auxiliary random variables u, kinds 9-12 of DroSem.tla): the oracle enumerates the vertices and the
extreme rays of the lifted support polyhedra itself (harness/liftpoly.py, from its own half-space transcription of the
declared sets) - a distribution is then a mass on vertices plus "ray masses" that add to the moments and (through the
recession slope of the integrand) to the expectation, but not to the probability.  Non-polyhedral sets (2-norm
Wasserstein supports, KL / 2-norm probability sets) are sandwiched: an INNER description (subset of the declared
set) and an OUTER one; C03 uses the inner worst case (<= true worst case), C04 the outer optimum (>= true optimum)."""
import math

import numpy as np

from harness import liftpoly

DEN = 60.0
INF = 100000
AFF_MASK = {'a0': [], 'a1': [0], 'a12': [0, 1], 'au': [2, 3], 'a12u': [0, 1, 2, 3]}     # rule components: z1 z2 u1 u2


def piece_expr(pc, x, z):
    e = 0
    if pc['ax']:
        e = e + pc['ax'] * x
    for k in range(2):
        if pc['az'][k]:
            e = e + pc['az'][k] * z[k]
        if pc['axz'][k]:
            e = e + (pc['axz'][k] * z[k]) * x
    if pc['b']:
        e = e + pc['b']
    return e


def piece_val(pc, x, v):
    return pc['ax'] * x + pc['az'][0] * v[0] + pc['az'][1] * v[1] + (pc['axz'][0] * v[0] + pc['axz'][1] * v[1]) * x + pc['b']


def build(job):
    import rsome as rso
    from rsome import dro, E
    rec = job['rec']
    p = rec['prog']
    ns = p['ns']
    var = job.get('variant', 0)
    # scenario labels: positions | strings | integers that are NOT the positions (1-based): a label taken for a position
    # (or the reverse) then names another existing scenario instead of failing
    labels = None if var % 2 == 0 else (list(range(1, ns + 1)) if var % 4 == 3 else ['s%d' % k for k in range(ns)])
    m = dro.Model(ns) if labels is None else dro.Model(labels)
    lab = (lambda s: s) if labels is None else (lambda s: labels[s])
    nu = liftpoly.nu_of(p['supp'])
    u = None
    if nu and var % 4 >= 2:
        u = m.rvar() if nu == 1 else m.rvar(nu)        # the auxiliary variable declared BEFORE z: other columns
    z = m.rvar(2)
    if nu and u is None:
        u = m.rvar() if nu == 1 else m.rvar(nu)
    x = m.dvar(vtype='I' if p['xint'] else 'C')
    y = None
    if p['form'] == 'A':
        y = m.dvar()
        if p['part'] == 1:
            for s in range(ns):
                y.adapt(lab(s))
        elif p['part'] == 2:
            y.adapt(lab(0))
        if p['aff'] == 'a1':
            y.adapt(z[0])
        elif p['aff'] == 'a12':
            y.adapt(z)
        elif p['aff'] == 'au':
            y.adapt(u)
        elif p['aff'] == 'a12u':
            if var % 2:
                y.adapt(u); y.adapt(z)
            else:
                y.adapt(z); y.adapt(u)
        # an unrelated decision declared AFTER the adaptive one (static, or event-wise on another partition): the column
        # arithmetic of the event-wise affine expansion must not depend on which variable happens to be declared last
        if var % 3 == 1:
            dummy = m.dvar()
        elif var % 3 == 2 and ns >= 2:
            dummy = m.dvar()
            dummy.adapt(lab(ns - 1))
            dummy.adapt(z[1])
        else:
            dummy = None
    fset = m.ambiguity()
    cen = [np.array(c, dtype=float) for c in rec['centres']]
    # rows with their OWN support (constraint.forall(...)): a second ambiguity set of the same model (it must exist before
    # the first constraint), or a list / tuple of support constraints (the common box, kind 3)
    rk = p.get('rsupp', 0)
    rowsup = None
    if rk:
        if rk == 3 and var % 3:
            rowsup = [z >= -2, z <= 2] if var % 3 == 1 else (z >= -2, z <= 2)
        else:
            rowsup = m.ambiguity()
            for s in range(ns):
                if rk == 1:
                    rowsup[lab(s)].suppset(z == cen[s])
                elif rk == 2:
                    rowsup[lab(s)].suppset(z >= cen[s] - 1, z <= cen[s] + 1)
                elif rk == 8:
                    rowsup[lab(s)].suppset(z >= cen[s] - np.array([s + 1.0, 1.0]), z <= cen[s] + np.array([s + 1.0, 1.0]))
                elif rk == 4:
                    rowsup[lab(s)].suppset(rso.norm(z - cen[s], 1) <= 1)
            if rk == 3:
                rowsup.suppset(z >= -2, z <= 2)
    k = p['supp']
    for s in range(ns):
        if k == 1 or (k == 6 and s == 0):
            fset[lab(s)].suppset(z == cen[s])
        elif k == 2 or k == 6:
            fset[lab(s)].suppset(z >= cen[s] - 1, z <= cen[s] + 1)
        elif k == 8:
            rad = np.array([s + 1.0, 1.0])
            fset[lab(s)].suppset(z >= cen[s] - rad, z <= cen[s] + rad)
        elif k == 7:
            cons = [z >= cen[s] - 1, z <= cen[s] + 1]
            if s % 2 == 0:
                cons.append(rso.exp(z[1]) <= math.exp(cen[s][1] + 1) * (1 + 1e-9))
            fset[lab(s)].suppset(cons)
        elif k == 4:
            fset[lab(s)].suppset(rso.norm(z - cen[s], 1) <= 1)
        elif k == 9:          # mean absolute deviation: |z - c| <= u componentwise, u unbounded above
            fset[lab(s)].suppset(z >= cen[s] - 1, z <= cen[s] + 1, abs(z - cen[s]) <= u)
        elif k in (10, 11, 12):   # Wasserstein-style: scenario = sample zhat_s, distance to it bounded by u
            L = liftpoly.LIFTED[k]
            cons = [z >= -L['box'], z <= L['box'], rso.norm(z - cen[s], L['norm']) <= u]
            if 'ucap' in L:
                cons.append(u <= L['ucap'])
            fset[lab(s)].suppset(cons) if var % 3 == 2 else fset[lab(s)].suppset(*cons)
    if k == 3:
        fset.suppset(z >= -2, z <= 2)
    elif k == 5:
        fset.suppset([z >= 0, z <= 3])
    pr = m.p
    if p['prob'] == 1:
        fset.probset(pr == 1.0 / ns)
    elif p['prob'] == 3:
        phat = np.array(rec['pverts'][0], dtype=float) / DEN
        fset.probset(pr == phat)
    elif p['prob'] == 4:
        fset.probset(pr <= 0.6)
    elif p['prob'] == 5:
        fset.probset(rso.norm(pr - 1.0 / ns, 1) <= 0.4)
    elif p['prob'] in liftpoly.PROBSETS:
        P = liftpoly.PROBSETS[p['prob']]
        phat = liftpoly.phat_of(p['prob'], ns)
        if P['type'] == 'kl':
            fset.probset(rso.kldiv(pr, phat, P['r']))
        elif var % 2:
            fset.probset(rso.norm(pr - phat, 2) <= P['r'])
        else:
            fset.probset(rso.norm(pr - phat) <= P['r'])
    for ex in rec['expts']:
        ev = [s - 1 for s in ex['ev']]
        target = fset if len(ev) == ns else (fset[lab(ev[0])] if len(ev) == 1 else fset[[lab(s) for s in ev]])
        cons = []
        lo = np.array(ex['lo2'][:2], dtype=float) / 2.0
        hi = np.array(ex['hi2'][:2], dtype=float) / 2.0
        if abs(ex['lo2'][0]) >= INF:
            pass                                            # no information on z in this set
        elif np.all(lo < hi) and var % 2 == 0:
            cons = [E(z) >= lo, E(z) <= hi]                 # whole-array form
        else:
            for c in range(2):
                # note: E(z[c]) >= number raises AttributeError in rsome (VarSub bound path on an
                # expectation variable); the affine form below is the working spelling
                if lo[c] == hi[c]:
                    cons.append(E(z[c]) == lo[c])
                else:
                    cons.append(1.0 * E(z[c]) >= lo[c])
                    cons.append(1.0 * E(z[c]) <= hi[c])
        if ex.get('norm'):
            mu = np.array(ex['mu2'], dtype=float) / 2.0
            nm = {1: 1, 2: 2, 3: 'inf'}[ex['norm']]
            if ex['norm'] == 2 and var % 2 == 0:
                cons.append(rso.norm(E(z) - mu) <= ex['r2'] / 2.0)
            else:
                cons.append(rso.norm(E(z) - mu, nm) <= ex['r2'] / 2.0)
        if nu and ex['hi2'][2] < INF:
            uh = ex['hi2'][2] / 2.0
            if nu == 1 or var % 2 == 0:
                cons.append(E(u) <= uh)
            else:
                cons.extend([1.0 * E(u[c]) <= uh for c in range(nu)])
        target.exptset(cons) if var % 3 else target.exptset(*cons)
    xb = job['XB']
    m.st(x >= -xb, x <= xb)
    if p['form'] == 'A' and dummy is not None:
        m.st(dummy >= 0, dummy <= 1)
    p1, p2 = rec['piece1'], rec['piece2']
    if p['form'] == 'B':
        m.minsup(E(rso.maxof(piece_expr(p1, x, z), piece_expr(p2, x, z))), fset)
    elif p['form'] == 'C':
        m.minsup(rso.maxof(piece_expr(p1, x, z), piece_expr(p2, x, z)), fset)       # piecewise objective WITHOUT expectation
    else:
        m.minsup(E(y), fset)
        if rowsup is None:
            m.st(y >= piece_expr(p1, x, z), y >= piece_expr(p2, x, z))
        else:
            m.st((y >= piece_expr(p1, x, z)).forall(rowsup), (y >= piece_expr(p2, x, z)).forall(rowsup))
    if p['econ']:
        if rec.get('econEq'):
            m.st(E(piece_expr(rec['econ'], x, z)) == 0)
        else:
            m.st(E(piece_expr(rec['econ'], x, z)) <= 0)
    return m, dict(x=x, y=y, z=z, u=u, nu=nu, labels=labels)


# ------------------------------------------------------------------------------------------ oracle

def is_sandwich(rec):
    p = rec['prog']
    return p['supp'] == 12 or p['prob'] in liftpoly.PROBSETS or any(ex.get('norm') == 2 for ex in rec['expts'])


def geometry(rec, side='inner'):
    """What the oracle integrates over: per scenario the vertices and extreme rays of the (lifted) support, and the
    vertices of the probability set.  side = 'inner' | 'outer' differ only for the sandwiched (non-polyhedral) kinds."""
    p = rec['prog']
    ns = p['ns']
    k = 0 if side == 'inner' else 1
    if p['supp'] in liftpoly.LIFTED:
        L = [liftpoly.lifted(p['supp'], s, rec['centres'])[k] for s in range(ns)]
        verts = [np.array(P['verts'], dtype=float) for P in L]
        rays = [np.array(P['rays'], dtype=float) for P in L]
    else:
        verts = [np.array(v, dtype=float) for v in rec['verts']]
        rays = [np.zeros((0, 2)) for _ in range(ns)]
    if p['prob'] in liftpoly.PROBSETS:
        pv = liftpoly.prob_polygon(p['prob'], ns)[k]
    else:
        pv = np.array(rec['pverts'], dtype=float) / DEN
    return dict(verts=verts, rays=rays, pv=np.array(pv, dtype=float), dim=verts[0].shape[1], side=side)


class Moment:
    """Worst-case expectation of scenario-wise values F[s][j] (value at vertex j of scenario s; recession slope
    Fr[s][k] along extreme ray k) over the ambiguity set: LP over vertex masses q_{s,j} >= 0, ray masses
    r_{s,k} >= 0 (they carry moments, not probability) and lambda (convex weights of the probability-set vertices)."""

    def __init__(self, rec, G=None):
        p = rec['prog']
        G = G or geometry(rec)
        self.G = G
        self.ns = p['ns']
        self.verts = G['verts']
        self.rays = G['rays']
        self.dim = G['dim']
        self.pv = G['pv']                                             # (nv, ns)
        self.nq = [len(v) for v in self.verts]
        self.off = np.cumsum([0] + self.nq)
        self.nQ = int(self.off[-1])
        self.nr = [len(r) for r in self.rays]
        self.roff = self.nQ + np.cumsum([0] + self.nr)
        self.nR = int(sum(self.nr))
        self.nl = len(self.pv)
        self.il = self.nQ + self.nR
        n = self.il + self.nl
        self.n = n
        for R in self.rays:
            if len(R) and (np.any(np.abs(R[:, :2]) > 1e-12) or np.any(R < -1e-12)):
                raise AssertionError('oracle: a recession direction of a lifted support moves z or decreases u: %r' % (R,))
        # a ray is "free" when no expectation set bounds the moment it increases: then only integrands that do not
        # increase along it have a finite worst case
        self.ray_free = [[True] * k for k in self.nr]
        Aeq, beq, Aub, bub = [], [], [], []
        for s in range(self.ns):         # sum_j q_sj = p_s = sum_k lambda_k pv[k][s]
            row = np.zeros(n)
            row[self.off[s]:self.off[s + 1]] = 1.0
            row[self.il:] = -self.pv[:, s]
            Aeq.append(row); beq.append(0.0)
        row = np.zeros(n); row[self.il:] = 1.0
        Aeq.append(row); beq.append(1.0)
        for ex in rec['expts']:
            ev = [s - 1 for s in ex['ev']]
            for c in range(self.dim):
                lo2, hi2 = ex['lo2'][c], ex['hi2'][c]
                if lo2 <= -INF and hi2 >= INF:
                    continue
                mrow = np.zeros(n)
                prow = np.zeros(n)
                for s in ev:
                    mrow[self.off[s]:self.off[s + 1]] = self.verts[s][:, c]
                    if self.nr[s]:
                        mrow[self.roff[s]:self.roff[s + 1]] = self.rays[s][:, c]
                    prow[self.il:] += self.pv[:, s]
                    if hi2 < INF:
                        for k in range(self.nr[s]):
                            # bounded if every component the ray increases is bounded: single-component rays here
                            if self.rays[s][k, c] > 1e-12 and np.count_nonzero(np.abs(self.rays[s][k]) > 1e-12) == 1:
                                self.ray_free[s][k] = False
                lo, hi = lo2 / 2.0, hi2 / 2.0
                if lo2 == hi2:
                    Aeq.append(mrow - lo * prow); beq.append(0.0)
                else:
                    if hi2 < INF:
                        Aub.append(mrow - hi * prow); bub.append(0.0)
                    if lo2 > -INF:
                        Aub.append(lo * prow - mrow); bub.append(0.0)
            if ex.get('norm'):
                # || m - mu P || <= r P with m = moment of z over the event, P = probability of the event (perspective form)
                mu = np.array(ex['mu2'], dtype=float) / 2.0
                r = ex['r2'] / 2.0
                drow = []
                prow = np.zeros(n)
                for s in ev:
                    prow[self.il:] += self.pv[:, s]
                for c in range(2):
                    mrow = np.zeros(n)
                    for s in ev:
                        mrow[self.off[s]:self.off[s + 1]] = self.verts[s][:, c]
                    drow.append(mrow - mu[c] * prow)
                if ex['norm'] == 1:
                    dirs, rad = [(a, b_) for a in (1.0, -1.0) for b_ in (1.0, -1.0)], r
                elif ex['norm'] == 3:
                    dirs, rad = [(1.0, 0.0), (-1.0, 0.0), (0.0, 1.0), (0.0, -1.0)], r
                else:
                    # the disc between an inscribed (inner description) and a circumscribed (outer) regular polygon
                    K = 64
                    dirs = [(math.cos(2 * math.pi * k / K), math.sin(2 * math.pi * k / K)) for k in range(K)]
                    rad = r * math.cos(math.pi / K) if G.get('side', 'inner') == 'inner' else r
                for g in dirs:
                    Aub.append(g[0] * drow[0] + g[1] * drow[1] - rad * prow); bub.append(0.0)
        self.Aeq, self.beq = np.array(Aeq), np.array(beq)
        self.Aub = np.array(Aub) if Aub else None
        self.bub = np.array(bub) if bub else None

    def worst(self, F, Fr=None):
        """(value, q, r): value = +inf when the integrand increases along a free ray."""
        from scipy.optimize import linprog
        c = np.zeros(self.n)
        c[:self.nQ] = -np.concatenate([np.asarray(f, dtype=float) for f in F])
        bounds = [(0, None)] * self.n
        for s in range(self.ns):
            for k in range(self.nr[s]):
                sl = 0.0 if Fr is None else float(Fr[s][k])
                j = int(self.roff[s]) + k
                if self.ray_free[s][k]:
                    if sl > 1e-5:
                        return float('inf'), None, None
                    bounds[j] = (0, 0)
                else:
                    c[j] = -sl
        res = linprog(c, A_ub=self.Aub, b_ub=self.bub, A_eq=self.Aeq, b_eq=self.beq, bounds=bounds)
        if res.status == 3:
            raise AssertionError('oracle: moment LP unbounded although every free ray is closed')
        if res.status != 0:
            return None, None, None
        return -float(res.fun), res.x[:self.nQ], res.x[self.nQ:self.il]


NRULE = 5          # y0, Y(z1), Y(z2), Y(u1), Y(u2)


def true_optimum(rec, xb, G=None):
    """Cutting planes: min over (x, rule of y) of the worst-case expectation. Returns dict(status, val)."""
    from scipy.optimize import linprog, milp, LinearConstraint, Bounds
    p = rec['prog']
    mo = Moment(rec, G)
    ns = p['ns']
    dim = mo.dim
    ev = rec['events']
    nev = max(ev)
    p1, p2, pe = rec['piece1'], rec['piece2'], rec['econ']
    formA = p['form'] == 'A'
    formC = p['form'] == 'C'
    rverts = [np.array(v, dtype=float) for v in rec['rverts']] if p.get('rsupp', 0) else None       # the rows' own support
    if rverts is not None and (not formA or any(mo.nr)):
        raise AssertionError('oracle: rows with their own support are form A on plain supports')
    mask = [c for c in AFF_MASK[p['aff']] if c < dim]
    # variables: x | y0_e, Y_e1, Y_e2, U_e1, U_e2 (e = 1..nev)  or  f_{s,j} (epigraph value at vertex j) | t
    if formA:
        ny = NRULE * nev
        nu_ = 0
    elif formC:
        ny = nu_ = 0          # x | t:  t >= piece_l(x, v) at every vertex of every scenario
    else:
        ny = 0
        nu_ = mo.nQ
    n = 1 + ny + nu_ + 1
    it = n - 1
    lb = np.full(n, -np.inf); ub = np.full(n, np.inf)
    lb[0], ub[0] = -xb, xb
    if formA:
        for e in range(nev):
            for c in range(NRULE - 1):
                if c not in mask:
                    lb[1 + NRULE * e + 1 + c] = ub[1 + NRULE * e + 1 + c] = 0.0

    def lin_piece(pc, v):          # coefficient on x and constant of piece at vertex v
        return pc['ax'] + pc['axz'][0] * v[0] + pc['axz'][1] * v[1], pc['az'][0] * v[0] + pc['az'][1] * v[1] + pc['b']

    def yrow(s, v):                # coefficients of y_s(v) on the variable vector
        r = np.zeros(n)
        e = ev[s] - 1
        r[1 + NRULE * e] = 1.0
        for c in range(len(v)):
            r[1 + NRULE * e + 1 + c] = v[c]
        return r

    def yray(s, d):                # recession slope of y_s along direction d
        r = np.zeros(n)
        e = ev[s] - 1
        for c in range(dim):
            r[1 + NRULE * e + 1 + c] = d[c]
        return r

    A, b = [], []
    for s in range(ns):
        for j, v in enumerate(mo.verts[s] if rverts is None else rverts[s]):
            for pc in (p1, p2):
                cx, c0 = lin_piece(pc, v)
                row = np.zeros(n)
                row[0] = cx
                if formA:
                    row -= yrow(s, v)
                elif formC:
                    row[it] = -1.0
                else:
                    row[1 + mo.off[s] + j] = -1.0
                A.append(row); b.append(-c0)
        if formA:
            for k, d in enumerate(mo.rays[s]):
                A.append(-yray(s, d)); b.append(0.0)          # rows hold along the ray (pieces do not move: d_z = 0)
                if mo.ray_free[s][k]:
                    A.append(yray(s, d)); b.append(0.0)       # finite worst-case expectation

    def Fvals(theta):
        out, outr = [], []
        for s in range(ns):
            if formA:
                out.append([float(yrow(s, v) @ theta) for v in mo.verts[s]])
                outr.append([float(yray(s, d) @ theta) for d in mo.rays[s]])
            else:
                out.append([float(theta[1 + mo.off[s] + j]) for j in range(mo.nq[s])])
                outr.append([0.0] * mo.nr[s])
        return out, outr

    def Hvals(theta):
        return [[piece_val(pe, theta[0], v) for v in mo.verts[s]] for s in range(ns)]

    def cut_obj(q, rm):
        row = np.zeros(n)
        for s in range(ns):
            for j, v in enumerate(mo.verts[s]):
                w = q[mo.off[s] + j]
                if w:
                    if formA:
                        row += w * yrow(s, v)
                    else:
                        row[1 + mo.off[s] + j] += w
            if formA:
                for k, d in enumerate(mo.rays[s]):
                    w = rm[int(mo.roff[s]) - mo.nQ + k]
                    if w:
                        row += w * yray(s, d)
        row[it] = -1.0
        return row, 0.0

    def cut_econ(q):
        row = np.zeros(n); c0 = 0.0
        for s in range(ns):
            for j, v in enumerate(mo.verts[s]):
                w = q[mo.off[s] + j]
                if w:
                    cx, cc = lin_piece(pe, v)
                    row[0] += w * cx; c0 += w * cc
        return row, -c0

    # initial cut: any feasible distribution
    val0, q0, r0 = mo.worst([[0.0] * k for k in mo.nq])
    if q0 is None:
        return dict(status='ambiguity-empty')
    if not formC:
        r, c = cut_obj(q0, r0); A.append(r); b.append(c)
    if p['econ']:
        r, c = cut_econ(q0); A.append(r); b.append(c)
    cvec = np.zeros(n); cvec[it] = 1.0
    integ = np.zeros(n); integ[0] = 1.0 if p['xint'] else 0.0
    for _ in range(120):
        if p['xint']:
            res = milp(cvec, constraints=[LinearConstraint(np.array(A), -np.inf, np.array(b))], bounds=Bounds(lb, ub), integrality=integ)
        else:
            res = linprog(cvec, A_ub=np.array(A), b_ub=np.array(b), bounds=list(zip(lb, ub)))
        if res.status == 2:
            return dict(status='infeasible')
        if res.status == 3:
            # unbounded master: add a box on the free rule variables and continue (tiny programs only)
            lb2 = np.where(np.isinf(lb), -1e4, lb); ub2 = np.where(np.isinf(ub), 1e4, ub)
            lb, ub = lb2, ub2
            continue
        if res.status != 0:
            return dict(status='other:%s' % res.status)
        theta = res.x
        added = False
        if not formC:
            Fv, Frv = Fvals(theta)
            w, q, rm = mo.worst(Fv, Frv)
            if w is None:
                return dict(status='ambiguity-empty')
            if not math.isfinite(w):
                raise AssertionError('oracle: master returned a rule that increases along a free ray')
            if w > theta[it] + 1e-8 * (1 + abs(w)):
                r, c = cut_obj(q, rm); A.append(r); b.append(c); added = True
        if p['econ']:
            wh, qh, _ = mo.worst(Hvals(theta))
            if wh > 1e-8:
                r, c = cut_econ(qh); A.append(r); b.append(c); added = True
            if rec.get('econEq'):
                # the equality: also E(-h) <= 0 under every member
                wl, ql, _ = mo.worst([[-v_ for v_ in row_] for row_ in Hvals(theta)])
                if wl > 1e-8:
                    r, c = cut_econ(ql); A.append(-r); b.append(-c); added = True
        if not added:
            return dict(status='ok', val=float(theta[it]), x=float(theta[0]))
    return dict(status='no-convergence')


def worst_at_solution(rec, x, ys, G=None):
    """(worst-case expected objective, worst-case expectation of the E-constraint) at the returned solution."""
    p = rec['prog']
    mo = Moment(rec, G)
    p1, p2, pe = rec['piece1'], rec['piece2'], rec['econ']
    dim = mo.dim
    Fr = None
    if p['form'] == 'A':
        F = [[ys[s][0] + sum(ys[s][1 + c] * v[c] for c in range(dim)) for v in mo.verts[s]] for s in range(p['ns'])]
        Fr = [[sum(ys[s][1 + c] * d[c] for c in range(dim)) for d in mo.rays[s]] for s in range(p['ns'])]
    else:
        F = [[max(piece_val(p1, x, v), piece_val(p2, x, v)) for v in mo.verts[s]] for s in range(p['ns'])]
    if p['form'] == 'C':
        if mo.worst([[0.0] * k for k in mo.nq])[0] is None:
            w = None
        else:
            w = max(max(f) for f in F)        # no expectation: the worst realisation of any scenario
    else:
        w, _, _ = mo.worst(F, Fr)
    wh = None
    if p['econ']:
        wh, _, _ = mo.worst([[piece_val(pe, x, v) for v in mo.verts[s]] for s in range(p['ns'])])
        if rec.get('econEq') and wh is not None:
            wl, _, _ = mo.worst([[-piece_val(pe, x, v) for v in mo.verts[s]] for s in range(p['ns'])])
            wh = max(wh, wl)
    return w, wh


def _replay(job, phase):
    import pandas as pd
    rec = job['rec']
    p = rec['prog']
    ns = p['ns']
    out = dict(tid=job['tid'], solver=job['solver'])
    phase[0] = 'build'
    m, h = build(job)
    phase[0] = 'solve'
    def solve_with(name):
        if name == 'def':
            m.solve(display=False)
        else:
            import importlib
            # Gurobi on cone programs: never wait for ever
            m.solve(importlib.import_module('rsome.%s_solver' % name), display=False,
                    params={'TimeLimit': 10} if name == 'grb' and (is_sandwich(rec) or h['nu']) else {})
    try:
        solve_with(job['solver'])
    except Exception as e:
        # the restricted Gurobi licence refuses the larger lifted programs: not a property of the library - use another interface
        if job['solver'] == 'grb' and type(e).__name__ == 'GurobiError' and 'size-limited' in str(e):
            out['solver'] = 'eco' if (p['supp'] == 12 or p['prob'] in (7, 9)) else 'def'
            out['licence_fallback'] = True
            solve_with(out['solver'])
        else:
            raise
    ok = m.solution is not None and not (isinstance(m.solution.objval, float) and math.isnan(m.solution.objval))
    if not ok and job['solver'] == 'eco' and p['prob'] in (6, 8):
        # ECOS gives up ("numerical problems") on most KL programs with lifted supports and adaptive decisions; the
        # library's own second-order-cone approximation of the exponential cones (soc_solve) is a second public route
        # to an answer.  Size-limited Gurobi licence: only the smaller programs go through.
        st = str(getattr(m.solution, 'status', None)).lower()
        if 'infeasible' not in st and 'unbounded' not in st:
            out['first_status'] = st
            try:
                import rsome.grb_solver as grb
                m.soc_solve(grb, display=False, params={'TimeLimit': 10})
                ok2 = m.solution is not None and not (isinstance(m.solution.objval, float) and math.isnan(m.solution.objval))
            except Exception as e:
                out['soc_fallback_error'] = '%s: %s' % (type(e).__name__, str(e)[:80])
                ok2 = False
            if ok2:
                ok = True
                out['solver'] = 'soc-grb'
            else:
                m.solution = None
    phase[0] = 'read'
    if ok:
        xv = h['x'].get()
        xv = float(np.array(xv.iloc[0] if isinstance(xv, pd.Series) else xv).reshape(-1)[0])
        ys = [[0.0] * NRULE for _ in range(ns)]
        nans = [None] * ns
        labelled = None
        if h['y'] is not None:
            y0 = h['y'].get()
            if isinstance(y0, pd.Series):
                labelled = [str(i) for i in y0.index]
                for s in range(ns):
                    ys[s][0] = float(np.array(y0.iloc[s]).reshape(-1)[0])
            else:
                for s in range(ns):
                    ys[s][0] = float(np.array(y0).reshape(-1)[0])
            if p['aff'] in ('a1', 'a12', 'a12u'):
                yc = h['y'].get(h['z'])
                for s in range(ns):
                    arr = np.array(yc.iloc[s] if isinstance(yc, pd.Series) else yc, dtype=float).reshape(-1)
                    for c in range(2):
                        ys[s][1 + c] = 0.0 if np.isnan(arr[c]) else float(arr[c])
                    nans[s] = [bool(np.isnan(a)) for a in arr]
            if p['aff'] in ('au', 'a12u'):
                yu = h['y'].get(h['u'])
                for s in range(ns):
                    arr = np.array(yu.iloc[s] if isinstance(yu, pd.Series) else yu, dtype=float).reshape(-1)
                    if len(arr) != h['nu']:
                        raise AssertionError('y.get(u): %d coefficients for %d auxiliary variables' % (len(arr), h['nu']))
                    for c in range(h['nu']):
                        ys[s][3 + c] = 0.0 if np.isnan(arr[c]) else float(arr[c])
        out.update(status='ok', x=xv, obj=float(m.get()), ys=ys, nan=nans, labelled=labelled)
        phase[0] = 'oracle'
        w, wh = worst_at_solution(rec, xv, ys, geometry(rec, 'inner'))
        out['wce'] = w
        out['wce_econ'] = wh
    else:
        out.update(status='fail', solver_status=out.get('first_status') or str(getattr(m.solution, 'status', None)))
    phase[0] = 'oracle'
    # opt: optimum over the inner description (<= true inf-sup), opt_hi: over the outer one (>= true inf-sup);
    # the same thing unless the program has a sandwiched (non-polyhedral) set
    out['opt'] = true_optimum(rec, job['XB'], geometry(rec, 'inner'))
    out['opt_hi'] = true_optimum(rec, job['XB'], geometry(rec, 'outer')) if is_sandwich(rec) else out['opt']
    out['sandwich'] = is_sandwich(rec)
    return out


def replay(job):
    import traceback
    phase = ['start']
    try:
        return _replay(job, phase)
    except Exception as e:
        tb = traceback.extract_tb(e.__traceback__)
        if phase[0] == 'oracle' or not any('/rsome/' in fr.filename for fr in tb):
            raise
        return dict(tid=job['tid'], solver=job['solver'], status='exception', phase=phase[0],
                    exc='%s: %s' % (type(e).__name__, e), where='%s:%d' % (tb[-1].filename, tb[-1].lineno))
