"""Spec -> code replay for DroSem.tla: build the declared dro model through rsome.dro, solve it, return
what the API reports (goes back to TLC for the post-condition of C03 at every member distribution /
support vertex) and run the independent float oracle: the primal moment problem (an LP over
distributions on support vertices) for the worst-case expectation at the returned solution (C03), and
a cutting-plane loop around it for the true optimum under the declared adaptation (C04)."""
import math

import numpy as np

DEN = 60.0


def piece_expr(pc, x, z):
    e = 0
    if pc['ax']:
        e = e + pc['ax'] * x
    for k in range(2):
        if pc['az'][k]:
            e = e + pc['az'][k] * z[k]
        if pc['axz'][k]:
            e = e + (pc['axz'][k] * z[k]) * x
    if pc['b']:
        e = e + pc['b']
    return e


def piece_val(pc, x, v):
    return pc['ax'] * x + pc['az'][0] * v[0] + pc['az'][1] * v[1] + (pc['axz'][0] * v[0] + pc['axz'][1] * v[1]) * x + pc['b']


def build(job):
    import rsome as rso
    from rsome import dro, E
    rec = job['rec']
    p = rec['prog']
    ns = p['ns']
    var = job.get('variant', 0)
    # scenario labels: positions | strings | integers that are NOT the positions (1-based): a label taken for a position
    # (or the reverse) then names another existing scenario instead of failing
    labels = None if var % 2 == 0 else (list(range(1, ns + 1)) if var % 4 == 3 else ['s%d' % k for k in range(ns)])
    m = dro.Model(ns) if labels is None else dro.Model(labels)
    lab = (lambda s: s) if labels is None else (lambda s: labels[s])
    z = m.rvar(2)
    x = m.dvar(vtype='I' if p['xint'] else 'C')
    y = None
    if p['form'] == 'A':
        y = m.dvar()
        if p['part'] == 1:
            for s in range(ns):
                y.adapt(lab(s))
        elif p['part'] == 2:
            y.adapt(lab(0))
        if p['aff'] == 'a1':
            y.adapt(z[0])
        elif p['aff'] == 'a12':
            y.adapt(z)
        # an unrelated decision declared AFTER the adaptive one (static, or event-wise on another partition): the column
        # arithmetic of the event-wise affine expansion must not depend on which variable happens to be declared last
        if var % 3 == 1:
            dummy = m.dvar()
        elif var % 3 == 2 and ns >= 2:
            dummy = m.dvar()
            dummy.adapt(lab(ns - 1))
            dummy.adapt(z[1])
        else:
            dummy = None
    fset = m.ambiguity()
    cen = [np.array(c, dtype=float) for c in rec['centres']]
    k = p['supp']
    for s in range(ns):
        if k == 1 or (k == 6 and s == 0):
            fset[lab(s)].suppset(z == cen[s])
        elif k == 2 or k == 6:
            fset[lab(s)].suppset(z >= cen[s] - 1, z <= cen[s] + 1)
        elif k == 8:
            rad = np.array([s + 1.0, 1.0])
            fset[lab(s)].suppset(z >= cen[s] - rad, z <= cen[s] + rad)
        elif k == 7:
            cons = [z >= cen[s] - 1, z <= cen[s] + 1]
            if s % 2 == 0:
                cons.append(rso.exp(z[1]) <= math.exp(cen[s][1] + 1) * (1 + 1e-9))
            fset[lab(s)].suppset(cons)
        elif k == 4:
            fset[lab(s)].suppset(rso.norm(z - cen[s], 1) <= 1)
    if k == 3:
        fset.suppset(z >= -2, z <= 2)
    elif k == 5:
        fset.suppset([z >= 0, z <= 3])
    pr = m.p
    if p['prob'] == 1:
        fset.probset(pr == 1.0 / ns)
    elif p['prob'] == 3:
        phat = np.array(rec['pverts'][0], dtype=float) / DEN
        fset.probset(pr == phat)
    elif p['prob'] == 4:
        fset.probset(pr <= 0.6)
    elif p['prob'] == 5:
        fset.probset(rso.norm(pr - 1.0 / ns, 1) <= 0.4)
    for ex in rec['expts']:
        ev = [s - 1 for s in ex['ev']]
        target = fset if len(ev) == ns else (fset[lab(ev[0])] if len(ev) == 1 else fset[[lab(s) for s in ev]])
        cons = []
        lo = np.array(ex['lo2'], dtype=float) / 2.0
        hi = np.array(ex['hi2'], dtype=float) / 2.0
        if np.all(lo < hi) and var % 2 == 0:
            cons = [E(z) >= lo, E(z) <= hi]                 # whole-array form
        else:
            for c in range(2):
                # note: E(z[c]) >= number raises AttributeError in rsome (VarSub bound path on an
                # expectation variable); the affine form below is the working spelling
                if lo[c] == hi[c]:
                    cons.append(E(z[c]) == lo[c])
                else:
                    cons.append(1.0 * E(z[c]) >= lo[c])
                    cons.append(1.0 * E(z[c]) <= hi[c])
        target.exptset(cons) if var % 3 else target.exptset(*cons)
    xb = job['XB']
    m.st(x >= -xb, x <= xb)
    if p['form'] == 'A' and dummy is not None:
        m.st(dummy >= 0, dummy <= 1)
    p1, p2 = rec['piece1'], rec['piece2']
    if p['form'] == 'B':
        m.minsup(E(rso.maxof(piece_expr(p1, x, z), piece_expr(p2, x, z))), fset)
    else:
        m.minsup(E(y), fset)
        m.st(y >= piece_expr(p1, x, z), y >= piece_expr(p2, x, z))
    if p['econ']:
        m.st(E(piece_expr(rec['econ'], x, z)) <= 0)
    return m, dict(x=x, y=y, z=z, labels=labels)


# ------------------------------------------------------------------------------------------ oracle

class Moment:
    """Worst-case expectation of scenario-wise values F[s][j] (value at vertex j of scenario s) over the
    ambiguity set: LP over q_{s,j} >= 0 and lambda (convex weights of the probability-set vertices)."""

    def __init__(self, rec):
        p = rec['prog']
        self.ns = p['ns']
        self.verts = [np.array(v, dtype=float) for v in rec['verts']]
        self.pv = np.array(rec['pverts'], dtype=float) / DEN          # (nv, ns)
        self.nq = [len(v) for v in self.verts]
        self.off = np.cumsum([0] + self.nq)
        self.nQ = int(self.off[-1])
        self.nl = len(self.pv)
        n = self.nQ + self.nl
        Aeq, beq, Aub, bub = [], [], [], []
        for s in range(self.ns):         # sum_j q_sj = p_s = sum_k lambda_k pv[k][s]
            row = np.zeros(n)
            row[self.off[s]:self.off[s + 1]] = 1.0
            row[self.nQ:] = -self.pv[:, s]
            Aeq.append(row); beq.append(0.0)
        row = np.zeros(n); row[self.nQ:] = 1.0
        Aeq.append(row); beq.append(1.0)
        for ex in rec['expts']:
            ev = [s - 1 for s in ex['ev']]
            for c in range(2):
                lo, hi = ex['lo2'][c] / 2.0, ex['hi2'][c] / 2.0
                mrow = np.zeros(n)
                prow = np.zeros(n)
                for s in ev:
                    mrow[self.off[s]:self.off[s + 1]] = self.verts[s][:, c]
                    prow[self.nQ:] += self.pv[:, s]
                if lo == hi:
                    Aeq.append(mrow - lo * prow); beq.append(0.0)
                else:
                    Aub.append(mrow - hi * prow); bub.append(0.0)
                    Aub.append(lo * prow - mrow); bub.append(0.0)
        self.Aeq, self.beq = np.array(Aeq), np.array(beq)
        self.Aub = np.array(Aub) if Aub else None
        self.bub = np.array(bub) if bub else None

    def worst(self, F):
        from scipy.optimize import linprog
        c = np.zeros(self.nQ + self.nl)
        c[:self.nQ] = -np.concatenate([np.asarray(f, dtype=float) for f in F])
        res = linprog(c, A_ub=self.Aub, b_ub=self.bub, A_eq=self.Aeq, b_eq=self.beq, bounds=[(0, None)] * len(c))
        if res.status != 0:
            return None, None
        return -float(res.fun), res.x[:self.nQ]


def true_optimum(rec, xb):
    """Cutting planes: min over (x, rule of y) of the worst-case expectation. Returns dict(status, val)."""
    from scipy.optimize import linprog, milp, LinearConstraint, Bounds
    p = rec['prog']
    mo = Moment(rec)
    ns = p['ns']
    ev = rec['events']
    nev = max(ev)
    p1, p2, pe = rec['piece1'], rec['piece2'], rec['econ']
    formA = p['form'] == 'A'
    mask = {'a0': [], 'a1': [0], 'a12': [0, 1]}[p['aff']]
    # variables: x | y0_e, Y_e1, Y_e2 (e = 1..nev)  or  u_{s,j} | t
    if formA:
        ny = 3 * nev
        nu = 0
    else:
        ny = 0
        nu = mo.nQ
    n = 1 + ny + nu + 1
    it = n - 1
    lb = np.full(n, -np.inf); ub = np.full(n, np.inf)
    lb[0], ub[0] = -xb, xb
    if formA:
        for e in range(nev):
            for c in range(2):
                if c not in mask:
                    lb[1 + 3 * e + 1 + c] = ub[1 + 3 * e + 1 + c] = 0.0

    def lin_piece(pc, v):          # coefficient on x and constant of piece at vertex v
        return pc['ax'] + pc['axz'][0] * v[0] + pc['axz'][1] * v[1], pc['az'][0] * v[0] + pc['az'][1] * v[1] + pc['b']

    def yrow(s, v):                # coefficients of y_s(v) on the variable vector
        r = np.zeros(n)
        e = ev[s] - 1
        r[1 + 3 * e] = 1.0
        r[1 + 3 * e + 1] = v[0]
        r[1 + 3 * e + 2] = v[1]
        return r

    A, b = [], []
    for s in range(ns):
        for j, v in enumerate(mo.verts[s]):
            for pc in (p1, p2):
                cx, c0 = lin_piece(pc, v)
                row = np.zeros(n)
                row[0] = cx
                if formA:
                    row -= yrow(s, v)
                else:
                    row[1 + mo.off[s] + j] = -1.0
                A.append(row); b.append(-c0)

    def Fvals(theta):
        out = []
        for s in range(ns):
            if formA:
                out.append([float(yrow(s, v) @ theta) for v in mo.verts[s]])
            else:
                out.append([float(theta[1 + mo.off[s] + j]) for j in range(mo.nq[s])])
        return out

    def Hvals(theta):
        return [[piece_val(pe, theta[0], v) for v in mo.verts[s]] for s in range(ns)]

    def cut_obj(q):
        row = np.zeros(n)
        for s in range(ns):
            for j, v in enumerate(mo.verts[s]):
                w = q[mo.off[s] + j]
                if w:
                    if formA:
                        row += w * yrow(s, v)
                    else:
                        row[1 + mo.off[s] + j] += w
        row[it] = -1.0
        return row, 0.0

    def cut_econ(q):
        row = np.zeros(n); c0 = 0.0
        for s in range(ns):
            for j, v in enumerate(mo.verts[s]):
                w = q[mo.off[s] + j]
                if w:
                    cx, cc = lin_piece(pe, v)
                    row[0] += w * cx; c0 += w * cc
        return row, -c0

    # initial cut: any feasible distribution
    val0, q0 = mo.worst([[0.0] * k for k in mo.nq])
    if q0 is None:
        return dict(status='ambiguity-empty')
    r, c = cut_obj(q0); A.append(r); b.append(c)
    if p['econ']:
        r, c = cut_econ(q0); A.append(r); b.append(c)
    cvec = np.zeros(n); cvec[it] = 1.0
    integ = np.zeros(n); integ[0] = 1.0 if p['xint'] else 0.0
    for _ in range(60):
        if p['xint']:
            res = milp(cvec, constraints=[LinearConstraint(np.array(A), -np.inf, np.array(b))], bounds=Bounds(lb, ub), integrality=integ)
        else:
            res = linprog(cvec, A_ub=np.array(A), b_ub=np.array(b), bounds=list(zip(lb, ub)))
        if res.status == 2:
            return dict(status='infeasible')
        if res.status == 3:
            # unbounded master: add a box on the free rule variables and continue (tiny programs only)
            lb2 = np.where(np.isinf(lb), -1e4, lb); ub2 = np.where(np.isinf(ub), 1e4, ub)
            lb, ub = lb2, ub2
            continue
        if res.status != 0:
            return dict(status='other:%s' % res.status)
        theta = res.x
        added = False
        w, q = mo.worst(Fvals(theta))
        if w is None:
            return dict(status='ambiguity-empty')
        if w > theta[it] + 1e-8 * (1 + abs(w)):
            r, c = cut_obj(q); A.append(r); b.append(c); added = True
        if p['econ']:
            wh, qh = mo.worst(Hvals(theta))
            if wh > 1e-8:
                r, c = cut_econ(qh); A.append(r); b.append(c); added = True
        if not added:
            return dict(status='ok', val=float(theta[it]), x=float(theta[0]))
    return dict(status='no-convergence')


def worst_at_solution(rec, x, ys):
    """(worst-case expected objective, worst-case expectation of the E-constraint) at the returned solution."""
    p = rec['prog']
    mo = Moment(rec)
    p1, p2, pe = rec['piece1'], rec['piece2'], rec['econ']
    if p['form'] == 'A':
        F = [[ys[s][0] + ys[s][1] * v[0] + ys[s][2] * v[1] for v in mo.verts[s]] for s in range(p['ns'])]
    else:
        F = [[max(piece_val(p1, x, v), piece_val(p2, x, v)) for v in mo.verts[s]] for s in range(p['ns'])]
    w, _ = mo.worst(F)
    wh = None
    if p['econ']:
        wh, _ = mo.worst([[piece_val(pe, x, v) for v in mo.verts[s]] for s in range(p['ns'])])
    return w, wh


def _replay(job, phase):
    import pandas as pd
    rec = job['rec']
    p = rec['prog']
    ns = p['ns']
    out = dict(tid=job['tid'], solver=job['solver'])
    phase[0] = 'build'
    m, h = build(job)
    phase[0] = 'solve'
    if job['solver'] == 'def':
        m.solve(display=False)
    else:
        import importlib
        m.solve(importlib.import_module('rsome.%s_solver' % job['solver']), display=False)
    ok = m.solution is not None and not (isinstance(m.solution.objval, float) and math.isnan(m.solution.objval))
    phase[0] = 'read'
    if ok:
        xv = h['x'].get()
        xv = float(np.array(xv.iloc[0] if isinstance(xv, pd.Series) else xv).reshape(-1)[0])
        ys = [[0.0, 0.0, 0.0] for _ in range(ns)]
        labelled = None
        if h['y'] is not None:
            y0 = h['y'].get()
            if isinstance(y0, pd.Series):
                labelled = [str(i) for i in y0.index]
                for s in range(ns):
                    ys[s][0] = float(np.array(y0.iloc[s]).reshape(-1)[0])
            else:
                for s in range(ns):
                    ys[s][0] = float(np.array(y0).reshape(-1)[0])
            if p['aff'] != 'a0':
                yc = h['y'].get(h['z'])
                for s in range(ns):
                    arr = np.array(yc.iloc[s] if isinstance(yc, pd.Series) else yc, dtype=float).reshape(-1)
                    for c in range(2):
                        ys[s][1 + c] = 0.0 if np.isnan(arr[c]) else float(arr[c])
                    ys[s].append([bool(np.isnan(a)) for a in arr])
        out.update(status='ok', x=xv, obj=float(m.get()), ys=[y[:3] for y in ys], nan=[y[3] if len(y) > 3 else None for y in ys], labelled=labelled)
        phase[0] = 'oracle'
        w, wh = worst_at_solution(rec, xv, [y[:3] for y in ys])
        out['wce'] = w
        out['wce_econ'] = wh
    else:
        out.update(status='fail', solver_status=str(getattr(m.solution, 'status', None)))
    phase[0] = 'oracle'
    out['opt'] = true_optimum(rec, job['XB'])
    return out


def replay(job):
    import traceback
    phase = ['start']
    try:
        return _replay(job, phase)
    except Exception as e:
        tb = traceback.extract_tb(e.__traceback__)
        if phase[0] == 'oracle' or not any('/rsome/' in fr.filename for fr in tb):
            raise
        return dict(tid=job['tid'], solver=job['solver'], status='exception', phase=phase[0],
                    exc='%s: %s' % (type(e).__name__, e), where='%s:%d' % (tb[-1].filename, tb[-1].lineno))
