"""pytest plugin: `RSOME_VERIF_TRACE=<file> pytest -p harness.tracer_plugin ...` records the adaptation traces
of every dro model the repository's own tests build."""
import os


def pytest_configure(config):
    if os.environ.get('RSOME_VERIF_TRACE'):
        from harness import tracer
        tracer.install()


def pytest_unconfigure(config):
    path = os.environ.get('RSOME_VERIF_TRACE')
    if path:
        from harness import tracer
        tracer.dump(path)
