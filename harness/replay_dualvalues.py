"""Spec -> code replay for DualValues.tla (C14): write the exported statement list through the public API, keep
the objects returned by st(), solve with every requested interface, call dual() on every user LinConstr /
Bounds object and return everything as plain data (no arithmetic here: the identities are decided by TLC).

Observable checks done here need no arithmetic: the shape of what dual() returns against the shape of the
constraint as written, None + warning for interfaces without duals, stability of dual() under a repeated
do_math().  `ciarray` / `.index` are read with getattr as optional diagnostics (drift notes only).

Concretisation table (statement of DualValues.tla -> API call), per layout of the n variable entries:
  vec   : x = m.dvar(n)                        rows A x        : A @ x
  split : y = m.dvar(1); z = m.dvar(n - 1)     rows A [y; z]   : A[:, :1] @ y + A[:, 1:] @ z
  mat   : X = m.dvar((n, 1))                   rows A X        : A @ X   (right-hand side of shape (r, 1))
  lin  sense le / ge / eq                      m.st(E <= b) / m.st(E >= b) / m.st(E == b)
  bnd  lb / ub on idx                          m.st(sel >= l) / m.st(sel <= u), sel = the whole array, a slice x[a:b],
                                               x[a::2] or a single entry x[j]; value scalar or (bndform 'array') an array
  aux  abs / norm1 / norminf                   m.st(abs(x[i]) <= k) / m.st(norm(x, 1) <= k) / m.st(norm(x, 'inf') <= k)
  domath                                       m.do_math()
"""
import importlib
import math
import warnings

import numpy as np

DUAL_IFACES = ('def', 'eco', 'grb')


def _solver(iface):
    return None if iface == 'def' else importlib.import_module('rsome.%s_solver' % iface)


class Layout:
    """The n variable entries (1-based in the spec) as API objects."""

    def __init__(self, m, n, kind):
        self.n, self.kind = n, kind
        if kind == 'vec':
            self.x = m.dvar(n)
        elif kind == 'mat':
            self.x = m.dvar((n, 1))
        else:
            self.y = m.dvar(1)
            self.z = m.dvar(n - 1)

    def rows(self, A):
        A = np.array(A, dtype=float)
        if self.kind == 'split':
            return A[:, :1] @ self.y + A[:, 1:] @ self.z
        return A @ self.x

    def rhs(self, b):
        b = np.array(b, dtype=float)
        return b.reshape((len(b), 1)) if self.kind == 'mat' else b

    def lin_shape(self, r):
        return (r, 1) if self.kind == 'mat' else (r,)

    def obj(self, c):
        c = np.array(c, dtype=float)
        if self.kind == 'split':
            return c[:1] @ self.y + c[1:] @ self.z
        if self.kind == 'mat':
            return c @ self.x[:, 0]
        return c @ self.x

    def entry(self, j):
        """Scalar expression of entry j (1-based)."""
        if self.kind == 'vec':
            return self.x[j - 1]
        if self.kind == 'mat':
            return self.x[j - 1, 0]
        return self.y[0] if j == 1 else self.z[j - 2]

    def whole(self):
        if self.kind == 'split':
            n = self.n
            P1 = np.zeros((n, 1))
            P1[0, 0] = 1.0
            P2 = np.vstack([np.zeros((1, n - 1)), np.eye(n - 1)])
            return P1 @ self.y + P2 @ self.z
        if self.kind == 'mat':
            return self.x[:, 0]
        return self.x

    def _sel(self, var, size, idx0, single_as_index, col):
        """Selection of the 0-based entries idx0 of `var` (of `size` entries): (expression, shape as written)."""
        k = len(idx0)
        if k == size:
            return var, ((size, 1) if col else (size,))
        if k == 1 and single_as_index:
            return var[idx0[0]], ((1,) if col else ())
        if all(idx0[i + 1] == idx0[i] + 1 for i in range(k - 1)):
            return var[idx0[0]:idx0[-1] + 1], ((k, 1) if col else (k,))
        if all(idx0[i + 1] == idx0[i] + 2 for i in range(k - 1)):
            return var[idx0[0]:idx0[-1] + 1:2], ((k, 1) if col else (k,))
        raise ValueError('no slice for entries %s' % (idx0,))

    def select(self, idx, single_as_index):
        """Parts of a bound statement: list of (expression, entries (1-based), shape as written)."""
        if self.kind != 'split':
            e, shp = self._sel(self.x, self.n, [j - 1 for j in idx], single_as_index, self.kind == 'mat')
            return [(e, list(idx), shp)]
        parts = []
        if 1 in idx:
            parts.append((self.y, [1], (1,)))
        rest = [j for j in idx if j > 1]
        if rest:
            e, shp = self._sel(self.z, self.n - 1, [j - 2 for j in rest], single_as_index, False)
            parts.append((e, rest, shp))
        return parts

    def get(self):
        if self.kind == 'split':
            return [float(v) for v in np.asarray(self.y.get()).reshape(-1)] + [float(v) for v in np.asarray(self.z.get()).reshape(-1)]
        return [float(v) for v in np.asarray(self.x.get()).reshape(-1)]


def build(job, phase):
    import rsome as rso
    from rsome import ro, lp
    d = job['decl']
    var = job['variant']
    n = job['n']
    phase[0] = 'build'
    m = ro.Model() if d['front'] == 'ro' else lp.Model()
    lay = Layout(m, n, var['layout'])

    def objective():
        (m.min if d['sense'] == 'min' else m.max)(lay.obj(d['obj']))
    if var['obj_first']:
        objective()
    objs = []      # per statement of hist: list of dict(obj, entries / rows, shape)
    for s in job['hist']:
        parts = []
        if s['kind'] == 'lin':
            e, b = lay.rows(s['rows']), lay.rhs(s['rhs'])
            c = m.st(e <= b if s['sense'] == 'le' else e >= b if s['sense'] == 'ge' else e == b)
            parts.append(dict(obj=c, shape=lay.lin_shape(len(s['rows']))))
        elif s['kind'] == 'bnd':
            for e, entries, shp in lay.select(s['idx'], var['single_as_index']):
                v = float(s['rhs'][0])
                if var['bndform'] == 'array' and shp != ():
                    v = np.full(shp, v)
                c = m.st(e >= v if s['sense'] == 'lb' else e <= v)
                parts.append(dict(obj=c, shape=shp, entries=entries))
        elif s['kind'] == 'aux':
            k = float(s['rhs'][0])
            if s['sense'] == 'abs':
                c = m.st(abs(lay.entry(s['idx'][0])) <= k)
            elif s['sense'] == 'norm1':
                c = m.st(rso.norm(lay.whole(), 1) <= k)
            else:
                c = m.st(rso.norm(lay.whole(), 'inf') <= k)
            parts.append(dict(obj=c, shape=None))
        elif s['kind'] == 'domath':
            phase[0] = 'do_math'
            m.do_math()
            phase[0] = 'build'
        else:
            raise ValueError('unknown statement kind %r' % (s['kind'],))
        objs.append(parts)
    if not var['obj_first']:
        objective()
    return m, lay, objs


def read_duals(job, objs, phase):
    """dual() of every user LinConstr / Bounds object: per statement a list of parts (plain data)."""
    out = []
    for s, parts in zip(job['hist'], objs):
        if s['kind'] not in ('lin', 'bnd'):
            out.append(None)
            continue
        recs = []
        for p in parts:
            phase[0] = 'dual:' + s['kind']
            with warnings.catch_warnings(record=True) as w:
                warnings.simplefilter('always')
                v = p['obj'].dual()
            rec = dict(type=type(p['obj']).__name__, expected_shape=list(p['shape']), nwarn=len(w), entries=p.get('entries'))
            if v is None:
                rec.update(none=True)
            else:
                a = np.asarray(v, dtype=float)
                rec.update(none=False, shape=list(np.shape(v)), values=[float(t) for t in a.reshape(-1)],
                           pytype=type(v).__name__)
            recs.append(rec)
        out.append(recs)
    return out


def diagnostics(m, objs):
    """Optional internal projections (drift notes only)."""
    mm = getattr(m, 'rc_model', m)
    cia = getattr(mm, 'ciarray', None)
    try:
        cia = None if cia is None else [(-1 if v is None else int(v)) for v in list(cia)]
    except Exception:
        cia = None
    idx = []
    for parts in objs:
        if len(parts) == 1 and type(parts[0]['obj']).__name__ == 'LinConstr':
            v = getattr(parts[0]['obj'], 'index', None)
            idx.append(-1 if v is None else int(v))
        else:
            idx.append(-1)
    return dict(ciarray=cia, index=idx)


def _replay(job, phase):
    warnings.filterwarnings('ignore')
    var = job['variant']
    out = dict(tid=job['tid'], runs=[])
    shared = None
    for iface in var['ifaces']:
        if var['reuse']:
            if shared is None:
                shared = build(job, phase)
            m, lay, objs = shared
        else:
            m, lay, objs = build(job, phase)
        rec = dict(iface=iface)
        phase[0] = 'solve:' + iface
        try:
            m.solve(_solver(iface), display=False)
        except Exception as e:              # an interface raising on a feasible bounded LP: recorded (C11's business)
            rec.update(status='raised', exc='%s: %s' % (type(e).__name__, e))
            out['runs'].append(rec)
            continue
        s = m.solution
        if s is None or s.x is None or (isinstance(s.objval, float) and math.isnan(s.objval)):
            rec.update(status='fail', solver_status=str(getattr(s, 'status', None)))
            out['runs'].append(rec)
            continue
        phase[0] = 'get'
        rec.update(status='ok', objval=float(m.get()), x=lay.get(), has_y=s.y is not None)
        rec['duals'] = read_duals(job, objs, phase)
        # however often do_math runs on the solved model, dual() must keep returning the same values
        phase[0] = 'do_math-after-solve'
        m.do_math()
        again = read_duals(job, objs, phase)
        rec['stable'] = (again == rec['duals'])
        rec['diag'] = diagnostics(m, objs)
        out['runs'].append(rec)
    return out


def replay(job):
    import traceback
    phase = ['start']
    try:
        return _replay(job, phase)
    except Exception as e:
        tb = traceback.extract_tb(e.__traceback__)
        if not any('/rsome/' in fr.filename for fr in tb):
            raise
        return dict(tid=job['tid'], status='exception', phase=phase[0], exc='%s: %s' % (type(e).__name__, e),
                    where='%s:%d' % (tb[-1].filename, tb[-1].lineno))
