"""External tracer (no change to the repository): wraps the adaptation entry points of rsome.dro
from outside and records, at the return of every public call (also on the exception path), one event
with the arguments projected to abstract values and the cheap projected state afterwards.

Enabled only through install(); the checks call it inside worker processes, and
`pytest -p harness.tracer_plugin` installs it for the repository's own tests when RSOME_VERIF_TRACE=<file>
is set.  Events are grouped per dro model; traces() returns them in the format PartitionTrace.tla reads.
"""
import functools
import json
import os

import numpy as np

_models = {}        # id(dro model) -> dict(ns, events, vars: {id(DecVar): index}, sizes, vtypes, slices: {id: sid})
_order = []
_installed = [False]
_depth = [0]


def _rec(dm):
    r = _models.get(id(dm))
    if r is None:
        r = dict(ns=int(dm.num_scen), events=[], vars={}, sizes=[], vtypes=[], slices={}, keep=[dm], nslices=0)
        _models[id(dm)] = r
        _order.append(id(dm))
    return r


def _vindex(r, dv):
    k = r['vars'].get(id(dv))
    if k is None:
        k = len(r['sizes']) + 1
        r['vars'][id(dv)] = k
        r['sizes'].append(int(dv.size))
        r['vtypes'].append('C' if dv.vtype == 'C' else 'I')
        r['keep'].append(dv)
    return k


def _positions(dm, scens, ns):
    """Project the argument of evtadapt to scenario positions; unknown labels become ns."""
    from rsome.lp import Scen
    from numbers import Real
    events = scens.series if isinstance(scens, Scen) else scens
    try:
        events = [events] if isinstance(events, (str, Real)) else list(events)
    except TypeError:
        events = [events]
    out = []
    for e in events:
        try:
            out.append(int(dm.series_scen[e]))
        except Exception:
            out.append(ns)
    return out


def install():
    if _installed[0]:
        return
    _installed[0] = True
    from rsome import lp

    orig_evt = lp.DecVar.evtadapt
    orig_getitem = lp.DecVar.__getitem__
    orig_sub_aff = lp.DecVarSub.affadapt

    @functools.wraps(orig_evt)
    def evtadapt(self, scens):
        dm = self.dro_model
        r = _rec(dm)
        v = _vindex(r, self)
        try:
            E = _positions(dm, scens, r['ns'])
        except Exception:
            E = [r['ns']]
        out = 'ok'
        try:
            return orig_evt(self, scens)
        except Exception:
            out = 'err'
            raise
        finally:
            r['events'].append(dict(ev='adapt_events', v=v, E=E, out=out, ea=[[int(s) for s in b] for b in self.event_adapt]))

    @functools.wraps(orig_getitem)
    def getitem(self, item):
        res = orig_getitem(self, item)
        if _depth[0] == 0 and isinstance(res, lp.DecVarSub):
            r = _rec(self.dro_model)
            v = _vindex(r, self)
            r['nslices'] += 1
            r['slices'][id(res)] = r['nslices']
            r['keep'].append(res)
            idx = sorted(int(i) + 1 for i in np.array(res.indices).reshape(-1))
            r['events'].append(dict(ev='mk_slice', v=v, sid=r['nslices'], idx=idx, out='ok'))
        return res

    @functools.wraps(orig_sub_aff)
    def sub_affadapt(self, rvars):
        dm = self.dro_model
        r = _rec(dm)
        v = _vindex(r, self.dvars)
        sid = r['slices'].get(id(self), 0)
        idx = sorted(int(i) + 1 for i in np.array(self.indices).reshape(-1))
        try:
            comps = sorted(int(c) + 1 for c in np.array(rvars.get_ind()).reshape(-1))
        except Exception:
            comps = []
        out = 'ok'
        try:
            return orig_sub_aff(self, rvars)
        except Exception:
            out = 'err'
            raise
        finally:
            ra = self.dvars.rand_adapt
            mask = [[]] * int(self.dvars.size) if ra is None else [[int(c) + 1 for c in np.nonzero(row)[0]] for row in np.array(ra)]
            nr = int(dm.sup_model.vars[-1].last) if dm.sup_model.vars else 0
            r['events'].append(dict(ev='adapt_affine', v=v, sid=sid, idx=idx, comps=comps, out=out, mask=mask, nr=nr))

    def var_affadapt(self, rvars, _orig=lp.DecVar.affadapt):
        # x.adapt(z) == x[:].affadapt(z): the slice made on the way is not a user-held slice
        _depth[0] += 1
        try:
            return _orig(self, rvars)
        finally:
            _depth[0] -= 1

    from rsome import dro as _dro
    orig_rule = _dro.Model.rule_var

    @functools.wraps(orig_rule)
    def rule_var(self):
        # the formulation's column map, logged when it is (re)built: static[k][s][i] and slopes[k][s] = [[i, c, col]..]
        # for the traced variables k = 1.. in trace order
        fresh = self.var_ev_list is None
        out = orig_rule(self)
        r = _models.get(id(self))
        if fresh and r is not None and r['vars']:
            try:
                from harness import colmap
                cm = colmap.column_map(self, out)
                pos = {id(d): q for q, d in enumerate(self.dec_vars)}
                order = sorted(r['vars'].items(), key=lambda kv: kv[1])
                r['events'].append(dict(ev='rule_var', v=0, out='ok',
                                        static=[cm['static'][pos[i]] for i, _ in order],
                                        slopes=[cm['slopes'][pos[i]] for i, _ in order]))
            except Exception as e:   # projection failed: recorded, the suite reports it as a machinery problem
                r['events'].append(dict(ev='rule_var', v=0, out='unprojectable:%s' % type(e).__name__, static=[], slopes=[]))
        return out

    _dro.Model.rule_var = rule_var
    lp.DecVar.evtadapt = evtadapt
    lp.DecVar.__getitem__ = getitem
    lp.DecVarSub.affadapt = sub_affadapt
    lp.DecVar.affadapt = var_affadapt


def traces():
    """One trace per dro model that saw at least one adaptation event."""
    out = []
    for mid in _order:
        r = _models[mid]
        evs = [e for e in r['events']]
        if not any(e['ev'] not in ('mk_slice', 'rule_var') for e in evs):
            continue
        nr = max([e.get('nr', 0) for e in evs] + [1])
        out.append(dict(ns=r['ns'], sizes=list(r['sizes']), vtypes=list(r['vtypes']), nr=nr, nslices=r['nslices'], events=evs))
    return out


def reset():
    _models.clear()
    del _order[:]


def dump(path):
    with open(path, 'w') as f:
        json.dump(traces(), f)
