"""Oracle-side geometry for DroSem (C03/C04): lifted supports (auxiliary random variables) and non-polyhedral
probability sets.  Independent of rsome (numpy/scipy only).

* `enumerate_vr(A, b)`: vertices and extreme rays of {x : A x <= b} (brute force over active sets; tiny polyhedra).
* `lifted(kind, s, centres)`: (inner, outer) descriptions of the lifted support of scenario s (0-based), each a dict
  (A, b, verts, rays); inner is outer for polyhedral kinds; for the 2-norm kind inner/outer are inscribed /
  circumscribed polyhedral cones (inner subset true subset outer).
* `prob_polygon(kind, n)`: (inner vertices, outer vertices) of the KL / 2-norm probability sets (n <= 3).
* `selftest_*`: independent verification (membership, support function against an LP and against a dense sample
  drawn from the defining formulas, not from A, b); any failure raises AssertionError (= machinery error).
"""
import functools
import itertools
import math

import numpy as np

# ---------------------------------------------------------------------------------------------- catalogue
# must say the same as DroSem.tla (SuppMember / NU) and as build() in replay_drosem.py; the selftests and the
# TLC-atom conformance check in the suite tie the three together
LIFTED = {9: dict(nu=2, what='mean absolute deviation: z in c +- 1, |z - c| <= u componentwise'),
          10: dict(nu=1, what='Wasserstein 1-norm: z in [-3,3]^2, ||z - zhat_s||_1 <= u', box=3, norm=1),
          11: dict(nu=1, what='Wasserstein inf-norm: z in [-2,2]^2, ||z - zhat_s||_inf <= u <= 3', box=2, norm='inf', ucap=3),
          12: dict(nu=1, what='Wasserstein 2-norm: z in [-3,3]^2, ||z - zhat_s||_2 <= u', box=3, norm=2)}
KDIR = 48            # directions of the polyhedral approximations of the 2-norm cone

PROBSETS = {6: dict(type='kl', phat='uniform', r=0.131),
            7: dict(type='n2', phat='uniform', r=math.sqrt(200.0) / 60.0),
            8: dict(type='kl', phat='skew', r=0.1),
            9: dict(type='n2', phat='skew', r=0.2)}


def nu_of(kind):
    return LIFTED[kind]['nu'] if kind in LIFTED else 0


def phat_of(kind, n):
    if PROBSETS[kind]['phat'] == 'uniform' or n == 1:
        return np.ones(n) / n
    return np.array([15.0, 45.0]) / 60.0 if n == 2 else np.array([15.0, 30.0, 15.0]) / 60.0


# ---------------------------------------------------------------------------------------------- enumeration

def _dedupe(X, tol=1e-7):
    if len(X):
        _, first = np.unique(np.round(X, 6), axis=0, return_index=True)     # cheap pass: exact repeats (cone apex)
        X = X[np.sort(first)]
    out = []
    for x in X:
        if not any(np.max(np.abs(x - v)) < tol for v in out):
            out.append(x)
    return out


def enumerate_vr(A, b, tol=1e-9):
    """Vertices and extreme rays of P = {x : A x <= b} (P pointed, dimension d <= 4, a few dozen rows): every
    d-subset of rows gives a candidate vertex, every (d-1)-subset a candidate ray direction (batched linear algebra)."""
    A = np.asarray(A, dtype=float)
    b = np.asarray(b, dtype=float)
    m, d = A.shape
    comb = np.array(list(itertools.combinations(range(m), d)), dtype=int)
    M = A[comb]                                   # (N, d, d)
    det = np.linalg.det(M)
    ok = np.abs(det) > 1e-10
    X = np.linalg.solve(M[ok], b[comb[ok]][:, :, None])[:, :, 0]
    feas = np.all(X @ A.T <= b + tol, axis=1)
    verts = _dedupe(X[feas][np.lexsort(np.round(X[feas], 7).T[::-1])])
    rays = []
    if d >= 2:
        comb = np.array(list(itertools.combinations(range(m), d - 1)), dtype=int)
        M = A[comb]                               # (N, d-1, d)
        _, sv, vt = np.linalg.svd(M)
        ok = sv[:, d - 2] > 1e-10
        R = vt[ok][:, -1, :]
        R = np.concatenate([R, -R])
        feas = np.all(R @ A.T <= tol, axis=1)
        R = R[feas]
        R = R / np.max(np.abs(R), axis=1, keepdims=True)
        rays = _dedupe(R[np.lexsort(np.round(R, 7).T[::-1])])
    if not verts:
        raise AssertionError('enumerate_vr: no vertex (empty or not pointed)')
    return np.array(verts), (np.array(rays) if len(rays) else np.zeros((0, d)))


def _dirs(K, phase=0.0):
    th = phase + 2 * np.pi * np.arange(K) / K
    return np.stack([np.cos(th), np.sin(th)], axis=1)


def halfspaces(kind, s, centres):
    """(A, b) inner and outer of the lifted support of scenario s; variables (z1, z2, u...)."""
    c = np.asarray(centres[s], dtype=float)
    L = LIFTED[kind]
    rows, rhs = [], []

    def add(r, h):
        rows.append(np.asarray(r, dtype=float)); rhs.append(float(h))
    if kind == 9:
        for i in range(2):
            e = np.zeros(4); e[i] = 1.0
            add(e, c[i] + 1); add(-e, -(c[i] - 1))
            f = np.zeros(4); f[i] = 1.0; f[2 + i] = -1.0          # z_i - c_i <= u_i
            add(f, c[i])
            g = np.zeros(4); g[i] = -1.0; g[2 + i] = -1.0         # c_i - z_i <= u_i
            add(g, -c[i])
        return (np.array(rows), np.array(rhs)), None
    B = L['box']
    for i in range(2):
        e = np.zeros(3); e[i] = 1.0
        add(e, B); add(-e, B)
    if 'ucap' in L:
        add([0, 0, 1.0], L['ucap'])
    base_rows, base_rhs = list(rows), list(rhs)
    if L['norm'] == 1:
        for sg in itertools.product((1.0, -1.0), repeat=2):
            add([sg[0], sg[1], -1.0], sg[0] * c[0] + sg[1] * c[1])
        return (np.array(rows), np.array(rhs)), None
    if L['norm'] == 'inf':
        for i in range(2):
            for sg in (1.0, -1.0):
                r = np.zeros(3); r[i] = sg; r[2] = -1.0
                add(r, sg * c[i])
        return (np.array(rows), np.array(rhs)), None
    # 2-norm: u >= g.(z - c) for unit directions g (outer); inner: u >= g.(z - c) / cos(pi/K)
    D = _dirs(KDIR)
    outer_r, outer_h = list(base_rows), list(base_rhs)
    inner_r, inner_h = list(base_rows), list(base_rhs)
    sc = 1.0 / math.cos(math.pi / KDIR)
    for g in D:
        outer_r.append(np.array([g[0], g[1], -1.0])); outer_h.append(float(g @ c))
        inner_r.append(np.array([sc * g[0], sc * g[1], -1.0])); inner_h.append(float(sc * (g @ c)))
    return (np.array(inner_r), np.array(inner_h)), (np.array(outer_r), np.array(outer_h))


@functools.lru_cache(maxsize=None)
def _lifted_cached(kind, s, cen_key):
    centres = [list(c) for c in cen_key]
    inner, outer = halfspaces(kind, s, centres)
    out = []
    for hb in (inner, outer):
        if hb is None:
            out.append(None)
            continue
        V, R = enumerate_vr(hb[0], hb[1])
        out.append(dict(A=hb[0], b=hb[1], verts=V, rays=R))
    if out[1] is None:
        out[1] = out[0]
    return tuple(out)


def lifted(kind, s, centres):
    return _lifted_cached(kind, s, tuple(tuple(float(x) for x in c) for c in centres))


def true_member(kind, s, centres, pt, eps=1e-9):
    """Membership of pt in the DECLARED lifted support, from the defining formulas."""
    c = np.asarray(centres[s], dtype=float)
    pt = np.asarray(pt, dtype=float)
    z = pt[:2]
    if kind == 9:
        u = pt[2:4]
        return bool(np.all(np.abs(z - c) <= 1 + eps) and np.all(np.abs(z - c) <= u + eps))
    L = LIFTED[kind]
    u = pt[2]
    if np.any(np.abs(z) > L['box'] + eps):
        return False
    if 'ucap' in L and u > L['ucap'] + eps:
        return False
    d = z - c
    nv = {1: np.sum(np.abs(d)), 'inf': np.max(np.abs(d)), 2: math.sqrt(float(d @ d))}[L['norm']]
    return bool(nv <= u + eps)


def dense_sample(kind, s, centres, n=41):
    """Points of the declared support from its definition: z on a grid of the box, u = minimal value (+ slack)."""
    c = np.asarray(centres[s], dtype=float)
    pts = []
    if kind == 9:
        g = np.linspace(-1, 1, n)
        for a in g:
            for b_ in g:
                for t in (0.0, 0.7):
                    pts.append([c[0] + a, c[1] + b_, abs(a) + t, abs(b_) + 0.5 * t])
        return np.array(pts)
    L = LIFTED[kind]
    g = np.linspace(-L['box'], L['box'], n)
    # grid refined with the lines through the centre (kinks of the norms)
    g1 = np.unique(np.concatenate([g, [c[0]]])); g2 = np.unique(np.concatenate([g, [c[1]]]))
    for a in g1:
        for b_ in g2:
            d = np.array([a, b_]) - c
            nv = {1: np.sum(np.abs(d)), 'inf': np.max(np.abs(d)), 2: math.sqrt(float(d @ d))}[L['norm']]
            for t in (0.0, 0.6):
                u = nv + t
                if 'ucap' in L and u > L['ucap']:
                    continue
                pts.append([a, b_, u])
    return np.array(pts)


def selftest_lifted(kind, s, centres, rng):
    """Independent verification of the vertex / ray enumeration and of the half-space transcription."""
    from scipy.optimize import linprog
    inner, outer = lifted(kind, s, centres)
    exact = inner is outer
    S = dense_sample(kind, s, centres)
    assert len(S) > 100
    for pt in S[:: max(1, len(S) // 400)]:
        assert true_member(kind, s, centres, pt), ('dense sample point not a member', kind, s, pt)
    # every true point lies in the outer polyhedron; every inner vertex (and inner vertex + ray) is a true member
    assert np.all(S @ outer['A'].T <= outer['b'] + 1e-8), ('outer description cuts a member off', kind, s)
    for P in (inner, outer):
        assert np.all(P['verts'] @ P['A'].T <= P['b'] + 1e-7), ('vertex outside its own polyhedron', kind, s)
        assert np.all(P['rays'] @ P['A'].T <= 1e-8), ('ray leaves the polyhedron', kind, s)
    for v in inner['verts']:
        assert true_member(kind, s, centres, v, eps=1e-7), ('inner vertex not a member of the declared support', kind, s, v)
        for r in inner['rays']:
            assert true_member(kind, s, centres, v + 2.5 * r, eps=1e-7), ('inner vertex + ray not a member', kind, s, v, r)
    d = inner['A'].shape[1]
    for P in (inner, outer):
        for _ in range(12):
            g = rng.normal(size=d)
            if len(P['rays']) and np.max(P['rays'] @ g) > 1e-9:
                g[2:] = -np.abs(g[2:])                 # bounded direction
            hv = float(np.max(P['verts'] @ g))
            res = linprog(-g, A_ub=P['A'], b_ub=P['b'], bounds=[(None, None)] * d)
            assert res.status == 0, ('support LP failed', kind, s, res.status)
            assert abs(-res.fun - hv) <= 1e-6 * (1 + abs(hv)), ('support function: LP %.9g, vertices %.9g' % (-res.fun, hv), kind, s)
    for _ in range(12):
        g = rng.normal(size=d)
        g[2:] = -np.abs(g[2:])
        hs = float(np.max(S @ g))
        ho = float(np.max(outer['verts'] @ g))
        hi = float(np.max(inner['verts'] @ g))
        gn = float(np.linalg.norm(g))
        assert hs <= ho + 1e-7, ('dense sample beats the outer vertices', kind, s)
        if exact:
            # integer data: the grid contains every kink line, the box faces and the centre, hence every vertex
            assert abs(hs - hi) <= 1e-7, ('support function: dense sample %.9g, vertices %.9g' % (hs, hi), kind, s)
        else:
            assert hs >= hi - 0.35 * gn, ('inner vertices far beyond the dense sample', kind, s, hs, hi)
            assert ho - hi <= 0.05 * gn, ('sandwich too wide', kind, s, hi, ho)
    return dict(kind=kind, s=s, nverts=(len(inner['verts']), len(outer['verts'])), nrays=len(inner['rays']))


# ---------------------------------------------------------------------------------------------- probability sets

def _g(kind, p, phat):
    P = PROBSETS[kind]
    if P['type'] == 'kl':
        p = np.asarray(p, dtype=float)
        m = p > 0
        return float(np.sum(p[m] * np.log(p[m] / phat[m])))
    return float(np.sum((p - phat) ** 2))


def _level(kind):
    P = PROBSETS[kind]
    return P['r'] if P['type'] == 'kl' else P['r'] ** 2


def prob_member(kind, p, eps=0.0):
    p = np.asarray(p, dtype=float)
    n = len(p)
    return bool(np.all(p >= -1e-15) and abs(p.sum() - 1) < 1e-12 and _g(kind, np.maximum(p, 0), phat_of(kind, n)) <= _level(kind) + eps)


def _bisect(f, lo, hi):
    # f(lo) <= 0 < f(hi): largest t with f(t) <= 0
    for _ in range(200):
        mid = 0.5 * (lo + hi)
        if f(mid) <= 0:
            lo = mid
        else:
            hi = mid
    return lo


@functools.lru_cache(maxsize=None)
def prob_polygon(kind, n, K=240):
    """(inner, outer) vertex arrays (rows = probability vectors) of the probability set, n scenarios."""
    phat = phat_of(kind, n)
    lev = _level(kind)
    if n == 1:
        v = np.array([[1.0]])
        return v, v
    if n == 2:
        ends = []
        for d in (np.array([1.0, -1.0]), np.array([-1.0, 1.0])):
            tmax = min(phat[i] / -d[i] for i in range(2) if d[i] < 0)
            f = lambda t: _g(kind, np.maximum(phat + t * d, 0), phat) - lev
            t = tmax if f(tmax) <= 0 else _bisect(f, 0.0, tmax)
            ends.append(phat + t * d)
        v = np.array(ends)
        # bisection to 1e-16 of the end points: inner and outer coincide up to rounding; widen the outer one by 1e-12
        vo = np.array([np.clip(phat + (1 + 1e-12) * (e - phat) + 0.0, 0, 1) for e in ends])
        vo = vo / vo.sum(axis=1, keepdims=True)
        return v, vo
    e1 = np.array([1.0, -1.0, 0.0]) / math.sqrt(2.0)
    e2 = np.array([1.0, 1.0, -2.0]) / math.sqrt(6.0)
    inner, A, b = [], [], []
    for k in range(K):
        th = 2 * math.pi * (k + 0.5) / K
        d = math.cos(th) * e1 + math.sin(th) * e2
        tmax = min(phat[i] / -d[i] for i in range(3) if d[i] < -1e-15)
        f = lambda t: _g(kind, np.maximum(phat + t * d, 0), phat) - lev
        if f(tmax) <= 0:
            inner.append(phat + tmax * d)
            continue
        t = _bisect(f, 0.0, tmax)
        pk = phat + t * d
        inner.append(pk)
        # tangent half-plane at a point slightly OUTSIDE (bisection returns a point inside): valid by convexity
        pk2 = phat + (t * (1 + 1e-12) + 1e-15) * d
        if PROBSETS[kind]['type'] == 'kl':
            grad = np.log(np.maximum(pk2, 1e-300) / phat) + 1.0
        else:
            grad = 2.0 * (pk2 - phat)
        # g(p) >= g(pk2) + grad.(p - pk2) and g(pk2) >= lev  =>  every member p has grad.(p - pk2) <= 0
        A.append([grad @ e1, grad @ e2]); b.append(float(grad @ (pk2 - phat)))
    for i in range(3):                       # p_i >= 0 in plane coordinates p = phat + a e1 + b e2
        A.append([-e1[i], -e2[i]]); b.append(float(phat[i]))
    A = np.array(A); b = np.array(b)
    V = _polygon_vertices(A, b)
    outer = phat + V[:, :1] * e1 + V[:, 1:2] * e2
    outer = np.maximum(outer, 0.0)
    return np.array(inner), outer


def _polygon_vertices(A, b, tol=1e-10):
    m = len(A)
    I, J = np.triu_indices(m, 1)
    det = A[I, 0] * A[J, 1] - A[I, 1] * A[J, 0]
    ok = np.abs(det) > 1e-12
    I, J, det = I[ok], J[ok], det[ok]
    x = (b[I] * A[J, 1] - A[I, 1] * b[J]) / det
    y = (A[I, 0] * b[J] - b[I] * A[J, 0]) / det
    P = np.stack([x, y], axis=1)
    feas = np.all(P @ A.T <= b + tol, axis=1)
    P = P[feas]
    if not len(P):
        raise AssertionError('probability polygon: no vertex')
    P = np.unique(np.round(P, 12), axis=0)
    return P


def selftest_prob(kind, n, rng, pverts=None):
    inner, outer = prob_polygon(kind, n)
    phat = phat_of(kind, n)
    lev = _level(kind)
    for p in inner:
        assert prob_member(kind, p, eps=1e-12), ('inner polygon vertex is not a member', kind, n, p)
    for p in outer:
        assert abs(p.sum() - 1) < 1e-9 and np.all(p >= -1e-12)
        gv = _g(kind, np.maximum(p, 0), phat)
        # on the boundary or outside, and close (tightness of the sandwich)
        assert gv >= lev * (1 - 1e-6) - 1e-12 or np.min(p) < 1e-9, ('outer vertex strictly inside', kind, n, p, gv)
        assert gv <= lev * 1.002 + 1e-9, ('outer polygon too loose', kind, n, p, gv, lev)
    # random members (rejection sampling from the definition) lie inside the outer polygon: support functions
    mem = []
    while len(mem) < 300:
        p = rng.dirichlet(np.ones(n) * 3.0)
        p = phat + rng.uniform(0, 1) * (p - phat)
        if prob_member(kind, p):
            mem.append(p)
    mem = np.array(mem)
    for _ in range(20):
        g = rng.normal(size=n)
        assert np.max(mem @ g) <= np.max(outer @ g) + 1e-10, ('a member lies outside the outer polygon', kind, n)
        assert np.max(inner @ g) <= np.max(outer @ g) + 1e-10
        assert np.max(outer @ g) - np.max(inner @ g) <= 2e-3 * np.linalg.norm(g), ('probability sandwich too wide', kind, n)
    if pverts is not None:
        for w in pverts:
            assert prob_member(kind, np.asarray(w, dtype=float), eps=1e-9), ('TLC probability point is not a member of the declared set', kind, n, w)
    return dict(kind=kind, n=n, inner=len(inner), outer=len(outer))
