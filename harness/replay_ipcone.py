"""Spec -> code replay for IPCone.tla and LPSem.tla (property C07).

Job kinds (one job = one implementation case, run in a worker that imports rsome from VERIF_REPO):

  struct  : the tower TLC exported for a weight vector beta is compared with what the real
            IPCone(x, r, beta).to_soc() emits.  VERDICT is semantic and exact: the real cones are
            multiplied out (fractions) and must mean |x|^(2^k) <= prod r_i^beta_i * s^(2^k-sum beta),
            s >= |x|  (the ideal, from the user's beta).  A different tree with the same meaning, or a
            different aux flag, is 'drift' (the transcription no longer mirrors the code), not an alarm.
  value   : optimise one atom at a pinned rational argument (or a small free program with a closed
            form) and compare with the closed form; ECOS and Gurobi for SOC atoms, ECOS for exp cones.
  rat     : the same for the atoms whose value TLC computed exactly (quad PSD/NSD, sumsqr, square,
            norm 1/inf/2, abs).
  reform  : do_math(); st(row); do_math(); st(row); do_math(); solve - a re-formulation must return a
            well-formed program with the same columns and cones, one row more.
  milp    : a program exported by LPSem.tla is built through the API and solved with the default
            solver, OR-Tools and Gurobi; the reported optimum must be TLC's brute-force optimum.
"""
import math
from fractions import Fraction

TOL_LP = 1e-6
TOL_SOC = 1e-5
TOL_EXP = 5e-4
NONE = 99          # LPSem.None


# ------------------------------------------------------------------------------------------------
# solving

def _solver(name):
    if name == 'def':
        return None
    import importlib
    return importlib.import_module('rsome.%s_solver' % name)


def _solve(m, name):
    """-> ('ok', value) | ('nosol', status text) | ('unavailable', text).
    Exceptions raised by rsome while formulating / solving propagate (the caller decides)."""
    try:
        s = _solver(name)
    except Exception as e:        # solver package missing: reduced coverage, not a verdict
        return ('unavailable', '%s: %s' % (type(e).__name__, e))
    m.solve(s, display=False)
    try:
        return ('ok', float(m.get()))
    except RuntimeError as e:
        return ('nosol', str(e))


def _definite(status_text):
    """A 'no solution' outcome that is a certificate (infeasible / unbounded), not a numerical failure."""
    t = status_text.lower()
    if 'close to' in t or 'inacc' in t:
        return False
    if 'numerical' in t or 'maximum iterations' in t or 'iteration limit' in t:
        return False
    return ('infeasible' in t or 'unbounded' in t or 'status: 2' in t or 'status: 3' in t or 'status: 4' in t
            or 'status: 5' in t)


def _verdict(results, want, tol_rel, cls):
    """results: {solver: ('ok', v) | ('nosol', txt) | ('unavailable', txt) | ('exc', ...)}.
    -> (status, direction) with status in ok | violation | inconclusive."""
    tol = tol_rel * (1 + abs(want))
    vals = {s: r[1] for s, r in results.items() if r[0] == 'ok'}
    nosol = {s: r[1] for s, r in results.items() if r[0] == 'nosol'}
    able = [s for s, r in results.items() if r[0] in ('ok', 'nosol')]
    if not able:
        return 'skipped', ''
    devs = {s: v - want for s, v in vals.items()}
    bad = {s: d for s, d in devs.items() if abs(d) > tol}
    if not bad and not nosol:
        return 'ok', ''
    if nosol and not vals:
        # nobody produced an optimum although one exists
        if all(_definite(t) for t in nosol.values()):
            return 'violation', 'no-solution'
        return 'inconclusive', 'no-solution'
    if nosol and not bad:
        return 'inconclusive', 'no-solution-one-solver'
    # at least one numeric deviation
    signs = {1 if d > 0 else -1 for d in bad.values()}
    direction = 'high' if signs == {1} else 'low' if signs == {-1} else 'mixed'
    if len(able) >= 2:
        if len(bad) == len(able) and len(signs) == 1:
            return 'violation', direction            # every capable solver deviates the same way
        if len(bad) + len(nosol) == len(able) and len(signs) == 1 and all(_definite(t) for t in nosol.values()) \
                and all(abs(d) > 10 * tol for d in bad.values()):
            return 'violation', direction
        return 'inconclusive', direction
    d = next(iter(bad.values()))
    if abs(d) > 10 * tol:
        return 'violation', direction
    return 'inconclusive', direction


def _frac(p):
    return Fraction(p[0], p[1])


# ------------------------------------------------------------------------------------------------
# (a) structural translation validation + exact semantic decision

def _unit(aff_row_indices, aff_row_data, const):
    """sparse row -> column index if the row is exactly 1.0 * x_col + 0, else None"""
    nz = [(int(i), float(d)) for i, d in zip(aff_row_indices, aff_row_data) if d != 0]
    if len(nz) == 1 and nz[0][1] == 1.0 and float(const) == 0.0:
        return nz[0][0]
    return None


def _row(aff, i):
    import numpy as np
    lin = aff.linear.tocsr()
    r = lin[i]
    const = np.asarray(aff.const, dtype=float).reshape(-1)
    return {int(c): float(d) for c, d in zip(r.indices, r.data) if d != 0}, float(const[i] if const.size > 1 else const[0])


def _decode(con):
    """CvxConstr from to_soc() -> ('cone', left, u, v) for left^2 <= u*v, ('abs', big, small) for
    big >= |small|, or ('other', text)."""
    xt = getattr(con, 'xtype', None)
    try:
        if xt == 'E':
            if con.affine_in.linear.shape[0] != 2 or con.multiplier != 1:
                return ('other', 'E with %d inputs' % con.affine_in.linear.shape[0])
            d0, c0 = _row(con.affine_in, 0)       # (u - v)/2
            d1, c1 = _row(con.affine_in, 1)       # left
            do, co = _row(con.affine_out, 0)      # -(u + v)/2
            if c0 or c1 or co or len(d1) != 1 or list(d1.values()) != [1.0]:
                return ('other', 'E not of rotated-cone shape')
            left = next(iter(d1))
            cols = set(d0) | set(do)
            uu = {c: -do.get(c, 0.0) + d0.get(c, 0.0) for c in cols}     # u = -out + in0
            vv = {c: -do.get(c, 0.0) - d0.get(c, 0.0) for c in cols}     # v = -out - in0
            uu = {c: w for c, w in uu.items() if w}
            vv = {c: w for c, w in vv.items() if w}
            if len(uu) == 1 and len(vv) == 1 and list(uu.values()) == [1.0] and list(vv.values()) == [1.0]:
                return ('cone', left, next(iter(uu)), next(iter(vv)))
            return ('other', 'E right-hand sides not single variables')
        if xt == 'A':
            d1, c1 = _row(con.affine_in, 0)
            do, co = _row(con.affine_out, 0)
            if con.affine_in.linear.shape[0] == 1 and not c1 and not co and len(d1) == 1 and len(do) == 1 \
                    and list(d1.values()) == [1.0] and list(do.values()) == [-1.0] and con.multiplier == 1:
                return ('abs', next(iter(do)), next(iter(d1)))
            return ('other', 'A not of the form s >= |x|')
    except Exception as e:      # noqa - diagnostic decoding of internals
        return ('other', 'decode failed: %s' % type(e).__name__)
    return ('other', 'xtype %r' % xt)


def _expand(cones_by_left, leaves, x, w, root, depth=0):
    """multiply the tree out: weight vector (dict col -> Fraction) of x normalised to weight w"""
    if depth > 64:
        raise RecursionError('tower deeper than 64')
    if not root and x in leaves:
        return {x: w}
    cs = cones_by_left.get(x, [])
    if len(cs) != 1:
        return {('dangling' if not cs else 'multi', x): w}
    _, _, u, v = cs[0]
    out = {}
    for y in (u, v):
        for k, val in _expand(cones_by_left, leaves, y, w / 2, False, depth + 1).items():
            out[k] = out.get(k, 0) + val
    return out


def _struct(job):
    from rsome.lp import IPCone
    rec = job['rec']
    beta = rec['beta']
    n = len(beta)
    findings, drift, notes = [], [], []
    if job.get('front', 'ro') == 'ro':
        from rsome import ro
        m = ro.Model()
    else:
        from rsome import socp
        m = socp.Model()
    x = m.dvar()
    r = m.dvar(n)
    model = x.model
    xcol = int(x.first)
    rcols = [int(r.first) + i for i in range(n)]
    last0 = int(getattr(model, 'last', rcols[-1] + 1))
    cons = IPCone(x, r, list(beta)).to_soc()
    dec = [_decode(c) for c in cons]
    cones = [d for d in dec if d[0] == 'cone']
    abss = [d for d in dec if d[0] == 'abs']
    other = [d for d in dec if d[0] == 'other']
    branches = '+'.join(sorted({c['br'] for c in rec['cones']})) or 'single'
    total = sum(beta)
    k2 = 1
    while k2 < total:
        k2 *= 2
    key = ('struct', tuple(beta))

    # ---------------------------------------------------------------- semantic decision (exact)
    sem_ok = True
    why = ''
    if other:
        sem_ok, why = False, 'unrecognised constraint in the tower: %s' % (other[0][1],)
    elif n == 1:
        if cones or abss != [('abs', rcols[0], xcol)]:
            sem_ok, why = False, 'single weight: expected exactly r >= |x|'
    else:
        fresh = sorted({c for d in cones for c in d[1:]} | {c for d in abss for c in d[1:]})
        fresh = [c for c in fresh if c != xcol and c not in rcols]
        pad = k2 - total
        scol = None
        if pad > 0:
            if len(abss) != 1 or abss[0][2] != xcol or abss[0][1] in rcols or abss[0][1] == xcol:
                sem_ok, why = False, 'padding variable s >= |x| missing or malformed'
            else:
                scol = abss[0][1]
        elif abss:
            sem_ok, why = False, 'unexpected abs row without padding'
        if sem_ok:
            by_left = {}
            for d in cones:
                by_left.setdefault(d[1], []).append(d)
            root = scol if scol is not None else xcol
            leaves = set(rcols) | ({scol} if scol is not None else set())
            vec = _expand(by_left, leaves, root, Fraction(1), True)
            want = {rcols[i]: Fraction(beta[i], k2) for i in range(n)}
            if scol is not None:
                want[scol] = Fraction(pad, k2)
            if vec != want:
                sem_ok, why = False, 'exponents of the emitted tower differ from beta'
                notes.append('got %s want %s' % ({str(k): str(v) for k, v in vec.items()},
                                                 {str(k): str(v) for k, v in want.items()}))
            # every fresh variable other than s must be the left of exactly one cone and be used
            used = {}
            for d in cones:
                for c in d[2:]:
                    used[c] = used.get(c, 0) + 1
            for c in fresh:
                if c == scol:
                    continue
                if len(by_left.get(c, [])) != 1 or used.get(c, 0) != 1:
                    sem_ok, why = False, 'fresh variable %d is not defined by exactly one cone and used once' % c
    if not sem_ok:
        findings.append(dict(sig='C07:tower-meaning:%s' % branches, prop='C07', what=why, beta=beta,
                             emitted=[list(d) for d in dec], x=xcol, r=rcols, notes=notes[:2]))

    # ---------------------------------------------------------------- transcription (drift only)
    fresh_cols = sorted(c for c in ({c for d in cones for c in d[1:]} | {c for d in abss for c in d[1:]})
                        if c != xcol and c not in rcols)
    ren = {0: xcol}
    for i in range(n):
        ren[i + 1] = rcols[i]
    for j, c in enumerate(fresh_cols):
        ren[n + 1 + j] = c
    try:
        want_cones = [('cone', ren[c['left']], ren[c['u']], ren[c['v']]) for c in rec['cones']]
        want_abs = [('abs', ren[l['big']], ren[l['small']]) for l in rec['lin']]
    except KeyError:
        want_cones, want_abs = None, None
    if want_cones is None or [d for d in dec if d[0] == 'cone'] != want_cones or abss != want_abs:
        same_set = want_cones is not None and sorted(cones) == sorted(want_cones) and abss == want_abs
        drift.append(dict(kind='tower-order' if same_set else 'tower-structure', beta=beta,
                          want=want_cones, got=cones))
    auxs = getattr(model, 'auxs', None)
    uvars = getattr(model, 'vars', None)
    nonaux_real = None
    if auxs is not None and uvars is not None:
        aux_cols = {int(v.first) + i for v in auxs for i in range(int(v.size))}
        nonaux_real = len([c for c in fresh_cols if c not in aux_cols])
        if nonaux_real != rec['nonaux']:
            drift.append(dict(kind='aux-flags', beta=beta, spec_nonaux=rec['nonaux'], real_nonaux=nonaux_real))
    return dict(findings=findings, drift=drift, notes=notes, key=key, status='ok' if sem_ok else 'violation',
                branches=branches, nonaux_real=nonaux_real, ncones=len(cones))


# ------------------------------------------------------------------------------------------------
# atoms: construction and closed forms

def _atom_name(a):
    return {'G': 'pnorm-int', 'R': 'pnorm-rat', 'T': 'power', 'C': 'gmean'}.get(a['kind'], a['kind'])


def _tower_expr(rso, a, x):
    k = a['kind']
    if k == 'G':
        return rso.pnorm(x, int(a['a']))
    if k == 'R':
        return rso.pnorm(x, (int(a['a']), int(a['b'])))
    if k == 'T':
        return rso.power(x[0], int(a['a']), int(a['b']))
    if k == 'C':
        return rso.gmean(x, list(a['beta']))
    raise ValueError(k)


def _tower_value(a, arg):
    k = a['kind']
    if k in ('G', 'R'):
        p = a['a'] / a['b']
        return sum(abs(v) ** p for v in arg) ** (1.0 / p)
    if k == 'T':
        return abs(arg[0]) ** (a['a'] / a['b'])
    if k == 'C':
        s = float(sum(a['beta']))
        return math.exp(sum(b / s * math.log(v) for b, v in zip(a['beta'], arg)))
    raise ValueError(k)


EXP_ATOMS = {
    # name: (n, concave, builder(rso, x, np), closed form(arg))
    'exp': (1, False, lambda rso, x, np: rso.exp(x[0]), lambda a: math.exp(a[0])),
    'log': (1, True, lambda rso, x, np: rso.log(x[0]), lambda a: math.log(a[0])),
    'pexp': (1, False, lambda rso, x, np: rso.pexp(x[0], 2), lambda a: 2 * math.exp(a[0] / 2)),
    'plog': (1, True, lambda rso, x, np: rso.plog(x[0], 2), lambda a: 2 * math.log(a[0] / 2)),
    'entropy': (2, True, lambda rso, x, np: rso.entropy(x), lambda a: -sum(v * math.log(v) for v in a)),
    'softplus': (1, False, lambda rso, x, np: rso.softplus(x[0]), lambda a: math.log(1 + math.exp(a[0]))),
    'pnorm-exc': (2, False, lambda rso, x, np: rso.pnorm(x, 2.5), lambda a: sum(abs(v) ** 2.5 for v in a) ** 0.4),
    'pnorm-exc-ab': (2, False, lambda rso, x, np: rso.pnorm(x, (7, 3), method='exc'),
                     lambda a: sum(abs(v) ** (7 / 3) for v in a) ** (3 / 7)),
}


def _build_pinned(rso, ro, np, n, arg, k, concave, pos, mk):
    """min/max of k*atom(x) with x pinned to arg; pos 'con' through an epigraph row, 'obj' as objective"""
    m = ro.Model()
    x = m.dvar(n)
    t = m.dvar()
    m.st(x == np.array(arg, dtype=float))
    e = mk(x)
    if k != 1:
        e = k * e
    if pos == 'obj':
        (m.max if concave else m.min)(e)
    elif concave:
        m.max(t)
        m.st(e >= t)
    else:
        m.min(t)
        m.st(e <= t)
    return m, x, t


def _value(job):
    import numpy as np
    import rsome as rso
    from rsome import ro
    a = job['atom']
    fam = job['family']          # 'tower' | 'exp' | 'free' | 'kldiv'
    k = float(_frac(job['k']))
    pos = job['pos']
    arg = [float(_frac(p)) for p in job['arg']]
    findings, notes = [], []
    phase = job['_phase']
    if fam == 'tower':
        name = _atom_name(a)
        concave = a['kind'] == 'C'
        n = len(arg)
        want = k * _tower_value(a, arg)
        phase[0] = 'build'
        build = lambda: _build_pinned(rso, ro, np, n, arg, k, concave, pos, lambda x: _tower_expr(rso, a, x))[0]   # noqa
        solvers, tol, cls = ('eco', 'grb'), TOL_SOC, 'soc'
    elif fam == 'exp':
        name = a['name']
        n, concave, mk, cf = EXP_ATOMS[name]
        want = k * cf(arg)
        phase[0] = 'build'
        build = lambda: _build_pinned(rso, ro, np, n, arg, k, concave, pos, lambda x: mk(rso, x, np))[0]   # noqa
        solvers, tol, cls = ('eco',), TOL_EXP, 'exp'
    elif fam == 'kldiv':
        name = 'kldiv'
        phat = [float(_frac(p)) for p in job['phat']]
        want = sum(p * math.log(p / q) for p, q in zip(arg, phat))

        def build():
            m = ro.Model()
            p = m.dvar(len(arg))
            r = m.dvar()
            m.st(p == np.array(arg))
            m.min(r)
            m.st(rso.kldiv(p, np.array(phat), r))
            return m
        solvers, tol, cls = ('eco',), TOL_EXP, 'exp'
    elif fam == 'free':
        # small programs with free variables and a closed-form optimum
        name = _atom_name(a) + '-free'
        kind = a['kind']
        if kind in ('G', 'R'):
            # min k*||x||_p  s.t. c.x >= b   =  k*b/||c||_q,  1/p + 1/q = 1
            p = a['a'] / a['b']
            q = p / (p - 1)
            cvec = arg
            b = 2.0
            want = k * b / (sum(abs(v) ** q for v in cvec) ** (1 / q))

            def build():
                m = ro.Model()
                x = m.dvar(len(cvec))
                t = m.dvar()
                m.min(t)
                m.st(k * _tower_expr(rso, a, x) <= t)
                m.st(np.array(cvec) @ x >= b)
                return m
        elif kind == 'C':
            # max k*gmean(x, beta)  s.t. sum x <= 1  =  k*prod (beta_i/sum beta)^(beta_i/sum beta)
            s = float(sum(a['beta']))
            want = k * math.exp(sum(bi / s * math.log(bi / s) for bi in a['beta']))

            def build():
                m = ro.Model()
                x = m.dvar(len(a['beta']))
                t = m.dvar()
                m.max(t)
                m.st(k * _tower_expr(rso, a, x) >= t)
                m.st(x.sum() <= 1)
                return m
        elif kind == 'T':
            # min k*|x|^(p/q) + x  (strictly convex, minimiser -((q/(k p))^(q/(p-q))))
            pw = a['a'] / a['b']
            xs = -((1.0 / (k * pw)) ** (1.0 / (pw - 1)))
            want = k * abs(xs) ** pw + xs

            def build():
                m = ro.Model()
                x = m.dvar(1)
                t = m.dvar()
                m.min(t + x[0])
                m.st(k * _tower_expr(rso, a, x) <= t)
                return m
        else:
            raise ValueError(kind)
        solvers, tol, cls = ('eco', 'grb'), TOL_SOC, 'soc'
    else:
        raise ValueError(fam)

    results = {}
    for s in solvers:
        phase[0] = 'build'
        m = build()
        phase[0] = 'solve-' + s
        try:
            results[s] = _solve(m, s)
        except Exception as e:          # rsome / solver interface raised on a legal convex program
            if not _in_rsome(e):
                raise
            results[s] = ('exc', type(e).__name__, str(e)[:200], _where(e))
    status, direction = _verdict({s: r for s, r in results.items() if r[0] != 'exc'}, want, tol, cls)
    for s, r in results.items():
        if r[0] == 'exc':
            findings.append(dict(sig='C07:unexpected-exception:solve-%s:%s:%s' % (s, name, r[1]), prop='C07',
                                 what='rsome raised %s: %s' % (r[1], r[2]), where=r[3], job=_pub(job)))
            status = 'violation'
    if status == 'violation' and direction:
        findings.append(dict(sig='C07:atom-value:%s:%s:%s' % (name, pos, direction), prop='C07',
                             what='optimum of the atom differs from its closed form', want=want,
                             got={s: (r[1] if r[0] in ('ok', 'nosol') else r[0]) for s, r in results.items()},
                             tol=tol * (1 + abs(want)), job=_pub(job)))
    return dict(findings=findings, drift=[], notes=notes, key=('value', fam, name, _hk(job)), status=status,
                cls=cls, got={s: (r[1] if r[0] == 'ok' else r[0]) for s, r in results.items()}, want=want)


def _rat(job):
    """atoms whose value TLC computed exactly: value = num/den at arg = n/argden"""
    import numpy as np
    import rsome as rso
    from rsome import ro
    atom = job['atom']
    q = job['q']
    arg = [Fraction(v, job['argden']) for v in job['arg']]
    k = float(_frac(job['k']))
    pos = job['pos']
    exact = Fraction(job['num'], job['den'])
    phase = job['_phase']
    farg = [float(v) for v in arg]
    concave = atom == 'quadneg'
    Q = np.array([[q[0], q[1]], [q[1], q[2]]], dtype=float)
    mk = {
        'quad': lambda x: rso.quad(x, Q), 'quadneg': lambda x: rso.quad(x, Q),
        'sumsqr': lambda x: rso.sumsqr(x), 'square': lambda x: rso.square(x[0]),
        'norm1': lambda x: rso.norm(x, 1), 'norminf': lambda x: rso.norm(x, np.inf),
        'abs': lambda x: abs(x[0]), 'norm2sq': lambda x: rso.norm(x),
    }[atom]
    if atom == 'norm2sq':
        want = k * math.sqrt(float(exact))
        name = 'norm2'
    else:
        want = k * float(exact)
        name = {'quad': 'quad-psd', 'quadneg': 'quad-nsd'}.get(atom, atom)
    lp = atom in ('norm1', 'norminf', 'abs')
    solvers = ('def', 'eco', 'grb') if lp else ('eco', 'grb')
    tol = TOL_LP if lp else TOL_SOC
    results = {}
    findings = []
    for s in solvers:
        phase[0] = 'build'
        m = _build_pinned(rso, ro, np, 2, farg, k, concave, pos, mk)[0]
        phase[0] = 'solve-' + s
        try:
            results[s] = _solve(m, s)
        except Exception as e:
            if not _in_rsome(e):
                raise
            results[s] = ('exc', type(e).__name__, str(e)[:200], _where(e))
    status, direction = _verdict({s: r for s, r in results.items() if r[0] != 'exc'}, want, tol, 'lp' if lp else 'soc')
    for s, r in results.items():
        if r[0] == 'exc':
            findings.append(dict(sig='C07:unexpected-exception:solve-%s:%s:%s' % (s, name, r[1]), prop='C07',
                                 what='rsome raised %s: %s' % (r[1], r[2]), where=r[3], job=_pub(job)))
            status = 'violation'
    if status == 'violation' and direction:
        findings.append(dict(sig='C07:atom-value:%s:%s:%s' % (name, pos, direction), prop='C07',
                             what='optimum of the atom differs from the exact value computed by TLC', want=want,
                             exact='%d/%d' % (exact.numerator, exact.denominator),
                             got={s: (r[1] if r[0] in ('ok', 'nosol') else r[0]) for s, r in results.items()}, job=_pub(job)))
    return dict(findings=findings, drift=[], notes=[], key=('rat', name, tuple(q), tuple(job['arg']), tuple(job['k']), pos),
                status=status, cls='lp' if lp else 'soc', want=want,
                got={s: (r[1] if r[0] == 'ok' else r[0]) for s, r in results.items()})


# ------------------------------------------------------------------------------------------------
# (d) re-formulation

def _shape(f):
    return dict(rows=int(f.linear.shape[0]), cols=int(f.linear.shape[1]), vtype=len(f.vtype), ub=len(f.ub),
                lb=len(f.lb), obj=int(len(f.obj.reshape(-1))), cones=len(getattr(f, 'qmat', []) or []),
                exps=len(getattr(f, 'xmat', []) or []))


def _reform(job):
    import numpy as np
    import rsome as rso
    a = job['atom']
    front = job['front']
    fam = job['family']
    phase = job['_phase']
    arg = [float(_frac(p)) for p in job['arg']]
    findings, notes = [], []
    if fam == 'tower':
        name = _atom_name(a)
        concave = a['kind'] == 'C'
        want = _tower_value(a, arg)
        mk = lambda x: _tower_expr(rso, a, x)      # noqa
        cls, solvers, tol = 'soc', ('eco', 'grb'), TOL_SOC
        trigger = ('split-max-branch' if job.get('has_max') else 'no-max-branch')
    else:
        name = a['name']
        n_, concave, mk0, cf = EXP_ATOMS[name]
        want = cf(arg)
        mk = lambda x: mk0(rso, x, np)             # noqa
        cls, solvers, tol = 'exp', ('eco',), TOL_EXP
        trigger = 'gcp-' + name
    phase[0] = 'build'
    if front == 'ro':
        from rsome import ro
        m = ro.Model()
    elif front == 'socp':
        from rsome import socp
        m = socp.Model()
    else:
        from rsome import gcp
        m = gcp.Model()
    x = m.dvar(len(arg))
    t = m.dvar()
    m.st(x == np.array(arg))
    if concave:
        m.max(t)
        m.st(mk(x) >= t)
    else:
        m.min(t)
        m.st(mk(x) <= t)
    phase[0] = 'do_math-1'
    shapes = [_shape(m.do_math())]
    for i in (2, 3):
        m.st(t + x[0] >= -1000.0 * i)           # one more (slack) row, nothing else declared
        phase[0] = 'do_math-%d' % i
        shapes.append(_shape(m.do_math()))
    s0 = shapes[0]
    status = 'ok'
    for i, s in enumerate(shapes):
        if not (s['vtype'] == s['cols'] == s['ub'] == s['lb'] == s['obj']):
            findings.append(dict(sig='C07:reformulation:malformed-program:%s:%s' % (trigger, front), prop='C07',
                                 what='after re-formulation the vtype/bound vectors and the column count of the program differ',
                                 shapes=shapes, formulation=i + 1, job=_pub(job)))
            status = 'violation'
            break
    s2 = shapes[-1]
    if s2['cones'] != s0['cones'] or s2['exps'] != s0['exps']:
        findings.append(dict(sig='C09:reformulation:cones-duplicated:%s:%s' % (name, front), prop='C09',
                             what='re-formulation after adding a linear row changes the number of cones', shapes=shapes,
                             job=_pub(job)))
    elif s2['cols'] != s0['cols']:
        findings.append(dict(sig='C07:reformulation:columns-grow:%s:%s' % (trigger, front), prop='C07',
                             what='re-formulation after adding a linear row adds columns (variables allocated by the '
                                  'atom encoding are not auxiliary)', shapes=shapes, job=_pub(job)))
        status = 'violation'
    if s2['cones'] == s0['cones'] and s2['exps'] == s0['exps'] and s2['rows'] != s0['rows'] + 2:
        notes.append('rows %d -> %d after two added rows' % (s0['rows'], s2['rows']))
    # the re-formulated model must still solve to the closed form
    results = {}
    for s in solvers:
        phase[0] = 'resolve-' + s
        try:
            results[s] = _solve(m, s)
        except Exception as e:
            if not _in_rsome(e):
                raise
            results[s] = ('exc', type(e).__name__, str(e)[:200], _where(e))
            findings.append(dict(sig='C07:unexpected-exception:resolve-after-reformulation:%s:%s:%s' % (s, trigger, type(e).__name__),
                                 prop='C07', what='solve() of a re-formulated deterministic model raised %s: %s' % (type(e).__name__, str(e)[:160]),
                                 where=_where(e), shapes=shapes, job=_pub(job)))
            status = 'violation'
    vstat, direction = _verdict({s: r for s, r in results.items() if r[0] != 'exc'}, want, tol, cls)
    if vstat == 'violation':
        findings.append(dict(sig='C07:reformulation:optimum:%s:%s:%s' % (trigger, front, direction), prop='C07',
                             what='optimum after re-formulation differs from the closed form', want=want,
                             got={s: r[1] for s, r in results.items()}, shapes=shapes, job=_pub(job)))
        status = 'violation'
    elif vstat == 'inconclusive' and status == 'ok':
        status = 'inconclusive'
    return dict(findings=findings, drift=[], notes=notes, key=('reform', front, name, _hk(job)), status=status,
                shapes=shapes, grew=s2['cols'] - s0['cols'], cls=cls)


# ------------------------------------------------------------------------------------------------
# (c) MILP

def _brute(p, ignore_bin_bounds=False, drop_zero_rows=False):
    import itertools
    doms = []
    for t, l, u in zip(p['vt'], p['lb'], p['ub']):
        if t == 'B':
            lo, hi = 0, 1
            if not ignore_bin_bounds:
                if l != NONE:
                    lo = max(lo, l)
                if u != NONE:
                    hi = min(hi, u)
        else:
            lo, hi = l, u
        doms.append(range(lo, hi + 1))
    best = None
    for pt in itertools.product(*doms):
        ok = True
        for r in p['rows']:
            if drop_zero_rows and not any(r['a']):
                continue
            v = sum(ai * xi for ai, xi in zip(r['a'], pt))
            if (r['s'] == 'le' and v > r['r']) or (r['s'] == 'ge' and v < r['r']) or (r['s'] == 'eq' and v != r['r']):
                ok = False
                break
        if ok:
            v = sum(ci * xi for ci, xi in zip(p['c'], pt))
            if best is None or (v < best if p['sense'] == 'min' else v > best):
                best = v
    return best


def _build_milp(p, style):
    import numpy as np
    from rsome import ro
    m = ro.Model()
    n = len(p['vt'])
    if style % 2 == 0:
        xs = [m.dvar(vtype=t) for t in p['vt']]                      # scalar variables
    else:
        vt = p['vt'][0] if len(set(p['vt'])) == 1 else ''.join(p['vt'])
        arr = m.dvar(n, vtype=vt)                                    # one array, per-entry types
        xs = [arr[i] for i in range(n)]
    for x, l, u in zip(xs, p['lb'], p['ub']):
        if l != NONE:
            m.st(x >= l)
        if u != NONE:
            m.st(x <= u)

    def lin(coef):
        e = 0
        for ci, x in zip(coef, xs):
            e = e + ci * x
        return e
    if (style // 2) % 2 == 0:
        (m.min if p['sense'] == 'min' else m.max)(lin(p['c']))
    else:                                                            # objective through a continuous epigraph variable
        y = m.dvar()
        if p['sense'] == 'min':
            m.min(y)
            m.st(y >= lin(p['c']))
        else:
            m.max(y)
            m.st(y <= lin(p['c']))
    for r in p['rows']:
        e = lin(r['a'])
        m.st(e <= r['r'] if r['s'] == 'le' else e >= r['r'] if r['s'] == 'ge' else e == r['r'])
    return m


def _milp(job):
    p = job['rec']
    style = job['style']
    phase = job['_phase']
    grid = p['grid']
    feasible = grid['status'] == 'optimal'
    want = grid['opt']
    mine = _brute(p)
    if (mine is None) != (not feasible) or (feasible and mine != want):
        raise AssertionError('oracle self-check: python brute force %r vs TLC %r on %r' % (mine, grid, p))
    findings, notes = [], []
    outcomes = {}
    status = 'ok'
    zero_row = any(not any(r['a']) for r in p['rows'])
    for s in ('def', 'ort', 'grb'):
        phase[0] = 'build'
        m = _build_milp(p, style)
        phase[0] = 'solve-' + s
        try:
            res = _solve(m, s)
        except Exception as e:
            if not _in_rsome(e):
                raise
            outcomes[s] = 'exc:' + type(e).__name__
            findings.append(dict(sig='C07:unexpected-exception:milp-solve-%s:%s' % (s, type(e).__name__), prop='C07',
                                 what='solve() of a small mixed-integer program raised %s: %s' % (type(e).__name__, str(e)[:160]),
                                 where=_where(e), program=p, style=style))
            status = 'violation'
            continue
        if res[0] == 'unavailable':
            outcomes[s] = 'unavailable'
            continue
        got = res[1] if res[0] == 'ok' else None
        outcomes[s] = got
        good = (got is None and not feasible) or (got is not None and feasible and abs(got - want) <= TOL_LP * (1 + abs(want)))
        if good:
            continue
        status = 'violation'
        # name the trigger class
        trig = None
        if p['binbound'] and s == 'def':
            alt = _brute(p, ignore_bin_bounds=True)
            if (alt is None and got is None) or (alt is not None and got is not None and abs(alt - got) <= 1e-6):
                trig = 'binary-user-bound:default-solver'
        if trig is None and zero_row:
            alt = _brute(p, drop_zero_rows=True)
            if (alt is None and got is None) or (alt is not None and got is not None and abs(alt - got) <= 1e-6):
                trig = 'zero-row-ignored:%s' % s
        if trig is None:
            kind = ('spurious-solution' if not feasible else 'no-solution' if got is None else
                    'better-than-possible' if (got < want) == (p['sense'] == 'min') else 'worse-than-optimal')
            trig = '%s:%s' % (kind, s)
        findings.append(dict(sig='C07:milp-optimum:' + trig, prop='C07',
                             what='reported optimum of a small mixed-integer program differs from brute-force enumeration',
                             want=(want if feasible else 'infeasible'), got=(got if got is not None else 'no solution (%s)' % res[1][:80]),
                             solver=s, program=p, style=style))
    key = ('milp', tuple(p['vt']), tuple(p['lb']), tuple(p['ub']), p['sense'], tuple(p['c']),
           tuple((tuple(r['a']), r['s'], r['r']) for r in p['rows']), style)
    return dict(findings=findings, drift=[], notes=notes, key=key, status=status, outcomes=outcomes,
                feasible=feasible, binbound=p['binbound'], nrows=len(p['rows']), nv=len(p['vt']))


# ------------------------------------------------------------------------------------------------

def _hk(job):
    a = job.get('atom', {})
    return (a.get('kind', a.get('name')), a.get('a'), a.get('b'), tuple(a.get('beta', ()) or ()),
            tuple(tuple(p) for p in job.get('arg', ())), tuple(job.get('k', ())), job.get('pos'), job.get('front'))


def _pub(job):
    return {k: v for k, v in job.items() if not k.startswith('_')}


def _in_rsome(e):
    import traceback
    tb = traceback.extract_tb(e.__traceback__)
    return any('/rsome/' in fr.filename for fr in tb)


def _where(e):
    import traceback
    tb = traceback.extract_tb(e.__traceback__)
    lib = [fr for fr in tb if '/rsome/' in fr.filename]
    fr = lib[-1] if lib else tb[-1]
    return '%s:%d' % (fr.filename, fr.lineno)


KINDS = {'struct': _struct, 'value': _value, 'rat': _rat, 'reform': _reform, 'milp': _milp}


def replay(job):
    """Library exceptions where the property promises success are findings, not machinery errors."""
    phase = ['start']
    job = dict(job)
    job['_phase'] = phase
    try:
        out = KINDS[job['kind']](job)
        out['jobkind'] = job['kind']
        return out
    except Exception as e:
        if isinstance(e, AssertionError) or not _in_rsome(e):
            raise
        return dict(findings=[dict(sig='C07:unexpected-exception:%s-%s:%s' % (job['kind'], phase[0], type(e).__name__), prop='C07',
                                   what='rsome raised %r in phase %s of a legal deterministic model' % (e, phase[0]),
                                   where=_where(e), job=_pub(job))],
                    drift=[], notes=[], key=('exc', job['kind'], repr(sorted(_pub(job).items(), key=str))[:200]),
                    status='violation', jobkind=job['kind'])
