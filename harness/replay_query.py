"""Spec -> code replay for Query.tla (property C12): build each TLC-generated scene through the public
rsome API, solve it, run every query the specification lists for it and compare the result with the
IDEAL value the specification exports (integers: TLC computed them; convex atoms: TLC exports
K, C0, Cs of  K*f(a) + C0 + Cs*s  and this module owns only the closed form f).

A deviation is a finding.  Its signature names the trigger class: when the deviating value equals one
of the specification's named alternatives (Known_f: what the transcription of the unrepaired code
returns) the finding carries that alternative's signature, otherwise a generic one naming scene kind
and query class.  Exceptions raised by rsome where the property promises a value are findings;
exceptions of this module are machinery errors (propagate).
"""
import math
import copy
import traceback

import numpy as np

NAN = -99999
TOL = 1e-6          # LP tolerance (relative to 1+|v|); a violation needs 10x that
S_VAL = 0.75        # pinned value of the scalar offset variable s in atom scenes


# --------------------------------------------------------------------------------------------
# comparison helpers

def _want_array(form):
    a = np.array([float('nan') if v == NAN else v / form['den'] for v in form['flat']], dtype=float)
    return a.reshape(tuple(form['shape']))


def _close(got, want, tol=TOL):
    """'ok' | 'inconclusive' | 'bad' (shape, NaN pattern or value beyond 10x tolerance)."""
    try:
        g = np.asarray(got, dtype=float)
    except Exception:
        return 'bad'
    w = np.asarray(want, dtype=float)
    if g.shape != w.shape:
        return 'bad'
    if (np.isnan(g) != np.isnan(w)).any():
        return 'bad'
    m = ~np.isnan(w)
    if not m.any():
        return 'ok'
    d = np.abs(g[m] - w[m])
    scale = 1 + np.abs(w[m])
    if (d <= tol * scale).all():
        return 'ok'
    if (d <= 10 * tol * scale).all():
        return 'inconclusive'
    return 'bad'


def _deepcopy(val):
    """copy.deepcopy does not copy the objects held by an object-dtype pandas Series."""
    try:
        import pandas as pd
        if isinstance(val, pd.Series):
            return pd.Series([copy.deepcopy(v) for v in val], index=val.index.copy())
    except Exception:
        pass
    return copy.deepcopy(val)


def _clobber(val):
    """Overwrite a returned array in place (as callers do: w *= 100, w[w < eps] = 0). If the library handed out
    a view of its solution vector, every later query of the scene is wrong and is judged so."""
    try:
        import pandas as pd
        items = list(val) if isinstance(val, pd.Series) else [val]
    except Exception:
        items = [val]
    for a in items:
        if isinstance(a, np.ndarray) and a.ndim > 0 and a.flags.writeable and a.dtype.kind == 'f':
            a[...] = 12345.678


def _run(f):
    """Run a query; ('val', value) or ('exc', TypeName, message, raised_inside_rsome)."""
    try:
        val = f()
        keep = _deepcopy(val)
        _clobber(val)      # queries are pure: what a caller does to a returned array must not change later answers
        return ('val', keep)
    except Exception as e:   # noqa
        tb = traceback.extract_tb(e.__traceback__)
        in_lib = any('/rsome/' in fr.filename for fr in tb)
        where = ''
        for fr in reversed(tb):
            if '/rsome/' in fr.filename:
                where = 'rsome/%s:%d' % (fr.filename.split('/rsome/')[-1], fr.lineno)
                break
        return ('exc', type(e).__name__, str(e)[:160], in_lib, where)


def _show(res):
    if res[0] == 'exc':
        return 'raised %s: %s (%s)' % (res[1], res[2], res[4])
    v = res[1]
    try:
        import pandas as pd
        if isinstance(v, pd.Series):
            return {'series': {str(k): np.asarray(x, dtype=float).tolist() for k, x in v.items()}}
    except Exception:
        pass
    try:
        return np.asarray(v, dtype=float).tolist()
    except Exception:
        return repr(v)[:200]


class Ctx:
    """Collects the verdicts of one replayed scene."""

    def __init__(self, kind, scene_key, scene):
        self.kind = kind
        self.scene_key = scene_key
        self.scene = scene
        self.findings = []
        self.notes = []
        self.qkeys = []
        self.inconclusive = 0
        self.classes = {}

    def cls(self, c):
        self.classes[c] = self.classes.get(c, 0) + 1

    def finding(self, sig, what, qname, code, want, res, extra=None):
        d = dict(sig='C12:' + sig, prop='C12', what=what, kind=self.kind, scene=self.scene, query=qname, code=code,
                 want=want, got=_show(res))
        if extra:
            d.update(extra)
        self.findings.append(d)

    def result(self):
        return dict(findings=self.findings, notes=self.notes, qkeys=self.qkeys, inconclusive=self.inconclusive,
                    classes=self.classes, kind=self.kind)


def _judge(ctx, qname, code, res, want, alts, as_value, generic):
    """Compare one query result with the ideal form `want`; on deviation look for the named alternative.
    as_value(form) -> ('raise', Type) | ('val', comparator(got) -> 'ok'|'inconclusive'|'bad')."""
    ctx.qkeys.append(ctx.scene_key + '|' + qname)
    wv = as_value(want)
    if wv[0] == 'val' and res[0] == 'val':
        c = wv[1](res[1])
        if c == 'ok':
            ctx.cls('ok')
            return True
        if c == 'inconclusive':
            ctx.inconclusive += 1
            return True
    elif wv[0] == 'raise' and res[0] == 'exc' and res[1] == wv[1]:
        ctx.cls('ok-raise')
        return True
    # deviation: which named alternative explains it?
    for alt in alts:
        av = as_value(alt['form'])
        hit = (av[0] == 'raise' and res[0] == 'exc' and res[1] == av[1]) or \
              (av[0] == 'val' and res[0] == 'val' and av[1](res[1]) == 'ok')
        if hit:
            for sig in alt['sigs']:
                ctx.finding(sig, 'query result deviates from its meaning; equals the named alternative of the specification',
                            qname, code, want, res)
            ctx.cls('deviation-named')
            return False
    if res[0] == 'exc':
        ctx.finding('unexpected-exception:%s:%s' % (generic, res[1]),
                    'rsome raised where the property promises a value', qname, code, want, res, dict(where=res[4]))
    else:
        ctx.finding('%s:unexplained-value' % generic, 'query result deviates from its meaning', qname, code, want, res)
    ctx.cls('deviation-unnamed')
    return False


def _plain_value(form):
    if form['raises']:
        return ('raise', form['raises'])
    w = _want_array(form)
    return ('val', lambda got: _close(got, w))


# --------------------------------------------------------------------------------------------
# kind "vars"

def _pyitem(it):
    if it['t'] == 'i':
        return it['i']
    if it['t'] == 'l':
        return list(it['l'])
    a = None if it['a'] == 99 else it['a']
    b = None if it['b'] == 99 else it['b']
    return slice(a, b, it['st'])


def _pyindex(sel):
    items = [_pyitem(it) for it in sel['items']]
    return items[0] if len(items) == 1 else tuple(items)


def _idx_text(sel):
    def one(it):
        if it['t'] == 'i':
            return str(it['i'])
        if it['t'] == 'l':
            return str(list(it['l']))
        a = '' if it['a'] == 99 else str(it['a'])
        b = '' if it['b'] == 99 else str(it['b'])
        return '%s:%s' % (a, b) + ('' if it['st'] == 1 else ':%d' % it['st'])
    return '[' + ', '.join(one(it) for it in sel['items']) + ']'


def _oracle_selfcheck(rec):
    """TLC's index arithmetic must agree with NumPy on the ghost arrays (machinery, not a verdict)."""
    for qr in rec['queries']:
        q = qr['q']
        if q['q'] not in ('get', 'call', 'lin'):
            continue
        p = q['var'] - 1
        V = np.array(rec['vals'][p], dtype=float).reshape(tuple(rec['dims'][p]))
        sub = V if q['sel']['name'] == 'whole' else V[_pyindex(q['sel'])]
        exp = sub if q['q'] != 'lin' else (q['k2'] / 2.0) * sub + q['c']
        w = _want_array(qr['want'])
        if np.shape(exp) != w.shape or not np.array_equal(np.asarray(exp, dtype=float), w):
            raise AssertionError('Query.tla selector semantics disagree with NumPy: %r want %r numpy %r' % (q, w.tolist(), np.asarray(exp).tolist()))


def _replay_vars(rec):
    from rsome import ro, dro
    sc = rec['scene']
    fe = sc['fe']
    _oracle_selfcheck(rec)
    skey = 'vars|%s|%s|%s|%d' % (fe, '-'.join(map(str, sc['shapes'])), sc['sense'], sc['w'])
    ctx = Ctx('vars', skey, sc)
    m = ro.Model() if fe == 'ro' else dro.Model()
    if fe == 'dro':
        z = m.rvar()
        fs = m.ambiguity()
        fs.suppset(z <= 1, z >= -1)
    xs = [m.dvar(tuple(d)) if d else m.dvar() for d in rec['dims']]
    obj = sc['w'] * (xs[0].sum() if rec['dims'][0] else xs[0])
    if fe == 'ro':
        (m.min if sc['sense'] == 'min' else m.max)(obj)
    else:
        (m.minsup if sc['sense'] == 'min' else m.maxinf)(obj, fs)
    for x, d, v in zip(xs, rec['dims'], rec['vals']):
        m.st(x == (np.array(v, dtype=float).reshape(tuple(d)) if d else float(v[0])))
    m.solve(display=False)
    for p, x in enumerate(xs):     # optional internal projection: column offsets (drift only)
        f = getattr(x, 'first', None)
        if fe == 'ro' and f is not None and f != rec['first'][p]:
            ctx.notes.append('drift: Vars.first of array %d is %r, transcription has %r' % (p + 1, f, rec['first'][p]))
            break
    A = np.array(rec['amat'], dtype=float)
    for qr in rec['queries']:
        q = qr['q']
        kind = q['q']
        if kind == 'obj':
            res = _run(m.get)
            _judge(ctx, 'obj', 'model.get()', res, qr['want'], qr['alts'], _plain_value, 'model-get:%s:%s' % (fe, sc['sense']))
            continue
        x = xs[q['var'] - 1]
        whole = q['sel']['name'] == 'whole'
        it = '' if whole else _idx_text(q['sel'])
        idx = None if whole else _pyindex(q['sel'])
        sub = (lambda x=x, idx=idx, whole=whole: x if whole else x[idx])
        if kind == 'get':
            res, code = _run(lambda: sub().get()), 'x%s.get()' % it
        elif kind == 'call':
            res, code = _run(lambda: sub()()), 'x%s()' % it
        elif kind == 'lin':
            k = q['k2'] / 2.0
            res, code = _run(lambda: (k * sub() + q['c'])()), '(%g*x%s + %d)()' % (k, it, q['c'])
        elif kind == 'mat':
            n0 = rec['dims'][q['var'] - 1][0]
            res, code = _run(lambda: (A[:, :n0] @ x)()), '(A @ x)()'
        else:
            raise ValueError(kind)
        generic = 'var-%s:%s:%s' % (kind, fe, 'whole' if whole else 'slice')
        _judge(ctx, '%s:%d:%s:%d' % (kind, q['var'], q['sel']['name'], q['k2']), code + '  # x%s, shape %s' % (q['var'], tuple(rec['dims'][q['var'] - 1])),
               res, qr['want'], qr['alts'], _plain_value, generic)
    return ctx.result()


# --------------------------------------------------------------------------------------------
# kind "ldr"

def _ysub(y, ys):
    if ys['form'] == 'all':
        return y
    if ys['form'] == 'int':
        return y[ys['idx'][0]]
    if ys['form'] == 'list':
        return y[list(ys['idx'])]
    return y[ys['idx'][0]:ys['idx'][-1] + 1]


def _rsub(zs, rs):
    z = zs[rs['rv'] - 1]
    if rs['form'] == 'whole':
        return z
    if rs['form'] == 'int':
        return z[rs['comps'][0]]
    if rs['form'] == 'list':
        return z[list(rs['comps'])]
    return z[rs['comps'][0]:rs['comps'][-1] + 1]


def _sel_text(name, form, idx):
    if form in ('all', 'whole'):
        return name
    if form == 'int':
        return '%s[%d]' % (name, idx[0])
    if form == 'list':
        return '%s[%s]' % (name, list(idx))
    return '%s[%d:%d]' % (name, idx[0], idx[-1] + 1)


def _hist_text_ldr(hist):
    return '; '.join('%s.adapt(%s)' % (_sel_text('y', st['ysel']['form'], st['ysel']['idx']),
                                      _sel_text('z%d' % st['rsel']['rv'], st['rsel']['form'], st['rsel']['comps'])) for st in hist)


def _replay_ldr(rec):
    from rsome import ro
    n1, n2, ny = rec['n1'], rec['n2'], rec['ny']
    hist = rec['hist']
    htxt = _hist_text_ldr(hist)
    skey = 'ldr|%d%d%d|%s|%s' % (n1, n2, ny, rec['scene']['osense'], htxt)
    ctx = Ctx('ldr', skey, dict(osense=rec['scene']['osense'], n1=n1, n2=n2, ny=ny, history=htxt))
    m = ro.Model()
    z1 = m.rvar(n1)
    z2 = m.rvar(n2) if n2 else None
    zs = [z1, z2]
    y = m.ldr(ny)
    for k, st in enumerate(hist):
        r = _run(lambda: _ysub(y, st['ysel']).adapt(_rsub(zs, st['rsel'])))
        ok = r[0] == 'val'
        if ok != st['ok']:
            ctx.findings.append(dict(sig='C13:ldr-adapt:' + ('redefinition-accepted' if ok else 'legal-adapt-raised:' + r[1]), prop='C13',
                                     what='outcome of DecRule.adapt differs from the declared-dependency semantics', history=htxt, step=k, got=_show(r)))
            return ctx.result()
    zc = [z1[k] for k in range(n1)] + [z2[k] for k in range(n2)]
    sets = [abs(z1) <= 1] + ([abs(z2) <= 1] if n2 else [])
    (m.minmax if rec['scene']['osense'] == 'minmax' else m.maxmin)(y.sum(), *sets)
    for i in range(ny):
        rhs = float(rec['d'][i])
        for k in range(n1 + n2):
            if rec['decl'][i][k]:
                rhs = rhs + float(rec['cmat'][i][k]) * zc[k]
        m.st(y[i] == rhs)
    m.solve(display=False)
    v1 = np.array(rec['v1'][:n1], dtype=float)
    v2 = np.array(rec['v2'][:n2], dtype=float)

    def args(mode):
        a1 = lambda: z1.assign(v1)     # noqa
        a2 = lambda: z2.assign(v2)     # noqa
        return {'both': lambda: [a1(), a2()], 'rev': lambda: [a2(), a1()], 'z1': lambda: [a1()],
                'z2': lambda: [a2()], 'none': lambda: []}[mode]()
    atext = {'both': 'z1.assign(v1), z2.assign(v2)', 'rev': 'z2.assign(v2), z1.assign(v1)', 'z1': 'z1.assign(v1)',
             'z2': 'z2.assign(v2)', 'none': ''}
    never = not any(any(r) for r in rec['decl'])
    tag = 'never-adapted' if never else 'adapted'
    for qr in rec['queries']:
        q = qr['q']
        kind = q['q']
        if kind == 'get0':
            res, code = _run(lambda: y.get()), 'y.get()'
        elif kind == 'obj':
            res, code = _run(m.get), 'model.get()'
        elif kind == 'coef':
            g = q['g']
            res, code = _run(lambda: y.get(_rsub(zs, g))), 'y.get(%s)' % _sel_text('z%d' % g['rv'], g['form'], g['comps'])
        elif kind == 'rulecall':
            res, code = _run(lambda: y(*args(q['mode']))), 'y(%s)' % atext[q['mode']]
        elif kind == 'subcall':
            res, code = _run(lambda: y[q['i']](*args(q['mode']))), 'y[%d](%s)' % (q['i'], atext[q['mode']])
        elif kind == 'lincall':
            res, code = _run(lambda: (2 * y + 1)(*args(q['mode']))), '(2*y + 1)(%s)' % atext[q['mode']]
        else:
            raise ValueError(kind)
        g = q['g']
        qn = '%s:%s:%s:%s%s:%d' % (kind, q['mode'], g['rv'], g['form'], ''.join(map(str, g['comps'])), q['i'])
        _judge(ctx, qn, code + '  # after ' + (htxt or 'no adapt()'), res, qr['want'], qr['alts'], _plain_value,
               'ldr-%s:%s' % (kind, tag))
    ctx.cls('ldr-never-adapted' if never else 'ldr-adapted')
    if any(not st['ok'] for st in hist):
        ctx.cls('ldr-history-with-rejected-redefinition')
    return ctx.result()


# --------------------------------------------------------------------------------------------
# kind "call" (bi-affine expressions of ro)

def _replay_call(rec):
    from rsome import ro
    sc = rec['scene']
    t, mode = sc['tmpl'], sc['mode']
    skey = 'call|%d|%s|%d' % (t, mode, sc['vs'])
    ctx = Ctx('call', skey, sc)
    D = {k: np.array(v, dtype=float) for k, v in rec['data'].items()}
    m = ro.Model()
    x = m.dvar(2)
    z1 = m.rvar(2)
    z2 = m.rvar(2)
    tt = m.dvar()
    m.minmax(tt, abs(z1) <= 1, abs(z2) <= 1)
    m.st(tt >= 0, x == np.array(rec['x'], dtype=float))
    m.solve(display=False)

    def t2():
        return x * z1 + D['A2'] @ z2 - 1
    build = {
        1: (lambda: (D['a'] + D['A1'] @ z1 + D['A2'] @ z2) @ x + float(D['b']) + D['B1'] @ z1 + D['B2'] @ z2,
            '(a + A1@z1 + A2@z2)@x + b + B1@z1 + B2@z2'),
        2: (t2, 'x*z1 + A2@z2 - 1'),
        3: (lambda: (z1 @ D['A1']) @ x, '(z1@A1)@x'),
        4: (lambda: z1[0] * x + z2[1] * x[::-1] + z1, 'z1[0]*x + z2[1]*x[::-1] + z1'),
        5: (lambda: (2 * t2() + 1)[1], '(2*(x*z1 + A2@z2 - 1) + 1)[1]'),
        6: (lambda: t2().sum(), '(x*z1 + A2@z2 - 1).sum()'),
        7: (lambda: np.ones((2, 2)) * z1 * x, 'ones((2,2))*z1*x'),
    }[t]
    v1 = np.array(rec['v1'], dtype=float)
    v2 = np.array(rec['v2'], dtype=float)
    mk = {'both': (lambda: [z1.assign(v1), z2.assign(v2)], 'z1.assign(v1), z2.assign(v2)'),
          'rev': (lambda: [z2.assign(v2), z1.assign(v1)], 'z2.assign(v2), z1.assign(v1)'),
          'z1': (lambda: [z1.assign(v1)], 'z1.assign(v1)'), 'z2': (lambda: [z2.assign(v2)], 'z2.assign(v2)'),
          'none': (lambda: [], ''),
          'z1scalar': (lambda: [z1.assign(float(rec['scalar']))], 'z1.assign(%d)' % rec['scalar'])}[mode]
    qr = rec['queries'][0]
    res = _run(lambda: build[0]()(*mk[0]()))
    _judge(ctx, 'call', '(%s)(%s)  # x=%s v1=%s v2=%s' % (build[1], mk[1], rec['x'], rec['v1'], rec['v2']), res,
           qr['want'], qr['alts'], _plain_value, 'biaffine-call:ro:%s' % mode)
    ctx.cls('call-mode-' + mode)
    return ctx.result()


# --------------------------------------------------------------------------------------------
# kind "dro" (event-wise decisions, labelled scenarios)

def _labels(ns, kind):
    if kind == 'int':
        return None
    if kind == 'str':
        return ['s%d' % k for k in range(ns)]
    if kind == 'intperm':
        return [10 * (ns - k) for k in range(ns)]
    raise ValueError(kind)


def _series_value(labels, ns):
    def as_value(form):
        if form['raises']:
            return ('raise', form['raises'])
        shape = tuple(form['shape'])
        wants = [np.array([float('nan') if v == NAN else v / form['den'] for v in vs], dtype=float).reshape(shape) for vs in form['vals']]

        def cmp(got):
            import pandas as pd
            if form['series']:
                if not isinstance(got, pd.Series):
                    return 'bad'
                want_index = list(range(ns)) if labels is None else list(labels)
                if list(got.index) != want_index:
                    return 'bad'
                worst = 'ok'
                for k in range(ns):
                    c = _close(got.iloc[k], wants[k])
                    if c == 'bad':
                        return 'bad'
                    if c == 'inconclusive':
                        worst = c
                return worst
            if isinstance(got, pd.Series):
                return 'bad'
            return _close(got, wants[0])
        return ('val', cmp)
    return as_value


def _replay_dro(rec):
    from rsome import dro, E
    import rsome as rso
    ns = rec['ns']
    lk = rec['scene']['labels']
    labels = _labels(ns, lk)
    lab = (lambda p: p) if labels is None else (lambda p: labels[p])
    hist = [st['E'] for st in rec['hist']]
    htxt = '; '.join('adapt(%s)' % [lab(p) for p in Ev] for Ev in hist)
    skey = 'dro|%d|%s|%s' % (ns, lk, htxt)
    ctx = Ctx('dro', skey, dict(ns=ns, labels=lk, history=htxt, events=rec['ea'], zhat=rec['zhat']))
    m = dro.Model(ns) if labels is None else dro.Model(labels)
    z = m.rvar()
    u = m.rvar(2)
    x = m.dvar(2)
    w = m.dvar()
    y = m.dvar()
    for Ev in hist:
        arg = [lab(p) for p in Ev]
        arg = arg if len(arg) > 1 else arg[0]
        x.adapt(arg)
        y.adapt(arg)
    y.adapt(u[1])
    fs = m.ambiguity()
    for s in range(ns):
        fs[lab(s)].suppset(z == rec['zhat'][s], u <= 1, u >= -1)
    fs.probset(m.p == 1.0 / ns)
    m.minsup(E(x.sum()), fs)
    m.st(x[0] >= z, x[1] >= 2 * z, w == 5)
    m.st(y == x[0] + 3 * u[1])
    m.solve(display=False)
    V = np.array(rec['v'], dtype=float)
    Vs = np.array(rec['vs'], dtype=float)
    A = np.array([[1., -1.], [2., 1.]])
    Q = {
        'x.get': (lambda: x.get(), 'x.get()'),
        'x.call': (lambda: x(), 'x()'),
        'w.get': (lambda: w.get(), 'w.get()'),
        'w.call': (lambda: w(), 'w()'),
        'lin': (lambda: (2 * x + w)(), '(2*x + w)()'),
        'sublin': (lambda: (x[1] - 3)(), '(x[1] - 3)()'),
        'subget': (lambda: x[1].get(), 'x[1].get()'),
        'mat': (lambda: (A @ x)(), '([[1,-1],[2,1]] @ x)()'),
        'sum': (lambda: x.sum()(), 'x.sum()()'),
        'abs': (lambda: abs(x)(), 'abs(x)()'),
        'norm1': (lambda: (2 * rso.norm(x, 1) - w)(), '(2*norm(x,1) - w)()'),
        'square': (lambda: (-2 * rso.square(x) + w)(), '(-2*square(x) + w)()'),
        'norminf': (lambda: (rso.norm(x, 'inf') + x[0])(), "(norm(x,'inf') + x[0])()"),
        'bi.ev': (lambda: (x[0] * u + w)(u.assign(V)), '(x[0]*u + w)(u.assign(V))'),
        'bi.ev.sw': (lambda: (x[0] * u + w)(u.assign(Vs, sw=True)), '(x[0]*u + w)(u.assign(Vs, sw=True))'),
        'bi.st': (lambda: (w * u + x)(u.assign(V)), '(w*u + x)(u.assign(V))'),
        'bi.st.sw': (lambda: (w * u + x)(u.assign(Vs, sw=True)), '(w*u + x)(u.assign(Vs, sw=True))'),
        'bi.st.none': (lambda: (w * u + x)(), '(w*u + x)()'),
        'y.get': (lambda: y.get(), 'y.get()'),
        'y.coef': (lambda: y.get(u), 'y.get(u)'),
        'y.coef1': (lambda: y.get(u[1]), 'y.get(u[1])'),
        'y.call': (lambda: y(u.assign(V)), 'y(u.assign(V))'),
        'y.call.sw': (lambda: y(u.assign(Vs, sw=True)), 'y(u.assign(Vs, sw=True))'),
        'y.none': (lambda: y(), 'y()'),
        'ylin': (lambda: (2 * y + x[1])(u.assign(V)), '(2*y + x[1])(u.assign(V))'),
        'obj': (lambda: m.get(), 'model.get()'),
    }
    as_value = _series_value(labels, ns)
    multi = len(rec['ea']) > 1
    for qr in rec['queries']:
        qn = qr['q']
        f, code = Q[qn]
        res = _run(f)
        _judge(ctx, qn, code + '  # x, y event-wise after ' + (htxt or 'no adapt()') + '; y.adapt(u[1]); labels ' + lk, res,
               qr['want'], qr['alts'], as_value, 'dro-%s:%s' % (qn, 'event-wise' if multi else 'single-event'))
    ctx.cls('dro-event-wise' if multi else 'dro-single-event')
    ctx.cls('dro-labels-' + lk)
    return ctx.result()


# --------------------------------------------------------------------------------------------
# kind "atom": closed forms (the only mathematics this module owns)

QMAT = np.array([[2., 1., 0.], [1., 2., 0.], [0., 0., 1.]])
POINTS = {
    ('vec', 'pos'): np.array([0.5, 1.5, 2.0]), ('vec', 'mixed'): np.array([-1.5, 0.5, 2.0]),
    ('mat', 'pos'): np.array([[0.5, 1.5], [2.0, 0.25]]), ('mat', 'mixed'): np.array([[-1.5, 0.5], [2.0, 0.25]]),
    ('sca', 'pos'): np.array(0.75), ('sca', 'mixed'): np.array(-1.5),
}


def _rawpow(a, e):
    with np.errstate(invalid='ignore'):
        return np.power(np.asarray(a, dtype=float), e)     # nan for negative entries, as value_in ** (p/q)


def _pn(a, p):
    return float((np.abs(a) ** p).sum() ** (1.0 / p))


# atom id -> (API constructor(rso, x, s), definition f(a, s), text)
ATOMS = {
    'abs':        (lambda r, x, s: abs(x),               lambda a, s: np.abs(a),                  'abs(x)'),
    'norm1':      (lambda r, x, s: r.norm(x, 1),         lambda a, s: float(np.abs(a).sum()),     'norm(x, 1)'),
    'norm2':      (lambda r, x, s: r.norm(x),            lambda a, s: float(np.sqrt((a ** 2).sum())), 'norm(x)'),
    'norminf':    (lambda r, x, s: r.norm(x, 'inf'),     lambda a, s: float(np.abs(a).max()),     "norm(x, 'inf')"),
    'square':     (lambda r, x, s: r.square(x),          lambda a, s: a ** 2,                     'square(x)'),
    'square2d':   (lambda r, x, s: r.square(x),          lambda a, s: a ** 2,                     'square(X)'),
    'square0d':   (lambda r, x, s: r.square(x),          lambda a, s: a ** 2,                     'square(x0)'),
    'sumsqr':     (lambda r, x, s: r.sumsqr(x),          lambda a, s: float((a ** 2).sum()),      'sumsqr(x)'),
    'quad':       (lambda r, x, s: r.quad(x, QMAT),      lambda a, s: float(a @ QMAT @ a),        'quad(x, Q)'),
    'quadneg':    (lambda r, x, s: r.quad(x, -QMAT),     lambda a, s: float(-(a @ QMAT @ a)),     'quad(x, -Q)'),
    'pnorm3':     (lambda r, x, s: r.pnorm(x, 3),        lambda a, s: _pn(a, 3.0),                'pnorm(x, 3)'),
    'pnorm52':    (lambda r, x, s: r.pnorm(x, (5, 2)),   lambda a, s: _pn(a, 2.5),                'pnorm(x, (5, 2))'),
    'pnorm25exc': (lambda r, x, s: r.pnorm(x, 2.5),      lambda a, s: _pn(a, 2.5),                'pnorm(x, 2.5)'),
    'pnorm3exc':  (lambda r, x, s: r.pnorm(x, 3, 'exc'), lambda a, s: _pn(a, 3.0),                "pnorm(x, 3, 'exc')"),
    'power3':     (lambda r, x, s: r.power(x, 3),        lambda a, s: np.abs(a) ** 3.0,           'power(x, 3)'),
    'power32':    (lambda r, x, s: r.power(x, 3, 2),     lambda a, s: np.abs(a) ** 1.5,           'power(x, 3, 2)'),
    'power22':    (lambda r, x, s: r.power(x, 2, 2),     lambda a, s: np.abs(a),                  'power(x, 2, 2)'),
    'exp':        (lambda r, x, s: r.exp(x),             lambda a, s: np.exp(a),                  'exp(x)'),
    'exp2d':      (lambda r, x, s: r.exp(x),             lambda a, s: np.exp(a),                  'exp(X)'),
    'log':        (lambda r, x, s: r.log(x),             lambda a, s: np.log(a),                  'log(x)'),
    'entropy':    (lambda r, x, s: r.entropy(x),         lambda a, s: float(-(a * np.log(a)).sum()), 'entropy(x)'),
    'entropy0d':  (lambda r, x, s: r.entropy(x),         lambda a, s: float(-(a * np.log(a)).sum()), 'entropy(x0)'),
    'softplus':   (lambda r, x, s: r.softplus(x),        lambda a, s: np.log(1 + np.exp(a)),      'softplus(x)'),
    'pexp2':      (lambda r, x, s: r.pexp(x, 2.0),       lambda a, s: 2.0 * np.exp(a / 2.0),      'pexp(x, 2.0)'),
    'pexps':      (lambda r, x, s: r.pexp(x, s),         lambda a, s: s * np.exp(a / s),          'pexp(x, s)'),
    'plog2':      (lambda r, x, s: r.plog(x, 2.0),       lambda a, s: 2.0 * np.log(a / 2.0),      'plog(x, 2.0)'),
    'plogs':      (lambda r, x, s: r.plog(x, s),         lambda a, s: s * np.log(a / s),          'plog(x, s)'),
    'expsum':     (lambda r, x, s: r.exp(x).sum(),       lambda a, s: float(np.exp(a).sum()),     'exp(x).sum()'),
    'logsum':     (lambda r, x, s: r.log(x).sum(),       lambda a, s: float(np.log(a).sum()),     'log(x).sum()'),
    'gmean':      (lambda r, x, s: r.gmean(x),           lambda a, s: float(np.prod(a) ** (1.0 / a.size)), 'gmean(x)'),
}
# what the named alternatives of the specification evaluate instead of f
VARIANTS = {
    ('power3', 'noabs'): lambda a, s: a ** 3.0,
    ('power32', 'noabs'): lambda a, s: _rawpow(a, 1.5),
    ('pexp2', 'noscale'): lambda a, s: np.exp(a), ('pexps', 'noscale'): lambda a, s: np.exp(a),
    ('plog2', 'noscale'): lambda a, s: np.log(a), ('plogs', 'noscale'): lambda a, s: np.log(a),
    ('expsum', 'elementwise'): lambda a, s: np.exp(a), ('logsum', 'elementwise'): lambda a, s: np.log(a),
    ('square0d', 'flatshape'): lambda a, s: (a ** 2).reshape((1,)),
}


def _rat(r):
    return r[0] / r[1]


def _apply_chain(e, chain, s):
    for k, o in enumerate(chain):
        if o['op'] == 'mul':
            c = o['k2'] / 2.0
            e = c * e if k % 2 == 0 else e * c
        elif o['op'] == 'neg':
            e = -e
        elif o['op'] == 'addc':
            e = e + o['c'] if k % 2 == 0 else o['c'] + e
        elif o['op'] == 'adds':
            e = e + s
        elif o['op'] == 'rsubc':
            e = o['c'] - e
        else:
            raise ValueError(o['op'])
    return e


def _chain_text(base, chain):
    t = base
    for k, o in enumerate(chain):
        if o['op'] == 'mul':
            t = ('%g*(%s)' if k % 2 == 0 else '(%s)*%g') % ((o['k2'] / 2.0, t) if k % 2 == 0 else (t, o['k2'] / 2.0))
        elif o['op'] == 'neg':
            t = '-(%s)' % t
        elif o['op'] == 'addc':
            t = ('(%s) + %d' if k % 2 == 0 else '%d + (%s)') % ((t, o['c']) if k % 2 == 0 else (o['c'], t))
        elif o['op'] == 'adds':
            t = '(%s) + s' % t
        elif o['op'] == 'rsubc':
            t = '%d - (%s)' % (o['c'], t)
    return t


def _chain_key(chain):
    return '.'.join({'mul': 'm%d', 'neg': 'n', 'addc': 'a%d', 'adds': 's', 'rsubc': 'r%d'}[o['op']] %
                    (() if o['op'] in ('neg', 'adds') else ((o['k2'],) if o['op'] == 'mul' else (o['c'],))) for o in chain) or '-'


def _replay_atoms(job):
    """job: fe, atom, point, shp, recs=[export records sharing them]; one pinned LP, many calls."""
    from rsome import ro, dro
    import rsome as rso
    fe, atom, point, shp = job['fe'], job['atom'], job['point'], job['shp']
    a = POINTS[(shp, point)]
    ctx = Ctx('atom', 'atom|%s|%s|%s' % (fe, atom, point), dict(fe=fe, atom=atom, point=point, x=a.tolist(), s=S_VAL))
    m = ro.Model() if fe == 'ro' else dro.Model()
    x = m.dvar(a.shape) if a.shape else m.dvar()
    s = m.dvar()
    if fe == 'ro':
        m.min(s)
    else:
        z = m.rvar()
        fs = m.ambiguity()
        fs.suppset(z <= 1, z >= -1)
        m.minsup(s, fs)
    m.st(x == (a if a.shape else float(a)), s == S_VAL)
    m.solve(display=False)
    mk, f, text = ATOMS[atom]
    fa = f(a, S_VAL)

    def as_value(form):
        if form.get('fvar') == 'flatshape' and shp == 'mat':
            return ('raise', 'ValueError')
        g = fa if form['fvar'] == 'exact' else VARIANTS[(atom, form['fvar'])](a, S_VAL)
        want = _rat(form['K']) * np.asarray(g, dtype=float) + _rat(form['C0']) + _rat(form['Cs']) * S_VAL
        return ('val', lambda got: _close(got, want))
    for rec in job['recs']:
        chain = rec['scene']['chain']
        qr = rec['queries'][0]
        ctext = '(' + _chain_text(text, chain) + ')()'
        res = _run(lambda: _apply_chain(mk(rso, x, s), chain, s)())
        qn = _chain_key(chain)
        if rec['unsup']:
            # named gap: this front end cannot evaluate the atom and says so
            ctx.qkeys.append(ctx.scene_key + '|' + qn)
            if res[0] == 'exc' and res[1] == 'ValueError' and 'nsupported' in res[2]:
                ctx.cls('unsupported-raises')
                continue
            if res[0] == 'val' and as_value(qr['want'])[1](res[1]) == 'ok':
                ctx.notes.append('drift: %s front end now evaluates %s (support matrix of Query.tla out of date)' % (fe, atom))
                ctx.cls('unsupported-now-right')
                continue
            ctx.finding('atom-call:%s:%s:unsupported-atom-%s' % (atom, fe, 'wrong-value' if res[0] == 'val' else 'raises-' + res[1]),
                        'an atom the front end does not evaluate neither says "Unsupported" nor returns its value', qn, ctext, qr['want'], res)
            ctx.cls('deviation-unnamed')
            continue
        _judge(ctx, qn, ctext + '  # %s, %s = %s, s = %g' % (fe, {'vec': 'x', 'mat': 'X (2x2)', 'sca': 'x0 (scalar)'}[shp], a.tolist(), S_VAL), res, qr['want'], qr['alts'], as_value,
               'atom-call:%s:%s' % (atom, fe))
    ctx.cls('atom-' + fe)
    ctx.cls('atom-point-' + point)
    return ctx.result()


# --------------------------------------------------------------------------------------------

def _replay(job):
    kind = job['kind']
    if kind == 'atom':
        return _replay_atoms(job)
    rec = job['rec']
    return {'vars': _replay_vars, 'ldr': _replay_ldr, 'call': _replay_call, 'dro': _replay_dro}[kind](rec)


def replay(job):
    """Library exceptions while BUILDING or SOLVING a scene the property promises to work are findings;
    exceptions of this module are machinery errors."""
    try:
        return _replay(job)
    except Exception as e:
        tb = traceback.extract_tb(e.__traceback__)
        in_lib = any('/rsome/' in fr.filename for fr in tb)
        if not in_lib or isinstance(e, AssertionError):
            raise
        lib = [fr for fr in tb if '/rsome/' in fr.filename][-1]
        kind = job['kind']
        scene = job.get('rec', {}).get('scene') if kind != 'atom' else dict(fe=job['fe'], atom=job['atom'], point=job['point'])
        return dict(findings=[dict(sig='C12:unexpected-exception:build-or-solve:%s:%s' % (kind, type(e).__name__), prop='C12',
                                   what='rsome raised %r while building/solving a legal scene' % (e,), kind=kind, scene=scene,
                                   hist=job.get('rec', {}).get('hist'), where='rsome/%s:%d' % (lib.filename.split('/rsome/')[-1], lib.lineno))],
                    notes=[], qkeys=[], inconclusive=0, classes={'build-failed': 1}, kind=kind)
