"""Spec -> code replay for Curvature.tla (C10): every exported terminal state is built on the REAL
atoms of its class and handed to a real model.

Per state TLC exports
  * the chain of dunder calls (hist), the terminal (op, operand),
  * the IDEAL verdict from the ghost meaning (accept / reject, and for accepted uses the relation
    K*f(in) + c + t*T  REL  operand, all numbers dyadic, scaled by S),
  * what the TRANSCRIPTION of the code predicts (stage at which it raises, emitted <<multiplier, affine_out>>).

Deciding (observable) checks, against the IDEAL only:
  * reject  <=> an exception no later than st()/min()/max(); never a program from do_math();
  * accept  => do_math() compiles, and the optimum of a pinned model (x == a, T pushed against the relation)
               equals the closed-form value computed here in float from the atom's definition.
A deviation from the transcription that leaves the ideal intact is 'drift' (a note, never an alarm).
Internal attributes (multiplier, affine_out) are compared only as diagnostics.
"""
import math
import traceback

import numpy as np

TB = 200.0           # box of the free variable T in constraint tests
OB = 3.0             # box of T in objective tests
TOL = {'lp': 1e-6, 'soc': 1e-5, 'exp': 5e-4}

# the second pinned point of vector atoms, the scale of perspectives, the matrices of quad
A_SIGNED = (-1.5, 2.0)
A_POS = (0.5, 1.5)
SCALE = 2.0
Q_PSD = ((2.0, 0.5), (0.5, 1.0))
Q_NSD = ((-2.0, -0.5), (-0.5, -1.0))
PW_U = 1.5            # pinned argument of the piecewise atoms
ZS = (1.0, 3.0)       # scenario values of the random variable of E(maxof/minof)


def _pieces_vals(u):
    return [2 * u - 1.0, 0.5 - u, 0.75 * u - 1.0]


def _pieces_c_vals(u):
    return [2 * u - 1.0, 0.25]


def _epw_vals(u, z):
    return [u * z, 4.0 - u]


# name -> (class, cone, vector argument?, pinned point, f(a) native value of the documented atom)
ATOMS = {
    # cvx_lin : A M I E G
    'abs':       dict(cls='cvx_lin', cone='lp', vec=False, a=A_SIGNED, f=lambda a: abs(a[0])),
    'norm1':     dict(cls='cvx_lin', cone='lp', vec=True, a=A_SIGNED, f=lambda a: abs(a[0]) + abs(a[1])),
    'norminf':   dict(cls='cvx_lin', cone='lp', vec=True, a=A_SIGNED, f=lambda a: max(abs(a[0]), abs(a[1]))),
    'norm2':     dict(cls='cvx_lin', cone='soc', vec=True, a=A_SIGNED, f=lambda a: math.hypot(a[0], a[1])),
    'pnorm3':    dict(cls='cvx_lin', cone='soc', vec=True, a=A_SIGNED,
                      f=lambda a: (abs(a[0]) ** 3 + abs(a[1]) ** 3) ** (1 / 3.0)),
    # cvx_sq : S Q
    'square':    dict(cls='cvx_sq', cone='soc', vec=False, a=A_SIGNED, f=lambda a: a[0] ** 2),
    'sumsqr':    dict(cls='cvx_sq', cone='soc', vec=True, a=A_SIGNED, f=lambda a: a[0] ** 2 + a[1] ** 2),
    'quad_psd':  dict(cls='cvx_sq', cone='soc', vec=True, a=A_SIGNED,
                      f=lambda a: float(np.array(a) @ np.array(Q_PSD) @ np.array(a))),
    'quad_nsd':  dict(cls='ccv_sq', cone='soc', vec=True, a=A_SIGNED,
                      f=lambda a: float(np.array(a) @ np.array(Q_NSD) @ np.array(a))),
    # ccv_lin : C
    'gmean':     dict(cls='ccv_lin', cone='soc', vec=True, a=A_POS, f=lambda a: math.sqrt(a[0] * a[1])),
    # cvx_div : T N F
    'power3':    dict(cls='cvx_div', cone='soc', vec=False, a=A_SIGNED, f=lambda a: abs(a[0]) ** 3),
    'power32':   dict(cls='cvx_div', cone='soc', vec=False, a=A_SIGNED, f=lambda a: abs(a[0]) ** 1.5),
    'pnorm_exc': dict(cls='cvx_div', cone='exp', vec=True, a=A_SIGNED,
                      f=lambda a: (abs(a[0]) ** 2.5 + abs(a[1]) ** 2.5) ** (1 / 2.5)),
    'softplus':  dict(cls='cvx_div', cone='exp', vec=False, a=A_POS, f=lambda a: math.log(1 + math.exp(a[0]))),
    # ccv_div : P
    'entropy':   dict(cls='ccv_div', cone='exp', vec=True, a=A_POS,
                      f=lambda a: -(a[0] * math.log(a[0]) + a[1] * math.log(a[1]))),
    # X L (sum() defined)
    'exp':       dict(cls='cvx_div_sum', cone='exp', vec=False, a=A_POS, f=lambda a: math.exp(a[0]),
                      fi=lambda v: math.exp(v)),
    'log':       dict(cls='ccv_div_sum', cone='exp', vec=False, a=A_POS, f=lambda a: math.log(a[0]),
                      fi=lambda v: math.log(v)),
    # perspectives
    'pexp':      dict(cls='pcvx', cone='exp', vec=False, a=A_POS, f=lambda a: SCALE * math.exp(a[0] / SCALE),
                      fi=lambda v: SCALE * math.exp(v / SCALE)),
    'pexp_cs':   dict(cls='pcvx_cs', cone='exp', vec=False, a=A_POS, f=lambda a: SCALE * math.exp(a[0] / SCALE),
                      fi=lambda v: SCALE * math.exp(v / SCALE)),
    'plog':      dict(cls='pccv', cone='exp', vec=False, a=A_POS, f=lambda a: SCALE * math.log(a[0] / SCALE),
                      fi=lambda v: SCALE * math.log(v / SCALE)),
    'plog_cs':   dict(cls='pccv_cs', cone='exp', vec=False, a=A_POS, f=lambda a: SCALE * math.log(a[0] / SCALE),
                      fi=lambda v: SCALE * math.log(v / SCALE)),
    # piecewise
    'maxof':     dict(cls='pwmax', cone='lp', vec=False, a=(PW_U,), f=lambda a: max(_pieces_vals(a[0]))),
    'maxof_c':   dict(cls='pwmax_c', cone='lp', vec=False, a=(PW_U,), f=lambda a: max(_pieces_c_vals(a[0]))),
    'minof':     dict(cls='pwmin', cone='lp', vec=False, a=(PW_U,), f=lambda a: min(_pieces_vals(a[0]))),
    'minof_c':   dict(cls='pwmin_c', cone='lp', vec=False, a=(PW_U,), f=lambda a: min(_pieces_c_vals(a[0]))),
    'Emaxof':    dict(cls='epwmax', cone='lp', vec=False, a=(PW_U,),
                      f=lambda a: sum(0.5 * max(_epw_vals(a[0], z)) for z in ZS)),
    'Eminof':    dict(cls='epwmin', cone='lp', vec=False, a=(PW_U,),
                      f=lambda a: sum(0.5 * min(_epw_vals(a[0], z)) for z in ZS)),
}

# findings on these (atom, terminal kind) are the observable of a defect of another property:
# C06 defect 11 (objective of xtype 'N' is dropped by every do_math layer)
OTHER_PROPERTY = {('pnorm_exc', 'objective'): 'C06'}


def atoms_of(cls):
    return sorted(k for k, v in ATOMS.items() if v['cls'] == cls)


# ------------------------------------------------------------------------------------------------
def _scalar(k):
    n, d = k
    return int(n) if d == 1 else float(n) / d


def chain_sig(hist):
    out = []
    for h in hist:
        a = h['act']
        if a in ('MulL', 'MulR'):
            out.append('%s(%s)' % (a, ('%d' % h['k'][0]) if h['k'][1] == 1 else '%d/%d' % tuple(h['k'])))
        elif a in ('AddR', 'AddL', 'Sub', 'RSub'):
            out.append('%s(%s)' % (a, h['o']))
        else:
            out.append(a)
    return '.'.join(out) or 'plain'


def chain_class(hist):
    if not hist:
        return 'plain'
    if any(h['act'] == 'Sum' for h in hist):
        return 'sum'
    if any(h['act'] in ('MulL', 'MulR') and h['k'][0] == 0 for h in hist):
        return 'zero-scale'
    return 'chain'


def written(hist, op, o):
    """The program text, for reports."""
    e = 'f'
    for h in hist:
        a = h['act']
        if a == 'Neg':
            e = '(-%s)' % e
        elif a == 'MulL':
            e = '(%s*%s)' % (e, _scalar(h['k']))
        elif a == 'MulR':
            e = '(%s*%s)' % (_scalar(h['k']), e)
        elif a == 'AddR':
            e = '(%s + %s)' % (e, '1' if h['o'] == 'c' else 'T')
        elif a == 'AddL':
            e = '(%s + %s)' % ('1' if h['o'] == 'c' else 'T', e)
        elif a == 'Sub':
            e = '(%s - %s)' % (e, '1' if h['o'] == 'c' else 'T')
        elif a == 'RSub':
            e = '(%s - %s)' % ('1' if h['o'] == 'c' else 'T', e)
        elif a == 'Sum':
            e = '%s.sum()' % e
    w = '1' if o == 'c' else 'T'
    return {'LeR': '%s <= %s' % (e, w), 'GeR': '%s >= %s' % (e, w), 'LeL': '%s <= %s' % (w, e),
            'GeL': '%s >= %s' % (w, e), 'EqR': '%s == %s' % (e, w), 'EqL': '%s == %s' % (w, e),
            'AsMin': 'min %s' % e, 'AsMax': 'max %s' % e}[op]


class _Env:
    """One model with the pinned argument(s), the free variable T and the atom under test."""

    def __init__(self, fe, variant, atom, use_vec, parity=0):
        import rsome as rso
        from rsome import ro, dro
        self.fe, self.atom = fe, atom
        self.scale_offset = 0.0
        spec = ATOMS[atom]
        self.is_epw = spec['cls'] in ('epwmax', 'epwmin')
        if fe == 'ro':
            m = ro.Model()
        else:
            m = dro.Model(2)
        self.m = m
        a = spec['a']
        self.pins = []
        self.fset = None
        # every variable is declared before any expression is built
        piecewise = atom in ('maxof', 'minof', 'maxof_c', 'minof_c', 'Emaxof', 'Eminof')
        vec = (spec['vec'] or use_vec) and not piecewise
        x = m.dvar(2) if vec else m.dvar()
        s = m.dvar() if atom in ('pexp', 'plog') else None
        z = m.rvar() if self.is_epw else None
        self.t = m.dvar()
        self.args = [x] + ([s] if s is not None else [])
        if fe == 'dro' and variant == 'evt':
            for v in self.args:
                v.adapt(0)
        if piecewise:
            u = x
            self.pins.append(u == float(a[0]))
            if atom in ('maxof', 'minof'):
                pcs = [2 * u - 1.0, 0.5 - u, 0.75 * u - 1.0]
            elif atom in ('maxof_c', 'minof_c'):
                pcs = [2 * u - 1.0, 0.25]
            else:
                fs = m.ambiguity()
                for k in range(2):
                    fs[k].suppset(z == ZS[k])
                fs.probset(m.p == 0.5)
                self.fset = fs
                pcs = [u * z, 4.0 - u]
            self._pcs = pcs
        else:
            self.pins.append(x == (np.array(a, dtype=float) if vec else float(a[0])))
            if s is not None:
                # the scale is a VARIABLE pinned to SCALE, or (every other case) an affine expression s + 1/2 with s pinned
                # to SCALE - 1/2: the constant term of an affine scale must survive the front end's substitutions
                self.scale_offset = 0.5 if parity % 2 else 0.0
                self.pins.append(s == SCALE - self.scale_offset)
            self._arg = x

    def atom_expr(self):
        """The plain atom; part of the use under test (its exceptions are verdict material)."""
        import rsome as rso
        atom = self.atom
        if atom in ('maxof', 'minof', 'maxof_c', 'minof_c', 'Emaxof', 'Eminof'):
            pw = rso.maxof(*self._pcs) if 'max' in atom else rso.minof(*self._pcs)
            return rso.E(pw) if self.is_epw else pw
        return self._mk(rso, atom, self._arg)

    def _mk(self, rso, atom, x):
        if atom == 'abs':
            return abs(x)
        if atom == 'norm1':
            return rso.norm(x, 1)
        if atom == 'norminf':
            return rso.norm(x, np.inf)
        if atom == 'norm2':
            return rso.norm(x)
        if atom == 'pnorm3':
            return rso.pnorm(x, 3)
        if atom == 'square':
            return rso.square(x)
        if atom == 'sumsqr':
            return rso.sumsqr(x)
        if atom == 'quad_psd':
            return rso.quad(x, np.array(Q_PSD))
        if atom == 'quad_nsd':
            return rso.quad(x, np.array(Q_NSD))
        if atom == 'gmean':
            return rso.gmean(x)
        if atom == 'power3':
            return rso.power(x, 3)
        if atom == 'power32':
            return rso.power(x, 3, 2)
        if atom == 'pnorm_exc':
            return rso.pnorm(x, 2.5)
        if atom == 'softplus':
            return rso.softplus(x)
        if atom == 'entropy':
            return rso.entropy(x)
        if atom == 'exp':
            return rso.exp(x)
        if atom == 'log':
            return rso.log(x)
        if atom == 'pexp':
            return rso.pexp(x, self.args[1] + self.scale_offset if self.scale_offset else self.args[1])
        if atom == 'plog':
            return rso.plog(x, self.args[1] + self.scale_offset if self.scale_offset else self.args[1])
        if atom == 'pexp_cs':
            return rso.pexp(x, SCALE)
        if atom == 'plog_cs':
            return rso.plog(x, SCALE)
        raise ValueError(atom)

    def operand(self, o):
        return 1 if o == 'c' else self.t

    def apply_chain(self, hist):
        e = self.atom_expr()
        for h in hist:
            a = h['act']
            if a == 'Neg':
                e = -e
            elif a == 'MulL':
                e = e * _scalar(h['k'])
            elif a == 'MulR':
                e = _scalar(h['k']) * e
            elif a == 'AddR':
                e = e + self.operand(h['o'])
            elif a == 'AddL':
                e = self.operand(h['o']) + e
            elif a == 'Sub':
                e = e - self.operand(h['o'])
            elif a == 'RSub':
                e = self.operand(h['o']) - e
            elif a == 'Sum':
                e = e.sum()
            else:
                raise ValueError(a)
        return e

    def set_obj(self, sense, obj):
        m = self.m
        if self.fset is not None:
            (m.minsup if sense == 'min' else m.maxinf)(obj, self.fset)
        else:
            (m.min if sense == 'min' else m.max)(obj)

    def solver(self):
        from rsome import eco_solver
        return None if ATOMS[self.atom]['cone'] == 'lp' else eco_solver


def _lib_exc(e):
    tb = traceback.extract_tb(e.__traceback__)
    return any('/rsome/' in fr.filename for fr in tb), '%s:%d' % (tb[-1].filename, tb[-1].lineno)


def _f_value(atom, summed):
    spec = ATOMS[atom]
    if summed:
        return sum(spec['fi'](v) for v in spec['a'])
    return spec['f'](spec['a'])


def _decided_status(status):
    """True when the solver positively reports infeasible / unbounded (not iteration limits or numerical trouble)."""
    if isinstance(status, (int, np.integer)):
        return int(status) in (2, 3)                 # scipy / HiGHS
    return isinstance(status, str) and 'infeasible' in status.lower()   # ECOS: 'Primal infeasible', 'Dual infeasible'


def _diag(constr, rec, atom):
    """Optional structural comparison with the transcription: multiplier (squared for 'SQ')."""
    out = []
    try:
        mult = getattr(constr, 'multiplier', None)
        xt = getattr(constr, 'xtype', None)
        if mult is None or xt is None:
            return out
        S = rec['S']
        got = float(mult) ** 2 if xt in 'SQ' else float(mult)
        want = rec['code']['em']['m'] / S
        if abs(got - want) > 1e-9 * (1 + abs(want)):
            out.append(dict(kind='multiplier', want=want, got=got, xtype=xt))
    except Exception:      # diagnostics never decide
        pass
    return out


def _one(rec, atom, variant):
    """One implementation test.  Returns dict(stage, findings, drift, notes, ...)."""
    fe, fam, op, o, hist = rec['fe'], rec['fam'], rec['op'], rec['o'], rec['hist']
    S = float(rec['S'])
    summed = bool(rec['ghost']['sum'])
    use_vec = any(h['act'] == 'Sum' for h in hist)
    is_obj = op in ('AsMin', 'AsMax')
    is_eq = op in ('EqR', 'EqL')
    K, gc, gt = rec['ghost']['K'] / S, rec['ghost']['c'] / S, rec['ghost']['t'] / S
    Ccoef = K * rec['nat']
    dont_care = is_eq and Ccoef == 0
    accept = bool(rec['ideal']['accept'])
    text = written(hist, op, o)
    base = dict(fe=fe, variant=variant, family=fam, atom=atom, cls=rec['cls'], written=text, chain=chain_sig(hist),
                terminal=op, operand=o, ideal='accept' if accept else 'reject',
                transcription_stage=rec['code']['stage'], known=rec['known'])
    findings, drift, notes = [], [], []
    res = dict(findings=findings, drift=drift, notes=notes, solved=False, inconclusive=0, stage=None,
               accept=accept, dont_care=dont_care)

    import zlib
    env = _Env(fe, variant, atom, use_vec, parity=zlib.crc32(text.encode()))      # harness errors here are machinery errors
    m, t = env.m, env.t
    # -------------------------------------------------------------------------- build + hand over
    stage, exc, where = 'ok', None, None
    constr = None
    try:
        e = env.apply_chain(hist)
        if not is_obj:
            w = env.operand(o)
            constr = {'LeR': lambda: e <= w, 'GeR': lambda: e >= w, 'LeL': lambda: w <= e,
                      'GeL': lambda: w >= e, 'EqR': lambda: e == w, 'EqL': lambda: w == e}[op]()
    except Exception as ex:
        lib, where = _lib_exc(ex)
        if not lib:
            raise
        stage, exc = 'op', ex
    # expected value and direction
    fval = _f_value(atom, summed)
    if stage == 'ok' and not is_obj:
        rc, rt = (1.0, 0.0) if o == 'c' else (0.0, 1.0)
        ct = gt - rt
        c0 = K * fval + gc - rc
        le = op in ('LeR', 'GeL')
        if ct != 0:
            push_max = (le and ct > 0) or ((not le) and ct < 0)
            expect = -c0 / ct
        else:
            push_max, expect = True, None
        # objective and pins first: these must succeed
        env.set_obj('max' if push_max else 'min', t)
        m.st(env.pins)
        m.st(t <= TB, t >= -TB)
        try:
            m.st(constr)
        except Exception as ex:
            lib, where = _lib_exc(ex)
            if not lib:
                raise
            stage, exc = 'st', ex
    elif stage == 'ok':
        m.st(env.pins)
        m.st(t <= OB, t >= -OB)
        try:
            env.set_obj('min' if op == 'AsMin' else 'max', e)
        except Exception as ex:
            lib, where = _lib_exc(ex)
            if not lib:
                raise
            stage, exc = 'st', ex
        sgn = 1.0 if op == 'AsMin' else -1.0
        expect = K * fval + gc - sgn * OB * abs(gt)
    if stage == 'ok':
        try:
            m.do_math()
        except Exception as ex:
            lib, where = _lib_exc(ex)
            if not lib:
                raise
            stage, exc = 'math', ex
    res['stage'] = stage
    if exc is not None:
        base['exception'] = '%s: %s' % (type(exc).__name__, str(exc)[:120])
        base['raised_at'] = where
    if stage != rec['code']['stage']:
        drift.append(dict(kind='stage', want=rec['code']['stage'], got=stage, written=text, atom=atom, fe=fe))
    if stage == 'ok' and constr is not None:
        drift.extend(_diag(constr, rec, atom))

    kind = 'objective' if is_obj else op
    prop = 'C10'
    vprop = OTHER_PROPERTY.get((atom, 'objective' if is_obj else 'constraint'), 'C10')   # value findings only
    if dont_care:
        return res
    # -------------------------------------------------------------------------- verdicts (ideal)
    if not accept:
        if stage == 'ok':
            findings.append(dict(base, sig='C10:accepted-nonconvex:%s:%s:%s' % (fe, fam, kind), prop='C10',
                                 what='a non-convex use is accepted and do_math() returns a compiled program'))
        elif stage == 'math':
            if is_obj:
                sig = 'C10:late-reject:objective'
                what = 'wrong-curvature objective accepted by min()/max(), rejected only inside do_math()'
            else:
                sig = 'C10:late-reject:%s:%s:%s' % (fe, fam, kind)
                what = 'non-convex constraint accepted by the comparison and by st(), rejected only inside do_math()'
            findings.append(dict(base, sig=sig, prop='C10', what=what))
        return res
    if stage in ('op', 'st'):
        plain = not hist
        item = dict(base, sig='C10:rejected-convex:%s:%s:%s%s' % (fe, fam, kind, '' if plain else ':' + chain_class(hist)),
                    prop=prop, what='a convex use is rejected (%s)' % base.get('exception'))
        if plain:
            item['sig'] = 'C10:rejected-convex:%s:%s:%s:%s' % (fe, fam, kind, atom)
            findings.append(item)
        else:
            notes.append(item)
        return res
    if stage == 'math':
        trait = ':const-scale' if atom.endswith('_cs') else ':const-piece' if atom.endswith('_c') else ''
        findings.append(dict(base, sig='C10:unexpected-exception:do_math:%s:%s:%s:%s%s'
                             % (type(exc).__name__, fe, fam, 'objective' if is_obj else 'constraint', trait),
                             prop=prop, what='a convex use accepted by st()/min()/max() cannot be compiled: do_math() raised %s'
                             % base['exception']))
        return res
    # -------------------------------------------------------------------------- accepted: pinned solve
    cone = ATOMS[atom]['cone']
    tol = TOL[cone]
    try:
        m.solve(env.solver(), display=False)
        sol_ok = m.solution is not None and not np.isnan(m.solution.objval)
        got = (m.get() if sol_ok else None)
    except Exception as ex:
        lib, where = _lib_exc(ex)
        if not lib:
            raise
        findings.append(dict(base, sig='C10:unexpected-exception:solve:%s:%s:%s' % (type(ex).__name__, fe, fam), prop=prop,
                             what='solve() of an accepted convex use raised %r' % ex, raised_at=where))
        return res
    res['solved'] = True
    ccls = chain_class(hist)
    if not is_obj and expect is None:
        # T does not occur: the relation is a statement about the pinned point only
        holds = (c0 <= 0) if le else (c0 >= 0)
        status = getattr(getattr(m, 'solution', None), 'status', None)
        if abs(c0) <= 100 * tol * (1 + abs(K * fval)) or (not sol_ok and not _decided_status(status)):
            res['inconclusive'] = 1
        elif holds != sol_ok:
            findings.append(dict(base, sig='C10:meaning:%s:%s' % (atom, ccls), prop=vprop if ccls != 'sum' else 'C06',
                                 what='feasibility of the pinned model differs from the written relation',
                                 relation_holds=holds, model_feasible=sol_ok, c0=c0))
        return res
    if abs(expect) > TB - 1:
        res['out_of_range'] = 1
        return res
    if not sol_ok:
        status = getattr(getattr(m, 'solution', None), 'status', None)
        if _decided_status(status):
            findings.append(dict(base, sig='C10:meaning:%s:%s' % (atom, ccls), prop=vprop if ccls != 'sum' else 'C06',
                                 what='pinned model of an accepted convex use is reported %s although the written relation '
                                 'has the finite optimum' % status, want=expect))
        else:       # numerical trouble of the solver is not a verdict
            res['inconclusive'] = 1
        return res
    diff = abs(got - expect)
    scale = 1 + abs(expect) + abs(K * fval)
    if diff > 10 * tol * scale:
        findings.append(dict(base, sig='C10:meaning:%s:%s' % (atom, ccls), prop=vprop if ccls != 'sum' else 'C06',
                             what='optimum of the pinned model differs from the written relation',
                             want=expect, got=got, K=K, offset_const=gc, offset_T=gt, f_at_pin=fval))
    elif diff > tol * scale:
        res['inconclusive'] = 1
    return res


def _product(rec, variant):
    """Bilinear attempt l (*|@) r; expected: exception <=> ideal says reject."""
    import rsome as rso
    from rsome import ro, dro
    h = rec['hist'][0]
    fe = rec['fe']
    if fe == 'ro':
        m = ro.Model()
        x, x2, z, z2 = m.dvar(2), m.dvar(2), m.rvar(2), m.rvar(2)
        ldr = m.ldr(2)
        ldr.adapt(z)
        kinds = dict(dec=(x, x2), rand=(z, z2), ldr=(ldr, ldr))
    else:
        m = dro.Model(2)
        x, x2, z, z2 = m.dvar(2), m.dvar(2), m.rvar(2), m.rvar(2)
        a, a2, ev, ev2 = m.dvar(2), m.dvar(2), m.dvar(2), m.dvar(2)
        a.adapt(z)
        a2.adapt(z2)
        ev.adapt(0)
        ev2.adapt(1)
        kinds = dict(dec=(x, x2), rand=(z, z2), adapt=(a, a2), evt=(ev, ev2))
    if variant == 'affine':      # affine expressions instead of bare variables
        kinds = {k: (2 * v[0] + 1, 1 - v[1]) if k != 'ldr' else v for k, v in kinds.items()}

    def mk(kind, pos):
        if kind == 'roaff':
            return x * z
        if kind == 'cvx':
            return abs(x)
        if kind == 'pw':
            return rso.maxof(x[0], x[1])
        return kinds[kind][pos]
    text = '%s %s %s' % (h['l'], '*' if h['op'] == 'mul' else '@', h['r'])
    findings, drift = [], []
    try:
        left, right = mk(h['l'], 0), mk(h['r'], 1)
    except Exception as ex:
        lib, _ = _lib_exc(ex)
        if not lib:
            raise
        return dict(findings=[], drift=[dict(kind='operand-construction', text=text, exc=repr(ex))], notes=[],
                    stage='op', solved=False, inconclusive=0, accept=bool(rec['ideal']['accept']), dont_care=False)
    try:
        out = left * right if h['op'] == 'mul' else left @ right
        stage = 'ok'
        info = type(out).__name__
    except Exception as ex:
        lib, where = _lib_exc(ex)
        if not lib and not isinstance(ex, (TypeError, ValueError)):
            raise
        stage = 'op'
        info = '%s: %s' % (type(ex).__name__, str(ex)[:100])
    accept = bool(rec['ideal']['accept'])
    base = dict(fe=fe, variant=variant, written=text, ideal='accept' if accept else 'reject', outcome=info,
                transcription_stage=rec['code']['stage'])
    if stage != rec['code']['stage']:
        drift.append(dict(kind='stage', want=rec['code']['stage'], got=stage, written=text, fe=fe))
    if not accept and stage == 'ok':
        findings.append(dict(base, sig='C10:bilinear-accepted:%s:%s-x-%s' % (fe, h['l'], h['r']), prop='C10',
                             what='a product of two expressions that is not decision x random returned an object'))
    if accept and stage != 'ok':
        findings.append(dict(base, sig='C10:bilinear-rejected:%s:%s-x-%s' % (fe, h['l'], h['r']), prop='C10',
                             what='a legal decision x random product raised'))
    return dict(findings=findings, drift=drift, notes=[], stage=stage, solved=False, inconclusive=0,
                accept=accept, dont_care=False)


def replay(job):
    """job = dict(rec=<exported state>, atoms=[...], variant=...).  Returns one result per atom.
    An exception raised by rsome where the harness itself is exercising only legal API (model, variables,
    pins) propagates as a machinery error; exceptions of the use under test are verdict material."""
    rec = job['rec']
    out = []
    if rec['op'] == 'Product':
        r = _product(rec, job['variant'])
        r['atom'] = '-'
        out.append(r)
        return out
    for atom in job['atoms']:
        r = _one(rec, atom, job['variant'])
        r['atom'] = atom
        out.append(r)
    return out
