"""Spec -> code replay for RoSem.tla: build the declared robust model through rsome.ro, solve it,
return what the public API reports (scaled integers go back to TLC for the post-condition of
C01/C02), plus an independent float oracle (vertex expansion LP solved directly with HiGHS)."""
import math

import numpy as np

from harness import ro_catalogue as cat


def build(job):
    """Returns (model, handles). job['rec'] is the record exported by TLC."""
    import rsome as rso
    from rsome import ro
    from rsome.lp import RoConstr
    rec = job['rec']
    p = rec['prog']
    xb = job['XB']
    var = job.get('variant', 0)
    m = ro.Model()
    x = m.dvar(2, 'I' if p['xint'] else 'C')
    z = m.rvar(2)
    sets_used = {p['dset']} | {r['set'] for r in p['rows'] if r['set']}
    u = m.rvar(2) if (sets_used & cat.NEEDS_U) else None
    y = None
    mask = {'none': None, 'm0': [], 'm1': [0], 'm2': [1], 'm12': [0, 1]}[p['mask']]
    if mask is not None:
        y = m.ldr()
        if mask == [0, 1] and var % 2 == 0:
            y.adapt(z)
        else:
            for k in (mask if var % 3 else list(reversed(mask))):
                y.adapt(z[k])
    B = cat.builders()

    def uset(s):
        cons = B[s](z, u)
        return cons

    def expr(tm):
        e = 0
        a, A, c, b, Bz = tm['a'], tm['A'], tm['c'], tm['b'], tm['B']
        for i in range(2):
            if a[i]:
                e = e + a[i] * x[i]
            for k in range(2):
                if A[i][k]:
                    if (var + i + k) % 2:
                        e = e + A[i][k] * (x[i] * z[k])
                    else:
                        e = e + (A[i][k] * z[k]) * x[i]
        if c:
            e = e + c * y
        for k in range(2):
            if Bz[k]:
                e = e + Bz[k] * z[k]
        if b:
            e = e + b
        return e

    m.st(x >= -xb, x <= xb)
    robust_default = p['osense'] in ('minmax', 'maxmin')
    obj = expr(rec['objT'])
    if p['osense'] == 'min':
        m.min(obj)
    elif p['osense'] == 'max':
        m.max(obj)
    elif p['osense'] == 'minmax':
        if var % 2:
            m.minmax(obj, *uset(p['dset']))
        else:
            m.minmax(obj, uset(p['dset']))
    else:
        if var % 2:
            m.maxmin(obj, uset(p['dset']))
        else:
            m.maxmin(obj, *uset(p['dset']))

    def attach(c, s):
        if s == 0 and robust_default:
            return c
        sid = p['dset'] if s == 0 else s
        return c.forall(uset(sid)) if var % 2 else c.forall(*uset(sid))

    for r, tm in zip(p['rows'], rec['rows']):
        e = expr(tm)
        if r['sense'] == 'le':
            c = (e <= 0)
        elif r['sense'] == 'ge':
            c = (e >= 0)
        else:
            c = (e == 0)
        if isinstance(c, RoConstr):
            c = attach(c, r['set'])
        m.st(c)
    if y is not None:
        for c in (y <= xb, y >= -xb):
            m.st(attach(c, 0) if isinstance(c, RoConstr) else c)
    return m, dict(x=x, y=y, z=z, u=u, mask=mask)


def solver_by_name(name):
    import rsome
    if name == 'def':
        return None
    if name == 'ort':
        from rsome import ort_solver
        return ort_solver
    if name == 'eco':
        from rsome import eco_solver
        return eco_solver
    if name == 'grb':
        from rsome import grb_solver
        return grb_solver
    raise ValueError(name)


def read_solution(m, h):
    x = np.array(h['x'].get(), dtype=float).reshape(-1)
    yv = [0.0, 0.0, 0.0]
    nanpat = None
    if h['y'] is not None:
        yv[0] = float(np.array(h['y'].get()).reshape(-1)[0])
        if h['mask']:
            coef = np.array(h['y'].get(h['z']), dtype=float).reshape(-1)
            nanpat = [bool(np.isnan(c)) for c in coef]
            for k in range(2):
                yv[1 + k] = 0.0 if np.isnan(coef[k]) else float(coef[k])
    return x, yv, float(m.get()), nanpat


def vertex_lp(rec, xb, integer):
    """Independent oracle for polytope programs: expand every row at every vertex and solve with
    scipy directly (never through rsome). Variables: x1, x2, y0, Y1, Y2, t."""
    from scipy.optimize import linprog, milp, LinearConstraint, Bounds
    p = rec['prog']
    verts = rec['verts']
    mask = {'none': None, 'm0': [], 'm1': [0], 'm2': [1], 'm12': [0, 1]}[p['mask']]

    def lin(tm, zv):
        # coefficients on (x1, x2, y0, Y1, Y2) and constant, at realisation zv
        cx = [tm['a'][i] + tm['A'][i][0] * zv[0] + tm['A'][i][1] * zv[1] for i in range(2)]
        cy = [tm['c'], tm['c'] * zv[0], tm['c'] * zv[1]]
        const = tm['b'] + tm['B'][0] * zv[0] + tm['B'][1] * zv[1]
        return cx + cy, const

    A_ub, b_ub, A_eq, b_eq = [], [], [], []
    for r, tm in zip(p['rows'], rec['rows']):
        s = p['dset'] if r['set'] == 0 else r['set']
        vs = verts[str(s)] if isinstance(verts, dict) else verts[s - 1]
        if not vs:
            return None
        for zv in vs:
            co, const = lin(tm, zv)
            row = co + [0.0]
            if r['sense'] == 'le':
                A_ub.append(row); b_ub.append(-const)
            elif r['sense'] == 'ge':
                A_ub.append([-c for c in row]); b_ub.append(const)
            else:
                A_eq.append(row); b_eq.append(-const)
    dv = verts[str(p['dset'])] if isinstance(verts, dict) else verts[p['dset'] - 1]
    if mask is not None:
        if not dv:
            return None
        for zv in dv:
            A_ub.append([0, 0, 1, zv[0], zv[1], 0]); b_ub.append(xb)
            A_ub.append([0, 0, -1, -zv[0], -zv[1], 0]); b_ub.append(xb)
    minimising = p['osense'] in ('min', 'minmax')
    sgn = 1.0 if minimising else -1.0
    ovs = [[0, 0]] if p['osense'] in ('min', 'max') else dv
    if not ovs:
        return None
    for zv in ovs:
        co, const = lin(rec['objT'], zv)
        A_ub.append([sgn * c for c in co] + [-1.0]); b_ub.append(-sgn * const)
    lb = [-xb, -xb, -np.inf, -np.inf, -np.inf, -np.inf]
    ub = [xb, xb, np.inf, np.inf, np.inf, np.inf]
    if mask is None:
        lb[2] = ub[2] = 0.0
    for k in range(2):
        if mask is None or k not in mask:
            lb[3 + k] = ub[3 + k] = 0.0
    c = [0, 0, 0, 0, 0, 1.0]
    if integer:
        cons = []
        if A_ub:
            cons.append(LinearConstraint(np.array(A_ub, dtype=float), -np.inf, np.array(b_ub, dtype=float)))
        if A_eq:
            cons.append(LinearConstraint(np.array(A_eq, dtype=float), np.array(b_eq, dtype=float), np.array(b_eq, dtype=float)))
        res = milp(c, constraints=cons, bounds=Bounds(lb, ub), integrality=[1, 1, 0, 0, 0, 0])
    else:
        res = linprog(c, A_ub=np.array(A_ub, dtype=float) if A_ub else None, b_ub=b_ub or None,
                      A_eq=np.array(A_eq, dtype=float) if A_eq else None, b_eq=b_eq or None,
                      bounds=list(zip(lb, ub)))
    if res.status == 0:
        return dict(status='ok', val=sgn * float(res.fun))
    if res.status == 2:
        return dict(status='infeasible')
    return dict(status='other:%s' % res.status)


def _replay(job, phase):
    rec = job['rec']
    p = rec['prog']
    out = dict(tid=job['tid'], solver=job['solver'], variant=job.get('variant', 0))
    phase[0] = 'build'
    m, h = build(job)
    phase[0] = 'solve'
    solver = solver_by_name(job['solver'])
    if solver is None:
        m.solve(display=False)
    else:
        m.solve(solver, display=False)
    phase[0] = 'read'
    ok = m.solution is not None and not (isinstance(m.solution.objval, float) and math.isnan(m.solution.objval))
    if ok:
        x, yv, obj, nanpat = read_solution(m, h)
        out.update(status='ok', x=[float(v) for v in x], y=yv, obj=obj, nanpat=nanpat)
    else:
        out.update(status='fail')
        try:
            m.get()
            out['get_after_fail'] = 'returned'
        except RuntimeError:
            out['get_after_fail'] = 'raised'
        except Exception as e:
            out['get_after_fail'] = 'raised:' + type(e).__name__
    phase[0] = 'oracle'
    poly = all(rec['verts'][str(s)] if isinstance(rec['verts'], dict) else True for s in [p['dset']])
    try:
        out['lp'] = vertex_lp(rec, job['XB'], p['xint'])
    except Exception as e:   # the oracle is ours: a failure here is machinery
        raise
    return out


def replay(job):
    import traceback
    phase = ['start']
    try:
        return _replay(job, phase)
    except Exception as e:
        tb = traceback.extract_tb(e.__traceback__)
        if phase[0] == 'oracle' or not any('/rsome/' in fr.filename for fr in tb):
            raise
        return dict(tid=job['tid'], solver=job['solver'], status='exception', phase=phase[0],
                    exc='%s: %s' % (type(e).__name__, e), where='%s:%d' % (tb[-1].filename, tb[-1].lineno))
