"""Spec -> code replay for RoSem.tla: build the declared robust model through rsome.ro, solve it,
return what the public API reports (scaled integers go back to TLC for the post-condition of
C01/C02), plus an independent float oracle (vertex expansion LP solved directly with HiGHS).

Curved sets (ro_catalogue.DENSE_SETS): the vertex expansion is solved twice, over a dense INNER polygon (members
of the set: a relaxation of the semi-infinite program) and a dense OUTER polygon (a restriction), both derived
from the catalogue's membership functions; the returned solution is also evaluated at every inner vertex."""
import math

import numpy as np

from harness import ro_catalogue as cat


def build(job):
    """Returns (model, handles). job['rec'] is the record exported by TLC."""
    import rsome as rso
    from rsome import ro
    from rsome.lp import RoConstr
    rec = job['rec']
    p = rec['prog']
    xb = job['XB']
    var = job.get('variant', 0)
    m = ro.Model()
    x = m.dvar(2, 'I' if p['xint'] else 'C')
    z = m.rvar(2)
    sets_used = {p['dset']} | {r['set'] for r in p['rows'] if r['set']}
    u = m.rvar(2) if (sets_used & cat.NEEDS_U) else None
    y = None
    mask = {'none': None, 'm0': [], 'm1': [0], 'm2': [1], 'm12': [0, 1]}[p['mask']]
    if mask is not None:
        y = m.ldr()
        if mask == [0, 1] and var % 2 == 0:
            y.adapt(z)
        else:
            for k in (mask if var % 3 else list(reversed(mask))):
                y.adapt(z[k])
    B = cat.builders()
    # Every use of a set writes the set afresh (new expression objects), as a user's helper function would - except
    # for the sets of cat.IPCONE_POW2 unless job['respell_ipcone'] is set: a set with an integer power cone whose
    # degrees sum to a power of two (power(z,2), gmean of two) makes the SECOND forall()/minmax() of a model raise
    # ValueError (lp.py concat() pads only up to model.last, the freshly written expression is wider than the support
    # model after its auxiliary variables were dropped).  Recorded for the maintainer of the checks; the constraint
    # objects of these sets are therefore created once, before the first use.
    once = {}
    if not job.get('respell_ipcone'):
        for s_ in sorted(sets_used & cat.IPCONE_POW2):
            once[s_] = B[s_](z, u)

    # ... and in a quarter of the renderings EVERY set is written once and its constraint objects are handed to every
    # forall() / minmax() that uses it (a tuple the user keeps around)
    reuse_objects = var % 4 == 3

    def uset(s):
        if s in once:
            return list(once[s])
        cons = B[s](z, u)
        if reuse_objects:
            once[s] = cons
        return cons

    def expr(tm):
        e = 0
        a, A, c, b, Bz = tm['a'], tm['A'], tm['c'], tm['b'], tm['B']
        for i in range(2):
            if a[i]:
                e = e + a[i] * x[i]
            for k in range(2):
                if A[i][k]:
                    if (var + i + k) % 2:
                        e = e + A[i][k] * (x[i] * z[k])
                    else:
                        e = e + (A[i][k] * z[k]) * x[i]
        if c:
            e = e + c * y
        for k in range(2):
            if Bz[k]:
                e = e + Bz[k] * z[k]
        if b:
            e = e + b
        return e

    m.st(x >= -xb, x <= xb)
    robust_default = p['osense'] in ('minmax', 'maxmin')
    obj = expr(rec['objT'])
    def set_objective():
        if p['osense'] == 'min':
            m.min(obj)
        elif p['osense'] == 'max':
            m.max(obj)
        elif p['osense'] == 'minmax':
            if var % 2:
                m.minmax(obj, *uset(p['dset']))
            else:
                m.minmax(obj, uset(p['dset']))
        else:
            if var % 2:
                m.maxmin(obj, uset(p['dset']))
            else:
                m.maxmin(obj, *uset(p['dset']))


    # build order: the objective (and with it the default set) is declared before the rows, between them, or last
    obj_pos = (var // 2) % 3
    if obj_pos == 0:
        set_objective()

    def attach(c, s):
        if s == 0 and robust_default:
            return c
        sid = p['dset'] if s == 0 else s
        return c.forall(uset(sid)) if var % 2 else c.forall(*uset(sid))

    def expr2(tms):
        """ONE 2-row array expression for two templates (matrix products on the variable arrays)."""
        a = np.array([t['a'] for t in tms], dtype=float)             # (rows, 2)
        Bz = np.array([t['B'] for t in tms], dtype=float)
        c = np.array([t['c'] for t in tms], dtype=float)
        b = np.array([t['b'] for t in tms], dtype=float)
        e = None

        def add(e, t):
            return t if e is None else e + t
        if a.any():
            e = add(e, a @ x)
        for j in range(2):
            M = np.array([t['A'][j] for t in tms], dtype=float)      # (rows, k): coefficient of z_k x_j
            if M.any():
                e = add(e, (M @ z) * x[j] if (var + j) % 2 else x[j] * (M @ z))
        if c.any():
            e = add(e, c * y)
        if Bz.any():
            e = add(e, Bz @ z)
        if b.any():
            e = add(e, b)
        return e

    npw = [0]
    rows = list(zip(p['rows'], rec['rows']))
    if p.get('arr'):
        # the two rows as one vector-valued constraint object (same sense, same set)
        (r1, t1), (r2, t2) = rows
        assert r1['sense'] == r2['sense'] and r1['set'] == r2['set']
        rows = [(r1, [t1, t2])]
    for ri, (r, tm) in enumerate(rows):
        if ri == 1 and obj_pos == 1:
            set_objective()
        if isinstance(tm, list) and var % 3 == 2 and r['sense'] in ('le', 'ge'):
            # the same two rows spelled as ONE piecewise constraint with an added term (maxof / minof front end):
            #   L1 >= 0 and L2 >= 0   <=>   minof(L1 - c, L2 - c) + c >= 0   <=>   c - maxof(c - L1, c - L2) >= 0
            e1, e2 = expr(tm[0]), expr(tm[1])
            if hasattr(e1, 'raffine') and hasattr(e2, 'raffine'):
                cterm = x[0] + 0.5
                if r['sense'] == 'ge':
                    c = (rso.minof(e1 - cterm, e2 - cterm) + cterm >= 0) if var % 2 else (cterm - rso.maxof(cterm - e1, cterm - e2) >= 0)
                else:
                    c = (rso.maxof(e1 - cterm, e2 - cterm) + cterm <= 0) if var % 2 else (-cterm - rso.minof(-cterm - e1, -cterm - e2) <= 0)
                m.st(attach(c, r['set']))
                npw[0] += 1
                continue
        e = expr2(tm) if isinstance(tm, list) else expr(tm)
        if r['sense'] == 'le':
            c = (e <= 0)
        elif r['sense'] == 'ge':
            c = (e >= 0)
        else:
            c = (e == 0)
        if isinstance(c, RoConstr):
            c = attach(c, r['set'])
        m.st(c)
    if obj_pos == 1 and len(rows) < 2:
        set_objective()
    if y is not None:
        for c in (y <= xb, y >= -xb):
            m.st(attach(c, 0) if isinstance(c, RoConstr) else c)
    if obj_pos == 2:
        set_objective()
    return m, dict(x=x, y=y, z=z, u=u, mask=mask, piecewise_rows=npw[0])


def solver_by_name(name):
    import rsome
    if name == 'def':
        return None
    if name == 'ort':
        from rsome import ort_solver
        return ort_solver
    if name == 'eco':
        from rsome import eco_solver
        return eco_solver
    if name == 'grb':
        from rsome import grb_solver
        return grb_solver
    raise ValueError(name)


def read_solution(m, h):
    x = np.array(h['x'].get(), dtype=float).reshape(-1)
    yv = [0.0, 0.0, 0.0]
    nanpat = None
    if h['y'] is not None:
        yv[0] = float(np.array(h['y'].get()).reshape(-1)[0])
        if h['mask']:
            coef = np.array(h['y'].get(h['z']), dtype=float).reshape(-1)
            nanpat = [bool(np.isnan(c)) for c in coef]
            for k in range(2):
                yv[1 + k] = 0.0 if np.isnan(coef[k]) else float(coef[k])
    return x, yv, float(m.get()), nanpat


def used_sets(p):
    return {p['dset']} | {r['set'] for r in p['rows'] if r['set']}


def side_verts(rec, side):
    """Vertex lists per set id (keys str): TLC's polytope vertices; for curved sets the dense polygon of a side
    ('inner' | 'outer')."""
    verts = rec['verts']
    if not isinstance(verts, dict):
        verts = {str(i + 1): v for i, v in enumerate(verts)}
    verts = dict(verts)
    for s in used_sets(rec['prog']):
        if s in cat.DENSE_SETS:
            verts[str(s)] = cat.dense(s)[side]
    return verts


def member_check(rec, xb, x, yv, obj):
    """The returned solution at MEMBERS of the sets (polytope vertices, dense inner polygons of curved sets), in floats:
    viol = worst violation of a robust row / of the box of the decision rule, relative to 1 + the mass of the terms;
    objgap = by how much the worst-case objective over members exceeds the reported objective (mirrored for max)."""
    p = rec['prog']
    verts = side_verts(rec, 'inner')

    def lhs(tm, Z):
        ZMAX = max(1.0, float(np.max(np.abs(Z))))
        g0 = tm['a'][0] * x[0] + tm['a'][1] * x[1] + tm['c'] * yv[0] + tm['b']
        g = [tm['A'][0][k] * x[0] + tm['A'][1][k] * x[1] + tm['c'] * yv[1 + k] + tm['B'][k] for k in range(2)]
        mass = 1.0 + sum(abs(tm['a'][i] * x[i]) for i in range(2)) + abs(tm['c'] * yv[0]) + abs(tm['b']) \
            + ZMAX * sum(abs(tm['A'][i][k] * x[i]) for i in range(2) for k in range(2)) \
            + ZMAX * sum(abs(tm['c'] * yv[1 + k]) + abs(tm['B'][k]) for k in range(2))
        return g0 + Z @ np.array(g), mass

    viol = 0.0
    where = None
    for i, (r, tm) in enumerate(zip(p['rows'], rec['rows'])):
        s = p['dset'] if r['set'] == 0 else r['set']
        Z = np.array(verts[str(s)], dtype=float)
        v, mass = lhs(tm, Z)
        w = {'le': v.max(), 'ge': (-v).max(), 'eq': np.abs(v).max()}[r['sense']] / mass
        if w > viol:
            viol, where = float(w), 'row%d' % i
    Zd = np.array(verts[str(p['dset'])], dtype=float)
    if p['mask'] != 'none':
        yz = yv[0] + Zd @ np.array(yv[1:])
        w = max(yz.max() - xb, -xb - yz.min()) / (1.0 + xb + abs(yv[0]) + max(1.0, float(np.max(np.abs(Zd)))) * (abs(yv[1]) + abs(yv[2])))
        if w > viol:
            viol, where = float(w), 'rulebox'
    w = float(np.max(np.abs(x)) - xb) / (1.0 + xb)
    if w > viol:
        viol, where = w, 'xbox'
    ov, mass = lhs(rec['objT'], Zd if p['osense'] in ('minmax', 'maxmin') else np.zeros((1, 2)))
    if p['osense'] in ('min', 'minmax'):
        objgap = float(ov.max() - obj) / mass
    else:
        objgap = float(obj - ov.min()) / mass
    return dict(viol=viol, where=where, objgap=objgap)


def vertex_lp(rec, xb, integer, verts=None):
    """Independent oracle: expand every row at every vertex and solve with scipy directly (never through rsome).
    Variables: x1, x2, y0, Y1, Y2, t.  verts: vertex lists per set (default: TLC's polytope vertices)."""
    from scipy.optimize import linprog, milp, LinearConstraint, Bounds
    p = rec['prog']
    if verts is None:
        verts = rec['verts']
    mask = {'none': None, 'm0': [], 'm1': [0], 'm2': [1], 'm12': [0, 1]}[p['mask']]

    def lin(tm, zv):
        # coefficients on (x1, x2, y0, Y1, Y2) and constant, at realisation zv
        cx = [tm['a'][i] + tm['A'][i][0] * zv[0] + tm['A'][i][1] * zv[1] for i in range(2)]
        cy = [tm['c'], tm['c'] * zv[0], tm['c'] * zv[1]]
        const = tm['b'] + tm['B'][0] * zv[0] + tm['B'][1] * zv[1]
        return cx + cy, const

    A_ub, b_ub, A_eq, b_eq = [], [], [], []
    for r, tm in zip(p['rows'], rec['rows']):
        s = p['dset'] if r['set'] == 0 else r['set']
        vs = verts[str(s)] if isinstance(verts, dict) else verts[s - 1]
        if not vs:
            return None
        for zv in vs:
            co, const = lin(tm, zv)
            row = co + [0.0]
            if r['sense'] == 'le':
                A_ub.append(row); b_ub.append(-const)
            elif r['sense'] == 'ge':
                A_ub.append([-c for c in row]); b_ub.append(const)
            else:
                A_eq.append(row); b_eq.append(-const)
    dv = verts[str(p['dset'])] if isinstance(verts, dict) else verts[p['dset'] - 1]
    if mask is not None:
        if not dv:
            return None
        for zv in dv:
            A_ub.append([0, 0, 1, zv[0], zv[1], 0]); b_ub.append(xb)
            A_ub.append([0, 0, -1, -zv[0], -zv[1], 0]); b_ub.append(xb)
    minimising = p['osense'] in ('min', 'minmax')
    sgn = 1.0 if minimising else -1.0
    ovs = [[0, 0]] if p['osense'] in ('min', 'max') else dv
    if not ovs:
        return None
    for zv in ovs:
        co, const = lin(rec['objT'], zv)
        A_ub.append([sgn * c for c in co] + [-1.0]); b_ub.append(-sgn * const)
    lb = [-xb, -xb, -np.inf, -np.inf, -np.inf, -np.inf]
    ub = [xb, xb, np.inf, np.inf, np.inf, np.inf]
    if mask is None:
        lb[2] = ub[2] = 0.0
    for k in range(2):
        if mask is None or k not in mask:
            lb[3 + k] = ub[3 + k] = 0.0
    c = [0, 0, 0, 0, 0, 1.0]
    if integer:
        cons = []
        if A_ub:
            cons.append(LinearConstraint(np.array(A_ub, dtype=float), -np.inf, np.array(b_ub, dtype=float)))
        if A_eq:
            cons.append(LinearConstraint(np.array(A_eq, dtype=float), np.array(b_eq, dtype=float), np.array(b_eq, dtype=float)))
        res = milp(c, constraints=cons, bounds=Bounds(lb, ub), integrality=[1, 1, 0, 0, 0, 0])
    else:
        res = linprog(c, A_ub=np.array(A_ub, dtype=float) if A_ub else None, b_ub=b_ub or None,
                      A_eq=np.array(A_eq, dtype=float) if A_eq else None, b_eq=b_eq or None,
                      bounds=list(zip(lb, ub)))
    if res.status == 0:
        return dict(status='ok', val=sgn * float(res.fun))
    if res.status == 2:
        return dict(status='infeasible')
    return dict(status='other:%s' % res.status)


def _replay(job, phase):
    rec = job['rec']
    p = rec['prog']
    out = dict(tid=job['tid'], solver=job['solver'], variant=job.get('variant', 0))
    phase[0] = 'build'
    m, h = build(job)
    out['piecewise_rows'] = h.get('piecewise_rows', 0)
    phase[0] = 'solve'
    solver = solver_by_name(job['solver'])
    if solver is None:
        m.solve(display=False)
    else:
        m.solve(solver, display=False)
    phase[0] = 'read'
    ok = m.solution is not None and not (isinstance(m.solution.objval, float) and math.isnan(m.solution.objval))
    out['solver_status'] = str(getattr(m.solution, 'status', None))
    if not ok and job['solver'] == 'def' and out['solver_status'] == '0' and m.solution is not None and m.solution.x is not None \
            and np.any(np.isnan(np.asarray(m.solution.x, dtype=float))):
        # SciPy's HiGHS reported status 0 (optimal) with NaN entries in the solution vector (seen with scipy 1.18.1 on a column with
        # upper bound 0): an answer of the external solver that cannot be judged - the same model goes to OR-Tools instead
        out['nan_solution_from'] = 'def'
        m.solve(solver_by_name('ort'), display=False)
        out['solver'] = 'ort'
        ok = m.solution is not None and not (isinstance(m.solution.objval, float) and math.isnan(m.solution.objval))
        out['solver_status'] = str(getattr(m.solution, 'status', None))
    if ok:
        x, yv, obj, nanpat = read_solution(m, h)
        out.update(status='ok', x=[float(v) for v in x], y=yv, obj=obj, nanpat=nanpat)
    else:
        out.update(status='fail')
        try:
            m.get()
            out['get_after_fail'] = 'returned'
        except RuntimeError:
            out['get_after_fail'] = 'raised'
        except Exception as e:
            out['get_after_fail'] = 'raised:' + type(e).__name__
    phase[0] = 'oracle'
    curved = sorted(used_sets(p) & cat.DENSE_SETS)
    if curved:
        # the oracle is ours: a failure here is machinery (replay() re-raises in phase 'oracle')
        out['lp'] = None
        out['lp_in'] = vertex_lp(rec, job['XB'], p['xint'], side_verts(rec, 'inner'))
        out['lp_out'] = vertex_lp(rec, job['XB'], p['xint'], side_verts(rec, 'outer'))
        out['dense_gap'] = max(cat.dense(s)['gap'] for s in curved)
        if out['status'] == 'ok':
            out['members'] = member_check(rec, job['XB'], np.array(out['x']), out['y'], out['obj'])
    else:
        out['lp'] = vertex_lp(rec, job['XB'], p['xint'])
    return out


def replay(job):
    import traceback
    phase = ['start']
    try:
        return _replay(job, phase)
    except Exception as e:
        tb = traceback.extract_tb(e.__traceback__)
        if phase[0] == 'oracle' or not any('/rsome/' in fr.filename for fr in tb):
            raise
        return dict(tid=job['tid'], solver=job['solver'], status='exception', phase=phase[0],
                    exc='%s: %s' % (type(e).__name__, e), where='%s:%d' % (tb[-1].filename, tb[-1].lineno))
