"""Spec -> code replay for Partition.tla: drive rsome.dro with a TLC-generated history of
adapt()/slice calls and compare, after every action and after solving, with what the
specification exports.

Two kinds of expectation travel with every exported state:
  * the IDEAL one, computed from the ghost state (what the user declared): partition semantics,
    labels naming their own event, dependency masks = declared, illegal calls raise.  A public-API
    observable that deviates from it is a finding (-> VIOLATION / KNOWN-FINDING).
  * the TRANSCRIPTION (ordered event lists, heap aliasing).  A deviation that leaves the ideal
    intact is reported as 'drift' (the spec no longer mirrors the code) and is not an alarm.
"""
import math
import numpy as np

TOL = 1e-6


def _labels(ns, kind):
    if kind == 'int':
        return None
    if kind == 'str':
        return ['s%d' % k for k in range(ns)]
    if kind == 'intperm':       # integer labels that are not positions
        return [10 * (ns - k) for k in range(ns)]
    raise ValueError(kind)


def _lab(labels, pos):
    return pos if labels is None else labels[pos]


def _new_model(ns, labels):
    from rsome import dro
    return dro.Model(ns) if labels is None else dro.Model(labels)


def _apply(step, xs, zs, slices, labels, ns):
    """Apply one history step to the variables of one model. Returns 'ok' or 'err:<Type>'."""
    act = step['act']
    try:
        if act == 'adapt_events':
            E = step['E']
            arg = [_lab(labels, p) if p < ns else ('nolabel' if labels is not None and isinstance(labels[0], str) else 10 ** 6)
                   for p in E]
            if len(arg) == 1:
                arg = arg[0]
            xs[step['v'] - 1].adapt(arg)
        elif act == 'mk_slice':
            idx = [i - 1 for i in step['idx']]
            slices.append(xs[step['v'] - 1][idx])
        elif act == 'adapt_affine':
            comps = [c - 1 for c in step['comps']]
            if step['slice'] > 0:
                target = slices[step['slice'] - 1]
            elif len(step['idx']) == xs[step['v'] - 1].size:
                target = xs[step['v'] - 1]
            else:
                target = xs[step['v'] - 1][[i - 1 for i in step['idx']]]
            target.adapt(zs[comps])
        else:
            raise ValueError('unknown action ' + act)
        return 'ok'
    except Exception as e:   # noqa
        return 'err:' + type(e).__name__


def _replay(job, phase):
    import rsome  # noqa
    from rsome import dro, E
    c = job['consts']
    rec = job['rec']
    ns, sizes, vtypes, nr, zhat = c['NS'], c['Sizes'], c['VTypes'], c['NR'], c['Zhat']
    labels = _labels(ns, job.get('labels', 'int'))
    hist = rec['hist']
    findings, drift, notes = [], [], []
    hsig = hist_sig(hist)

    # ---------------------------------------------------------------- model B: the full history
    mB = _new_model(ns, labels)
    zB = mB.rvar(nr)
    xB = [mB.dvar(sizes[v], vtypes[v]) for v in range(len(sizes))]
    tB = [mB.dvar(sizes[v]) for v in range(len(sizes))]
    slB = []
    # ---------------------------------------------------------------- model A: event steps only
    mA = _new_model(ns, labels)
    zA = mA.rvar()
    xA = [mA.dvar(sizes[v], vtypes[v]) for v in range(len(sizes))]

    outs = []
    declared = [set() for _ in sizes]
    for k, step in enumerate(hist):
        o = _apply(step, xB, zB, slB, labels, ns)
        outs.append(o)
        if step['act'] == 'adapt_events':
            oa = _apply(step, xA, None, None, labels, ns)
            if oa[:2] != o[:2]:
                notes.append('models A and B disagree on outcome of step %d' % k)
            v = step['v'] - 1
            E_ = step['E']
            illegal = (set(E_) & declared[v]) or any(p >= ns for p in E_) or len(set(E_)) != len(E_)
            if illegal and o == 'ok':
                findings.append(dict(sig='C13:illegal-evtadapt-accepted:' + ('all-declared' if len(declared[v]) == ns else 'partial'),
                                     prop='C13', what='re-declared / unknown / duplicated scenario accepted by adapt()',
                                     hist=hist[:k + 1]))
            if not illegal and o != 'ok':
                findings.append(dict(sig='C13:legal-evtadapt-raised', prop='C13',
                                     what='legal adapt() raised ' + o, hist=hist[:k + 1]))
            if o == 'ok' and not illegal:
                declared[v] |= set(E_)
    # outcome of the last step as the transcription predicts it
    if hist:
        want = rec['out']
        got = 'ok' if outs[-1] == 'ok' else 'err'
        if want != got:
            drift.append(dict(kind='outcome', step=len(hist) - 1, want=want, got=outs[-1]))

    phase[0] = 'after-history'
    broken = any(rec['broken'])
    # transcription: ordered event lists
    for v in range(len(sizes)):
        ea = getattr(xB[v], 'event_adapt', None)
        if ea is not None and [list(map(int, b)) for b in ea] != rec['ea'][v]:
            drift.append(dict(kind='event_adapt', v=v + 1, want=rec['ea'][v], got=[list(map(int, b)) for b in ea]))

    if broken:
        # an evtadapt raised midway: the model must never produce a solution for a broken variable
        try:
            fs = mA.ambiguity()
            for s in range(ns):
                fs[_lab(labels, s)].suppset(zA == zhat[s])
            mA.minsup(E(sum(x.sum() for x in xA)), fs)
            for v in range(len(sizes)):
                for i in range(sizes[v]):
                    mA.st(xA[v][i] >= (i + 1) * zA)
            mA.solve(display=False)
            got_solution = mA.solution is not None and not np.isnan(mA.solution.objval)
        except Exception:
            got_solution = False
        if got_solution:
            # a solution exists although a declaration raised: check it is at least a partition model
            notes.append('solution after failed adapt')
        return dict(findings=findings, drift=drift, notes=notes, hsig=hsig, solved=False, outs=outs)

    # ---------------------------------------------------------------- rule_var: the solver columns
    # code -> spec: the column map the formulation will use (static part and slope blocks of rule_var) against the
    # declared events and dependencies (ideal) and against the specification's Col / SlopeCol (transcription)
    phase[0] = 'colmap'
    if rec.get('colsAll'):
        from harness import colmap
        cm = colmap.column_map(mB)
        ids = [id(d) for d in mB.dec_vars]
        pos = [ids.index(id(x)) for x in xB]
        ideal_ev = [[next(k for k, b in enumerate(rec['ea'][v]) if s in b) for s in range(ns)] for v in range(len(sizes))]
        seen = {}
        bad = None
        for v in range(len(sizes)):
            st_ = cm['static'][pos[v]]
            for i in range(sizes[v]):
                for s in range(ns):
                    col = st_[s][i]
                    key = ('x', v, i, ideal_ev[v][s])
                    if col < 0:
                        bad = bad or ('static-entry-not-one-column', v, i, s)
                    elif seen.setdefault(('col', col), key) != key:
                        bad = bad or ('static-column-shared-across-events' if seen[('col', col)][:3] == key[:3] else 'static-column-collision', v, i, s)
                    elif seen.setdefault(key, col) != col:
                        bad = bad or ('static-columns-differ-within-event', v, i, s)
            want_pairs = sorted((i + 1, c) for i in range(sizes[v]) for c in rec['decl'][v][i])
            for s in range(ns):
                got_pairs = sorted((i, c) for i, c, _ in cm['slopes'][pos[v]][s])
                if got_pairs != want_pairs:
                    bad = bad or ('slope-pattern-differs-from-declared', v, s, got_pairs)
                for i, c, col in cm['slopes'][pos[v]][s]:
                    key = ('s', v, i, c, ideal_ev[v][s])
                    if seen.setdefault(('col', col), key) != key:
                        bad = bad or ('slope-column-shared-across-events' if seen[('col', col)][:4] == key[:4] else 'slope-column-collision', v, i, s)
                    elif seen.setdefault(key, col) != col:
                        bad = bad or ('slope-columns-differ-within-event', v, i, s)
        if bad:
            findings.append(dict(sig='C13:colmap:' + bad[0], prop='C13',
                                 what='rule_var column map is not one rule per declared event (%s at variable %d)' % (bad[0], bad[1] + 1),
                                 at=list(bad[1:]), static=[cm['static'][q] for q in pos], slopes=[cm['slopes'][q] for q in pos],
                                 ea=rec['ea'], decl=rec['decl'], hist=hist))
        else:
            # transcription: the very column numbers (relative to the first of each kind)
            got_st = [[cm['static'][pos[v]][s] for s in range(ns)] for v in range(len(sizes))]
            base_g = min(c for a in got_st for b in a for c in b)
            base_w = min(c for a in rec['colsAll'] for b in a for c in b)
            if [[[c - base_g for c in b] for b in a] for a in got_st] != [[[c - base_w for c in b] for b in a] for a in rec['colsAll']]:
                drift.append(dict(kind='static_cols', want=rec['colsAll'], got=got_st))
            got_sl = [[[list(t) for t in cm['slopes'][pos[v]][s]] for s in range(ns)] for v in range(len(sizes))]
            allc = [t[2] for a in got_sl for b in a for t in b]
            if allc:
                b0 = min(allc)
                rel = [[[[t[0], t[1], t[2] - b0] for t in b] for b in a] for a in got_sl]
                if rel != [[[list(t) for t in b] for b in a] for a in rec['scols']]:
                    drift.append(dict(kind='slope_cols', want=rec['scols'], got=rel))

    # ---------------------------------------------------------------- comb_set via x1 + x2
    phase[0] = 'comb'
    if len(sizes) >= 2 and rec['comb']:
        try:
            expr = xA[0].sum() + xA[1].sum()
            comb = [sorted(int(s) for s in b) for b in expr.event_adapt]
            want_blocks = sorted(sorted(b) for b in rec['comb'])
            if sorted(comb) != want_blocks:
                findings.append(dict(sig='C13:comb-not-meet', prop='C13', what='partition of x1+x2 is not the common refinement',
                                     want=want_blocks, got=comb, hist=hist))
            elif [list(map(int, b)) for b in expr.event_adapt] != rec['comb']:
                drift.append(dict(kind='comb_order', want=rec['comb'], got=expr.event_adapt))
            # the common refinement is symmetric and the same for every way of combining the two decisions
            # (TLC: CombIsMeet is stated on the unordered pair)
            for name, mk in (('x2+x1', lambda: xA[1].sum() + xA[0].sum()), ('x1-2*x2', lambda: xA[0].sum() - 2 * xA[1].sum()),
                             ('x2-x1<=1', lambda: xA[1].sum() - xA[0].sum() <= 1), ('2*x2+x1', lambda: 2 * xA[1].sum() + xA[0].sum())):
                e2 = mk()
                got2 = sorted(sorted(int(s_) for s_ in b) for b in e2.event_adapt)
                if got2 != want_blocks:
                    findings.append(dict(sig='C13:comb-not-meet:%s' % name.replace('*', '').replace('<=1', '-row'), prop='C13',
                                         what='partition of %s is not the common refinement' % name, want=want_blocks, got=got2, hist=hist))
                    break
        except AttributeError:
            notes.append('no event_adapt on expression')

    # ---------------------------------------------------------------- solve A: events, labels, optimum
    phase[0] = 'solveA'
    fs = mA.ambiguity()
    for s in range(ns):
        fs[_lab(labels, s)].suppset(zA == zhat[s])
    fs.probset(mA.p == 1.0 / ns)
    mA.minsup(E(sum(x.sum() for x in xA)), fs)
    for v in range(len(sizes)):
        for i in range(sizes[v]):
            mA.st(xA[v][i] >= (i + 1) * zA)
    try:
        mA.solve(display=False)
        objA = mA.get()
    except Exception as e:  # promised to succeed
        findings.append(dict(sig='C13:solve-raised:' + type(e).__name__, prop='C13', what='solve of event-wise model raised %r' % e, hist=hist))
        return dict(findings=findings, drift=drift, notes=notes, hsig=hsig, solved=False, outs=outs)
    want_obj = rec['objNS'] / ns
    if abs(objA - want_obj) > TOL * (1 + abs(want_obj)):
        findings.append(dict(sig='C13:event-optimum:' + ('low' if objA < want_obj else 'high'), prop='C13',
                             what='optimum under declared event adaptation differs', want=want_obj, got=objA, hist=hist))
    import pandas as pd
    for v in range(len(sizes)):
        val = xA[v].get()
        nblocks = len(rec['ea'][v])
        for s in range(ns):
            want = np.array([(i + 1) * rec['evmax'][v][s] for i in range(sizes[v])], dtype=float)
            if isinstance(val, pd.Series):
                lab = _lab(labels, s)
                got = np.array(val[lab], dtype=float).reshape(-1)
                if list(val.index) != [(_lab(labels, k)) for k in range(ns)]:
                    findings.append(dict(sig='C12:series-index', prop='C12', what='per-scenario Series not indexed by the scenario labels', hist=hist))
                    break
            else:
                got = np.array(val, dtype=float).reshape(-1)
                if nblocks > 1:
                    findings.append(dict(sig='C12:no-series', prop='C12', what='event-wise variable returned a plain array', hist=hist))
                    break
            if got.shape != want.shape or np.max(np.abs(got - want)) > 1e-5:
                order_ok = [b for b in rec['ea'][v]] == sorted(rec['ea'][v], key=lambda b: min(b)) and \
                    all(b == sorted(b) for b in rec['ea'][v])
                flat = [s_ for b in rec['ea'][v] for s_ in b]
                findings.append(dict(sig='C12:label-mismatch:' + ('flat-order-differs' if flat != list(range(ns)) else 'flat-order-sorted'),
                                     prop='C12', what='value reported under a scenario label is not the value of that scenario\'s event',
                                     v=v + 1, scen=s, want=want.tolist(), got=got.tolist(), ea=rec['ea'][v], hist=hist))
                break
        # x() must agree with x.get() only for non-adaptive variables (call needs a realisation otherwise)

    # ---------------------------------------------------------------- solve B: masks
    phase[0] = 'solveB'
    any_aff = any(st['act'] == 'adapt_affine' for st in hist)
    if any_aff:
        fb = mB.ambiguity()
        fb.suppset(zB <= 1, zB >= -1)
        mB.minsup(E(sum(t.sum() for t in tB)), fb)
        w = np.arange(1, nr + 1, dtype=float)
        for v in range(len(sizes)):
            for i in range(sizes[v]):
                mB.st(xB[v][i] - w @ zB <= tB[v][i], w @ zB - xB[v][i] <= tB[v][i])
        try:
            mB.solve(display=False)
            objB = mB.get()
        except Exception as e:
            findings.append(dict(sig='C13:solve-raised-affine:' + type(e).__name__, prop='C13', what='solve of affinely adaptive model raised %r' % e, hist=hist))
            return dict(findings=findings, drift=drift, notes=notes, hsig=hsig, solved=True, outs=outs)
        want_objB = 0.0
        for v in range(len(sizes)):
            for i in range(sizes[v]):
                want_objB += sum(cc for cc in range(1, nr + 1) if cc not in rec['decl'][v][i])
        if abs(objB - want_objB) > 1e-5 * (1 + want_objB):
            lost = objB > want_objB
            findings.append(dict(sig='C13:mask-optimum:' + ('dependency-lost' if lost else 'dependency-gained') + _slice_tag(hist),
                                 prop='C13', what='optimum differs from the one under exactly the declared dependencies',
                                 want=want_objB, got=objB, decl=rec['decl'], hist=hist))
        # NaN pattern of the coefficient query
        for v in range(len(sizes)):
            if not any(rec['decl'][v][i] for i in range(sizes[v])):
                continue
            try:
                coef = xB[v].get(zB)
            except Exception as e:
                findings.append(dict(sig='C12:coef-query-raised:' + type(e).__name__, prop='C12', what='x.get(z) raised %r' % e, hist=hist))
                continue
            arrs = list(coef) if isinstance(coef, pd.Series) else [coef]
            for a in arrs:
                a = np.array(a, dtype=float).reshape(sizes[v], nr)
                for i in range(sizes[v]):
                    for cc in range(nr):
                        isnan = bool(np.isnan(a[i, cc]))
                        declared_dep = (cc + 1) in rec['decl'][v][i]
                        if isnan == declared_dep:
                            findings.append(dict(sig='C12:coef-nan-pattern' + _slice_tag(hist), prop='C12',
                                                 what='decision-rule coefficient query NaN pattern differs from declared dependencies',
                                                 v=v + 1, entry=i, comp=cc + 1, got=a.tolist(), decl=rec['decl'][v], hist=hist))
                            break
                    else:
                        continue
                    break
                else:
                    continue
                break
    # ---------------------------------------------------------------- adaptive decision x random variable must be rejected
    # (dro.py ro_to_roc: a decision that is affinely adaptive may not be multiplied by a random variable - the product
    # would be quadratic in z; the model must refuse to formulate, not compile something else)
    phase[0] = 'product'
    if any_aff and job.get('tidx', 0) % 2 == 0:
        target = [(v, i) for v in range(len(sizes)) for i in range(sizes[v]) if rec['decl'][v][i]]
        if target:
            v, i = target[len(hist) % len(target)]
            mC = _new_model(ns, labels)
            zC = mC.rvar(nr)
            xC = [mC.dvar(sizes[q], vtypes[q]) for q in range(len(sizes))]
            slC = []
            for step in hist:
                _apply(step, xC, zC, slC, labels, ns)
            fC = mC.ambiguity()
            fC.suppset(zC <= 1, zC >= -1)
            mC.minsup(E(sum(x.sum() for x in xC)), fC)
            for q in range(len(sizes)):
                mC.st(xC[q] >= -1, xC[q] <= 1)
            accepted = None
            as_expectation = job.get('tidx', 0) % 4 == 2      # the same product under E(): the expectation path of the compiler
            try:
                mC.st(E(xC[v][i] * zC[0]) <= 5 if as_expectation else xC[v][i] * zC[0] <= 5)
                mC.solve(display=False)
                accepted = 'solved' if mC.solution is not None else 'formulated'
            except Exception as e:
                import traceback
                if not any('/rsome/' in fr.filename for fr in traceback.extract_tb(e.__traceback__)):
                    raise
            if accepted:
                findings.append(dict(sig='C13:adaptive-times-random-accepted' + (':under-expectation' if as_expectation else ''), prop='C13',
                                     what='x[%d][%d] is affinely adaptive (declared %s) and %s <= 5 was %s instead of being rejected' % (v + 1, i, rec['decl'][v][i], 'E(x*z[0])' if as_expectation else 'x*z[0]', accepted),
                                     hist=hist))
            else:
                notes.append('product-rejected')
    # ---------------------------------------------------------------- solve D: WHICH rule is reported for WHICH scenario
    # every event gets its own optimal rule: scenario s lives on z in [0,1]^nr (s even) or [-1,0]^nr (s odd) with conditional
    # mean +-1/2; x_i >= (i+1)|z_c| for the first declared component c of entry i; minimise the worst-case expectation.
    # Unique optimum per event: slope +(i+1) on c if all its scenarios are even, -(i+1) if all are odd, 0 (intercept i+1) if
    # it mixes both - so coefficients reported under a wrong scenario label, or differing inside an event, are visible.
    phase[0] = 'solveD'
    if any_aff and job.get('tidx', 0) % 2 == 1 and any(rec['decl'][v][i] for v in range(len(sizes)) for i in range(sizes[v])):
        import pandas as pd
        mD = _new_model(ns, labels)
        zD = mD.rvar(nr)
        xD = [mD.dvar(sizes[q], vtypes[q]) for q in range(len(sizes))]
        slD = []
        for step in hist:
            _apply(step, xD, zD, slD, labels, ns)
        fD = mD.ambiguity()
        for sc_ in range(ns):
            sgn = 1.0 if sc_ % 2 == 0 else -1.0
            fD[_lab(labels, sc_)].suppset(zD >= min(0.0, sgn), zD <= max(0.0, sgn))
            fD[_lab(labels, sc_)].exptset(E(zD) == np.full(nr, 0.5 * sgn))
        fD.probset(mD.p == 1.0 / ns)
        mD.minsup(E(sum(x.sum() for x in xD)), fD)
        comp_of = {}
        for v in range(len(sizes)):
            for i in range(sizes[v]):
                cc = (rec['decl'][v][i] or [1])[0]
                comp_of[(v, i)] = cc
                mD.st(xD[v][i] >= (i + 1) * zD[cc - 1], xD[v][i] >= -(i + 1) * zD[cc - 1])
        try:
            mD.solve(display=False)
            okD = mD.solution is not None
        except Exception as e:
            import traceback
            if not any('/rsome/' in fr.filename for fr in traceback.extract_tb(e.__traceback__)):
                raise
            okD = False
            findings.append(dict(sig='C13:solve-raised-eventwise-affine:' + type(e).__name__, prop='C13', what='solve of the event-wise affine model raised %r' % e, hist=hist))
        if okD:
            for v in range(len(sizes)):
                if not any(rec['decl'][v][i] for i in range(sizes[v])):
                    continue
                blocks = rec['ea'][v]
                try:
                    coef = xD[v].get(zD)
                    icpt = xD[v].get()
                except Exception as e:
                    findings.append(dict(sig='C12:coef-query-raised:' + type(e).__name__, prop='C12', what='x.get(z) / x.get() raised %r' % e, hist=hist))
                    continue
                for sc_ in range(ns):
                    blk = next(b for b in blocks if sc_ in b)
                    par = set(q % 2 for q in blk)
                    sgn = 0.0 if len(par) == 2 else (1.0 if 0 in par else -1.0)
                    lab = _lab(labels, sc_)
                    cs = np.array(coef[lab] if isinstance(coef, pd.Series) else coef, dtype=float).reshape(sizes[v], nr)
                    ic = np.array(icpt[lab] if isinstance(icpt, pd.Series) else icpt, dtype=float).reshape(-1)
                    bad = None
                    for i in range(sizes[v]):
                        if not rec['decl'][v][i]:
                            continue
                        want_b = sgn * (i + 1)
                        want_a = (i + 1) if sgn == 0.0 else 0.0
                        got_b = cs[i, comp_of[(v, i)] - 1]
                        if abs(got_b - want_b) > 1e-5 or abs(ic[i] - want_a) > 1e-5:
                            bad = (i, want_a, want_b, float(ic[i]), float(got_b))
                            break
                    if bad:
                        others = sorted(set(round(float(np.array(coef[_lab(labels, q)] if isinstance(coef, pd.Series) else coef, dtype=float).reshape(sizes[v], nr)[bad[0], comp_of[(v, bad[0])] - 1]), 6)
                                            for q in blk))
                        kind = 'differs-within-event' if len(others) > 1 else 'rule-of-another-event'
                        for pr in ('C12', 'C13'):
                            findings.append(dict(sig='%s:decision-rule-coefficients:%s' % (pr, kind), prop=pr,
                                                 what='x%d[%d] in scenario %d (event %s): reported rule %.6g + %.6g z_%d, the optimal rule of that event is %.6g + %.6g z_%d'
                                                      % (v + 1, bad[0], sc_, blk, bad[3], bad[4], comp_of[(v, bad[0])], bad[1], bad[2], comp_of[(v, bad[0])]),
                                                 ea=blocks, hist=hist))
                        break
            notes.append('coefficients-checked')
    return dict(findings=findings, drift=drift, notes=notes, hsig=hsig, solved=True, outs=outs,
                objA=objA)


def _slice_tag(hist):
    return ':premade-slice' if any(st.get('slice', 0) > 0 for st in hist) else ':fresh'


def hist_sig(hist):
    parts = []
    for st in hist:
        if st['act'] == 'adapt_events':
            parts.append('E%d%s' % (st['v'], ''.join(map(str, st['E']))))
        elif st['act'] == 'mk_slice':
            parts.append('S%d[%s]' % (st['v'], ''.join(map(str, st['idx']))))
        else:
            parts.append('A%d[%s]%s%s' % (st['v'], ''.join(map(str, st['idx'])), ''.join(map(str, st['comps'])),
                                          's%d' % st['slice'] if st['slice'] else ''))
    return '.'.join(parts)


def replay(job):
    """Library exceptions where the property promises success are findings, not machinery errors."""
    import traceback
    phase = ['start']
    try:
        return _replay(job, phase)
    except Exception as e:
        tb = traceback.extract_tb(e.__traceback__)
        in_lib = any('/rsome/' in fr.filename for fr in tb)
        if not in_lib:
            raise
        hist = job['rec']['hist']
        return dict(findings=[dict(sig='C13:unexpected-exception:%s:%s' % (phase[0], type(e).__name__), prop='C13',
                                   what='rsome raised %r in phase %s of a legal program' % (e, phase[0]),
                                   where='%s:%d' % (tb[-1].filename, tb[-1].lineno), hist=hist)],
                    drift=[], notes=[], hsig=hist_sig(hist), solved=False, outs=[])
