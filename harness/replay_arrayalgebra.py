"""Spec -> code replay for ArrayAlgebra.tla (property C05).

Every job carries one state exported by TLC: the operator word (hist), the expected outcome
(ok / nperr = NumPy itself rejects the last operator / unsup = support matrix says rsome raises)
and the full expected symbolic content: per element a coefficient vector over the monomials
x_i * z_j (x_0 = z_0 = 1).  Three comparisons:

 (1) spec vs NumPy.  The word is applied to NumPy object arrays holding Python integers at a
     Kronecker point (x_i = B^i, z_j = B^((NV+1)j), B = 10^10 > 2 * any coefficient TLC can hold), where
     the value of a bi-affine form determines all of its coefficients; plus one small assignment.
     A disagreement means the spec's model of NumPy is wrong -> machinery error, never a verdict.
 (2) rsome vs spec: `linear`/`const` (`raffine`/`affine`) densified must EQUAL the exported
     content (integers, exact), after substituting the leaf's own definition (a leaf may be a
     plain variable array, a slice of a bigger one, an affine expression, a decision rule).
 (3) shape equality (`.shape` of the result, of its const and the row count of its linear part).

When (2)/(3) fail, the first deviating step is located with NumPy's intermediate values and named
in the signature.
"""
import numpy as np

KB = 10 ** 10
NONE = 99

LEAF_KINDS = ('vars', 'lp', 'varsub', 'affine', 'dro', 'ldr')
STRUCT_OPS = ('flatten', 'concat', 'rstack', 'cstack', 'vec', 'diag', 'diagfill', 'tril', 'triu', 'trace')
CTYPES = ('int', 'float', 'arr0', 'int32', 'sparse')


# ----------------------------------------------------------------------------- index helpers
def _pysel(sel):
    out = []
    for s in sel:
        k = s['k']
        if k == 'int':
            out.append(int(s['i']))
        elif k == 'sl':
            out.append(slice(*[None if v == NONE else int(v) for v in (s['a'], s['b'], s['c'])]))
        elif k == 'new':
            out.append(None)
        elif k == 'ell':
            out.append(Ellipsis)
        elif k == 'list':
            out.append([int(v) for v in s['l']])
        elif k == 'mask':
            out.append(np.array(s['m'], dtype=bool).reshape(s['sh']))
        else:
            raise ValueError('selector ' + k)
    return out[0] if len(out) == 1 else tuple(out)


def _selclass(sel):
    ks = sorted(set(('mask%d' % len(s['sh'])) if s['k'] == 'mask' else
                    ('slneg' if s['k'] == 'sl' and s['c'] != NONE and s['c'] < 0 else s['k']) for s in sel))
    return '+'.join(ks) if ks else 'empty'


def trigger(step, shape_before, ctype='int'):
    """Trigger class of one step: operator + the operand features the code's case analysis keys on."""
    op = step['op']
    r = len(shape_before)
    if op in ('add', 'sub', 'mul', 'matmul'):
        if 'leaf' in step:
            return '%s:%s:leaf%s:r%d' % (op, step['side'], step['leaf'], r)
        cs = step['c']['sh']
        ct = 'sparse' if ctype == 'sparse' and op in ('mul', 'matmul') and len(cs) == 2 else \
            'pyscalar' if len(cs) == 0 and ctype != 'arr0' else 'ndarray'
        if op == 'matmul':
            return 'matmul:%s:r%dxr%d:%s' % ('expr@c' if step['side'] == 'l' else 'c@expr', r, len(cs), ct)
        rel = 'same' if list(cs) == list(shape_before) else 'scalar' if len(cs) == 0 else \
            'c-higher-rank' if len(cs) > r else 'broadcast'
        return '%s:%s:%s:%s' % (op, 'expr.c' if step['side'] == 'l' else 'c.expr', rel, ct)
    if op == 'getitem':
        return 'getitem:' + _selclass(step['sel'])
    if op in ('diag', 'diagfill', 'tril', 'triu'):
        sq = 'non2d' if r != 2 else 'square' if shape_before[0] == shape_before[1] else 'nonsquare'
        k = step.get('k', 0)
        return '%s:%s:%s' % (op, sq, 'k0' if k == 0 else 'kx')
    if op == 'trace':
        return 'trace:' + ('non2d' if r != 2 else 'square' if shape_before[0] == shape_before[1] else 'nonsquare')
    if op == 'sumaxis':
        return 'sumaxis:r%d' % r
    if op == 'reshape':
        return 'reshape:' + ('minus1' if -1 in step['sh'] else 'explicit')
    if op in ('concat', 'rstack', 'cstack', 'vec'):
        return '%s:r%d' % (op, r)
    return op


# ----------------------------------------------------------------------------- NumPy reference
def _obj(a):
    return np.asarray(a, dtype=object)


def _cnum(c):
    return np.array([int(v) for v in c['v']], dtype=object).reshape(c['sh']) if c['sh'] else _obj(int(c['v'][0]))


def _np_part(p, cur, X):
    return cur if p['t'] == 'cur' else X if p['t'] == 'X' else _cnum(p['c'])


def np_step(step, cur, X, Z):
    op = step['op']
    if op == 'neg':
        return -cur
    if op in ('add', 'sub', 'mul', 'matmul'):
        if 'leaf' in step:
            o = {'X': X, 'XT': None if X is None else X.T, 'Z': Z, 'ZT': None if Z is None else Z.T}[step['leaf']]
        else:
            o = _cnum(step['c'])
        a, b = (cur, o) if step['side'] == 'l' else (o, cur)
        return a + b if op == 'add' else a - b if op == 'sub' else a * b if op == 'mul' else a @ b
    if op == 'getitem':
        return cur[_pysel(step['sel'])]
    if op == 'reshape':
        return cur.reshape(tuple(step['sh']))
    if op == 'flatten':
        return cur.flatten()
    if op == 'T':
        return cur.T
    if op == 'sum':
        return cur.sum()
    if op == 'sumaxis':
        return cur.sum(axis=step['axis'])
    if op == 'concat':
        return np.concatenate([_np_part(p, cur, X) for p in step['parts']], axis=step['axis'])
    if op in ('rstack', 'cstack'):
        inner, outer = (1, 0) if op == 'rstack' else (0, 1)
        rows = [np.concatenate([_np_part(p, cur, X) for p in a], axis=inner) if len(a) > 1 else _np_part(a[0], cur, X)
                for a in step['args']]
        return np.concatenate(rows, axis=outer)
    if op == 'vec':
        return np.concatenate([_np_part(p, cur, X).reshape(1) for p in step['parts']])
    if op == 'diag':
        return np.diag(cur, step['k'])
    if op == 'diagfill':
        out = np.zeros(cur.shape, dtype=object)
        for i in range(cur.shape[0]):
            for j in range(cur.shape[1]):
                out[i, j] = cur[i, j] if j - i == step['k'] else 0
        return out
    if op == 'tril':
        return np.tril(cur, step['k'])
    if op == 'triu':
        return np.triu(cur, step['k'])
    if op == 'trace':
        return _obj(sum(cur[i, i] for i in range(min(cur.shape))))
    raise ValueError('op ' + op)


def np_run(rec, xvals, zvals):
    """Returns (values per step, index of the raising step or None)."""
    X = np.array(xvals, dtype=object).reshape(rec['xs']) if rec['xs'] else _obj(xvals[0])
    Z = None
    if rec['hz']:
        Z = np.array(zvals, dtype=object).reshape(rec['zs']) if rec['zs'] else _obj(zvals[0])
    hist = rec['hist']
    cur = X if hist[0]['leaf'] == 'X' else Z
    vals = [cur]
    for k, st in enumerate(hist[1:], 1):
        try:
            cur = _obj(np_step(st, cur, X, Z))
        except Exception:   # NumPy rejects the operation
            return vals, k
        vals.append(cur)
    return vals, None


def spec_eval(rec, xe, ze):
    """Value of the exported content at x = xe[1..], z = ze[1..] (xe[0] = ze[0] = 1)."""
    nr1 = rec['nr'] + 1
    out = []
    for form in rec['d']:
        v = 0
        for p, c in enumerate(form):
            if c:
                v += c * xe[p // nr1] * ze[p % nr1]
        out.append(v)
    return out


def check_numpy_model(rec):
    """(1): None when the spec agrees with NumPy, else a description."""
    nv, nr = rec['nv'], rec['nr']
    nx = int(np.prod(rec['xs'])) if rec['xs'] else 1
    nz = (int(np.prod(rec['zs'])) if rec['zs'] else 1) if rec['hz'] else 0
    last_modelled = rec['status'] == 'ok' or (rec['status'] == 'unsup' and rec['why'] in ('zero-size', 'biaffine-structural'))
    points = [([1] + [KB ** i for i in range(1, nv + 1)], [1] + [KB ** ((nv + 1) * j) for j in range(1, nr + 1)]),
              ([1] + [3 + 2 * i for i in range(1, nv + 1)], [1] + [-2 - 5 * j for j in range(1, nr + 1)])]
    keep = None
    for xe, ze in points:
        rec_np = rec if last_modelled or rec['status'] == 'nperr' else dict(rec, hist=rec['hist'][:-1])
        vals, bad = np_run(rec_np, xe[1:nx + 1], ze[1:nz + 1])
        if keep is None:
            keep = (vals, bad)
        if rec['status'] == 'nperr':
            if bad != len(rec['hist']) - 1:
                return 'spec says NumPy raises at the last step; NumPy %s' % ('returned a value' if bad is None else 'raised at step %d' % bad)
            continue
        if bad is not None:
            return 'NumPy raised at step %d where the spec gives a value' % bad
        if not last_modelled:
            continue
        got = vals[-1]
        if list(got.shape) != list(rec['sh']):
            return 'shape: spec %s NumPy %s' % (rec['sh'], list(got.shape))
        want = spec_eval(rec, xe, ze)
        if [int(v) for v in got.reshape(-1)] != want:
            return 'content differs from NumPy (shape %s)' % rec['sh']
    return None, keep


# ----------------------------------------------------------------------------- rsome side
def _mkc(c, ctype, op):
    import scipy.sparse as sp
    v = np.array(c['v'], dtype=np.int64).reshape(c['sh'])
    if ctype == 'sparse':
        if op in ('mul', 'matmul') and v.ndim == 2:
            return sp.csr_matrix(v)
        ctype = 'int'
    if ctype == 'arr0':
        return v
    if ctype == 'float':
        return float(v) if v.ndim == 0 else v.astype(float)
    if ctype == 'int32':
        return int(v) if v.ndim == 0 else v.astype(np.int32)
    return int(v) if v.ndim == 0 else v


class Ctx:
    pass


def build(rec, leaf):
    """Model + leaves.  BX[i] / BZ[j]: the leaf elements' own bi-affine definition over the model columns."""
    c = Ctx()
    xs, zs, hz = tuple(rec['xs']), tuple(rec['zs']), rec['hz']
    c.leaf = leaf
    if leaf == 'lp':
        from rsome import lp
        m = lp.Model()
        m.dvar(2)
        x = m.dvar(xs)
        m.dvar((1, 2))
        c.dec, c.rand, z = m, None, None
    elif leaf == 'dro':
        from rsome import dro
        m = dro.Model(2)
        m.dvar(2)
        z0 = m.rvar(2)
        x = m.dvar(xs)
        z = m.rvar(zs) if hz else None
        m.dvar(3)
        c.dec, c.rand = x.model, z0.model
    else:
        from rsome import ro
        m = ro.Model()
        m.dvar(2)
        z0 = m.rvar(2)
        c.dec, c.rand = m.rc_model, m.sup_model
        z = m.rvar(zs) if hz else None
        if leaf == 'vars':
            x = m.dvar(xs)
        elif leaf == 'varsub':
            if xs == ():
                big = m.dvar(3)
                sel = 1
            else:
                big = m.dvar(tuple(n + 1 for n in xs))
                sel = tuple([slice(1, None)] * (len(xs) - 1) + [slice(None, 0, -1) if len(xs) > 1 else slice(1, None)])
            x = big[sel]
            c.bx_cols = (big.first + np.arange(big.size).reshape(big.shape)[sel]).reshape(-1)
        elif leaf == 'affine':
            w = m.dvar(xs)
            x = 3 * w[::-1] - 2 if xs else 3 * w - 2
        elif leaf == 'ldr':
            x = m.ldr(xs)
            x.adapt(z0)
            x.to_affine()      # creates the coefficient variables of the rule
        else:
            raise ValueError(leaf)
        m.dvar(3)
    c.m, c.x, c.z = m, x, z
    c.ncd = c.dec.last
    c.ncr = c.rand.last if c.rand is not None else 0
    nv, nr = rec['nv'], rec['nr']
    nx = int(np.prod(xs)) if xs else 1
    BX = np.zeros((nv + 1, c.ncd + 1, c.ncr + 1))
    BX[0, 0, 0] = 1
    if leaf in ('vars', 'lp', 'dro'):
        for i in range(nx):
            BX[1 + i, 1 + x.first + i, 0] = 1
    elif leaf == 'varsub':
        for i in range(nx):
            BX[1 + i, 1 + c.bx_cols[i], 0] = 1
    else:   # the leaf's definition is what rsome itself says it is; distinct columns per element
        t, shp, _ = dense(x, c)
        if tuple(shp) != xs:
            raise RuntimeError('leaf of kind %s has shape %s' % (leaf, shp))
        BX[1:1 + nx] = t
    BZ = np.zeros((nr + 1, c.ncd + 1, c.ncr + 1))
    BZ[0, 0, 0] = 1
    if hz:
        for j in range(int(np.prod(zs)) if zs else 1):
            BZ[1 + j, 0, 1 + z.first + j] = 1
    c.BX, c.BZ = BX, BZ
    return c


def _lin(a, ncol):
    L = a.linear
    L = L.toarray() if hasattr(L, 'toarray') else np.asarray(L)
    if L.shape[1] > ncol:
        if np.any(L[:, ncol:]):
            raise RuntimeError('coefficient outside the model columns')
        L = L[:, :ncol]
    if L.shape[1] < ncol:
        L = np.hstack([L, np.zeros((L.shape[0], ncol - L.shape[1]))])
    return L


def dense(e, c):
    """rsome object -> (tensor[size, 1+ncd, 1+ncr], shape, problems)."""
    probs = []
    attr_shape = None
    if isinstance(e, (np.ndarray, int, float, np.number)):
        a = np.asarray(e, dtype=float)
        t = np.zeros((a.size, c.ncd + 1, c.ncr + 1))
        t[:, 0, 0] = a.reshape(-1)
        return t, tuple(a.shape), probs
    if not hasattr(e, 'raffine') and not hasattr(e, 'linear'):
        attr_shape = tuple(int(v) for v in e.shape) if hasattr(e, 'shape') else None
        e = e.to_affine()
    if hasattr(e, 'raffine'):
        aff, raf = e.affine, e.raffine
        shape = tuple(int(v) for v in e.shape)
        size = int(np.prod(shape)) if shape else 1
        t = np.zeros((size, c.ncd + 1, c.ncr + 1))
        if hasattr(aff, 'linear'):
            if tuple(aff.const.shape) != shape:
                probs.append('affine.const shape %s vs shape %s' % (aff.const.shape, shape))
            La = _lin(aff, c.ncd)
            if La.shape[0] != size:
                probs.append('affine.linear rows %d vs size %d' % (La.shape[0], size))
            else:
                t[:, 1:, 0] = La
                t[:, 0, 0] = np.asarray(aff.const, dtype=float).reshape(-1)[:size] if np.size(aff.const) == size else 0
        else:
            t[:, 0, 0] = np.asarray(aff, dtype=float).reshape(-1)
        nrr = raf.shape[1]
        if raf.shape[0] != size or nrr > c.ncr:
            probs.append('raffine shape %s vs size %d' % (raf.shape, size))
        else:
            Lr = _lin(raf, c.ncd)
            if Lr.shape[0] != size * nrr:
                probs.append('raffine.linear rows %d' % Lr.shape[0])
            else:
                t[:, 1:, 1:1 + nrr] = Lr.reshape(size, nrr, c.ncd).transpose(0, 2, 1)
                t[:, 0, 1:1 + nrr] = np.asarray(raf.const, dtype=float).reshape(size, nrr)
        return t, shape, probs
    shape = tuple(int(v) for v in e.shape)
    size = int(np.prod(shape)) if shape else 1
    const = np.asarray(e.const, dtype=float)
    if tuple(const.shape) != shape:
        probs.append('const shape %s vs shape %s' % (const.shape, shape))
    isrand = c.rand is not None and e.model is c.rand
    L = _lin(e, c.ncr if isrand else c.ncd)
    t = np.zeros((size, c.ncd + 1, c.ncr + 1))
    if L.shape[0] != size:
        probs.append('linear rows %d vs size %d' % (L.shape[0], size))
    else:
        if isrand:
            t[:, 0, 1:] = L
        else:
            t[:, 1:, 0] = L
        if const.size == size:
            t[:, 0, 0] = const.reshape(-1)
    if attr_shape is not None and attr_shape != shape:
        probs.append('ATTR:.shape attribute %s but the expression has shape %s' % (attr_shape, shape))
    return t, shape, probs


def expected_tensor(rec, c, forms=None):
    nv, nr = rec['nv'], rec['nr']
    T = np.array(rec['d'] if forms is None else forms, dtype=float).reshape(-1, nv + 1, nr + 1)
    E = np.einsum('ei,iab->eab', T[:, :, 0], c.BX)
    if nr:
        E += np.einsum('ej,jab->eab', T[:, 0, 1:], c.BZ[1:])
        E += np.einsum('eij,ia,jb->eab', T[:, 1:, 1:], c.BX[1:, :, 0], c.BZ[1:, 0, :])
    return E


def _rs_part(p, cur, c, ctype):
    if p['t'] == 'cur':
        return cur
    if p['t'] == 'X':
        return c.x
    return _mkc(p['c'], ctype if ctype != 'sparse' else 'int', 'concat')


def rs_step(step, cur, c, ctype):
    import rsome as rso
    op = step['op']
    if op == 'neg':
        return -cur
    if op in ('add', 'sub', 'mul', 'matmul'):
        if 'leaf' in step:
            n = step['leaf']
            o = c.x if n == 'X' else c.x.T if n == 'XT' else c.z if n == 'Z' else c.z.T
        else:
            o = _mkc(step['c'], ctype, op)
        a, b = (cur, o) if step['side'] == 'l' else (o, cur)
        return a + b if op == 'add' else a - b if op == 'sub' else a * b if op == 'mul' else a @ b
    if op == 'getitem':
        return cur[_pysel(step['sel'])]
    if op == 'reshape':
        sh = tuple(step['sh'])
        return cur.reshape(sh[0] if len(sh) == 1 and ctype in ('arr0', 'int32') else sh)
    if op == 'flatten':
        return cur.flatten()
    if op == 'T':
        return cur.T
    if op == 'sum':
        return cur.sum()
    if op == 'sumaxis':
        return cur.sum(axis=step['axis'])
    if op == 'concat':
        return rso.concat([_rs_part(p, cur, c, ctype) for p in step['parts']], axis=step['axis'])
    if op in ('rstack', 'cstack'):
        f = rso.rstack if op == 'rstack' else rso.cstack
        return f(*[[_rs_part(p, cur, c, ctype) for p in a] if len(a) > 1 else _rs_part(a[0], cur, c, ctype)
                   for a in step['args']])
    if op == 'vec':
        return rso.vec(*[_rs_part(p, cur, c, ctype) for p in step['parts']])
    if op == 'diag':
        return rso.diag(cur, step['k'])
    if op == 'diagfill':
        return rso.diag(cur, step['k'], fill=True)
    if op == 'tril':
        return rso.tril(cur, step['k'])
    if op == 'triu':
        return rso.triu(cur, step['k'])
    if op == 'trace':
        return rso.trace(cur)
    raise ValueError('op ' + op)


def _col_point(c):
    """A Kronecker point in the space of MODEL COLUMNS: a bi-affine form over the columns is determined by
    its value there.  Used only to locate the first deviating step (any leaf kind)."""
    dval = [KB ** a for a in range(c.ncd + 1)]
    rval = [KB ** ((c.ncd + 1) * b) for b in range(c.ncr + 1)]
    return dval, rval


def _tensor_value(t, dval, rval):
    out = []
    for e in range(t.shape[0]):
        v = 0
        for a, b in np.argwhere(t[e]):
            v += int(round(float(t[e, a, b]))) * dval[int(a)] * rval[int(b)]
        out.append(v)
    return out


def first_deviation(rec, c, exprs, upto):
    """First step k <= upto whose rsome result differs (shape / content) from NumPy's intermediate
    result at a column-space Kronecker point; None when all agree."""
    dval, rval = _col_point(c)
    nx = int(np.prod(rec['xs'])) if rec['xs'] else 1
    nz = (int(np.prod(rec['zs'])) if rec['zs'] else 1) if rec['hz'] else 0
    xv = _tensor_value(c.BX[1:1 + nx], dval, rval)
    zv = _tensor_value(c.BZ[1:1 + nz], dval, rval)
    vals, _ = np_run(dict(rec, hist=rec['hist'][:upto + 1]), xv, zv)
    for k in range(1, min(upto, len(vals) - 1, len(exprs) - 1) + 1):
        tk, shk, pk = dense(exprs[k], c)
        pk = [q for q in pk if not q.startswith('ATTR:')]
        if list(shk) != list(vals[k].shape) or pk:
            return k, 'wrong-shape', 'shape %s, NumPy %s %s' % (list(shk), list(vals[k].shape), pk)
        if _tensor_value(tk, dval, rval) != [int(u) for u in vals[k].reshape(-1)]:
            return k, 'wrong-content', 'content of the intermediate result differs from NumPy'
    return None


def kind_name(e):
    return type(e).__name__


def _replay(job):
    rec, leaf, ctype = job['rec'], job['leaf'], job['ctype']
    hist = rec['hist']
    key = hist_sig(hist)
    out = dict(key=key, findings=[], notes=[], outcome='', leaf=leaf, ctype=ctype)
    # ---- (1) the spec's model of NumPy
    chk = check_numpy_model(rec)
    if not isinstance(chk, tuple):
        return dict(machinery_error='ArrayAlgebra.tla disagrees with NumPy on %s: %s' % (key, chk), job=job)
    # ---- (2)+(3) rsome
    import rsome  # noqa
    c = build(rec, leaf)
    cur = c.x if hist[0]['leaf'] == 'X' else c.z
    exprs = [cur]
    shapes = [tuple(rec['xs']) if hist[0]['leaf'] == 'X' else tuple(rec['zs'])]
    raised = None

    def _snap(e):
        try:
            return dense(e, c)[0].copy()
        except Exception:
            return None
    import zlib
    touch = zlib.crc32(repr(key).encode()) % 2 == 1

    def _touch(e):
        # discarded uses of the operand (index, axis sum, transpose, reshape): they may fill caches on the object, and must
        # not change what the operators applied afterwards return (an expression means the same wherever it is used)
        for f in (lambda: e[0], lambda: e.sum(axis=0), lambda: e.T, lambda: e.reshape((e.size if hasattr(e, 'size') else -1,))):
            try:
                r_ = f()
                if not hasattr(r_, 'linear') and not hasattr(r_, 'raffine') and hasattr(r_, 'to_affine'):
                    r_.to_affine()
            except Exception:
                pass
    for k, st in enumerate(hist[1:], 1):
        if touch:
            _touch(cur)
        before = _snap(cur)
        prev = cur
        try:
            cur = rs_step(st, cur, c, ctype)
            if not hasattr(cur, 'linear') and not hasattr(cur, 'raffine') and hasattr(cur, 'to_affine'):
                cur.to_affine()      # slices of variables / rules are lazy: the expression they denote must exist
        except Exception as e:   # noqa
            import traceback
            tb = traceback.extract_tb(e.__traceback__)
            lib = [fr for fr in tb if '/rsome/' in fr.filename]
            if not lib and tb[-1].filename.endswith('replay_arrayalgebra.py') and tb[-1].name not in ('rs_step', '_replay'):
                raise       # a bug of this harness, not an answer of the library
            raised = (k, type(e).__name__, str(e)[:200], ('%s:%d' % (lib[-1].filename, lib[-1].lineno)) if lib else 'numpy/scipy')
            break
        exprs.append(cur)
        # operators denote functions: applying one must not change what its operand denotes
        # (a result that aliases and then edits the operand's matrices corrupts every later use of the operand)
        after = _snap(prev)
        if before is not None and after is not None and (before.shape != after.shape or not np.array_equal(before, after)):
            out['findings'].append(dict(sig='C05:operand-changed-by-operator:%s:%s' % (st['op'], kind_name(prev)), prop='C05', step=k,
                                        what='the operand of step %d denotes another function after the operator was applied' % k,
                                        hist=hist[:k + 1], leaf=leaf, ctype=ctype))
        try:
            shapes.append(tuple(int(v) for v in (cur.to_affine().shape if not hasattr(cur, 'linear') and not hasattr(cur, 'raffine') and hasattr(cur, 'to_affine') else cur.shape)))
        except Exception:
            shapes.append(())
    last = len(hist) - 1
    status = rec['status']

    def sig_for(kind, k):
        return 'C05:%s:%s:%s' % (kind, trigger(hist[k], shapes[k - 1] if k - 1 < len(shapes) else (), ctype), kind_name(exprs[k - 1]))

    if raised is not None:
        k, tname, msg, where = raised
        if k == last and status in ('nperr', 'unsup'):
            out['outcome'] = 'raise-' + status
            return out
        if leaf == 'ldr' and hist[k]['op'] in STRUCT_OPS:
            # a decision rule is a RoAffine from the start: support-matrix entry biaffine-structural
            out['outcome'] = 'raise-unsup'
            return out
        dev = first_deviation(rec, c, exprs, k - 1) if k > 1 else None
        if dev is not None:
            out['outcome'] = dev[1]
            out['findings'].append(dict(sig=sig_for(dev[1], dev[0]), prop='C05', step=dev[0], what=dev[2],
                                        consequence='step %d then raised %s(%s)' % (k, tname, msg),
                                        hist=hist[:dev[0] + 1], full_hist=hist, leaf=leaf, ctype=ctype))
            return out
        out['outcome'] = 'raised'
        if tname in ('NameError', 'UnboundLocalError'):
            # never a refusal of an unsupported operation: the library ran into its own undefined name
            out['findings'].append(dict(sig='C05:internal-error:%s:%s:%s' % (hist[k]['op'], kind_name(exprs[k - 1]), tname), prop='C05', step=k,
                                        what='rsome raised %s(%s) inside an operation the support matrix lists' % (tname, msg), where=where,
                                        hist=hist[:k + 1], leaf=leaf, ctype=ctype))
            return out
        # the operand class has no such method at all (raised at the call itself or in the rsome.math wrapper)
        nosuch = ((tname == 'AttributeError' and 'has no attribute' in msg) or (tname == 'TypeError' and 'not subscriptable' in msg)) \
            and (where == 'numpy/scipy' or '/rsome/math.py' in where)
        out['findings'].append(dict(sig=('C05:unsupported-raises:%s:%s:no-such-operation' % (hist[k]['op'], kind_name(exprs[k - 1])))
                                    if nosuch else sig_for('unsupported-raises', k), prop='C05', step=k,
                                    trigger=trigger(hist[k], shapes[k - 1], ctype),
                                    what='rsome raised %s(%s) where NumPy gives a value and the support matrix lists the operation' % (tname, msg),
                                    where=where, hist=hist[:k + 1], leaf=leaf, ctype=ctype))
        return out
    if status == 'nperr':
        out['outcome'] = 'value-where-numpy-raises'
        out['notes'].append('returns a value where NumPy raises: ' + trigger(hist[last], shapes[last - 1]))
        return out
    if status == 'unsup' and rec['why'] not in ('zero-size', 'biaffine-structural'):
        out['outcome'] = 'value-where-unsupported'
        out['notes'].append('returns a value for %s (%s)' % (trigger(hist[last], shapes[last - 1]), rec['why']))
        return out
    t, shape, probs = dense(cur, c)
    attr = [p for p in probs if p.startswith('ATTR:')]
    probs = [p for p in probs if not p.startswith('ATTR:')]
    bad = None
    if list(shape) != list(rec['sh']) or probs:
        bad = ('wrong-shape', 'shape %s, expected %s %s' % (list(shape), rec['sh'], probs))
    else:
        E = expected_tensor(rec, c)
        if t.shape != E.shape or not np.array_equal(t, E):
            diff = np.argwhere(t != E) if t.shape == E.shape else []
            bad = ('wrong-content', '%d coefficient(s) differ, first at (element, dec col, rand col) %s: got %s expected %s'
                   % (len(diff), diff[0].tolist() if len(diff) else '-', t[tuple(diff[0])] if len(diff) else '-',
                      E[tuple(diff[0])] if len(diff) else '-'))
    if attr:
        # the public .shape attribute of the result object (before to_affine) is not the array's shape
        out['findings'].append(dict(sig='C05:wrong-shape-attr:%s:%s' % (hist[last]['op'] if last else 'start', kind_name(cur)), prop='C05',
                                    what=attr[0][5:], hist=hist, leaf=leaf, ctype=ctype))
    if bad is None:
        out['outcome'] = 'equal' if status == 'ok' else 'equal-beyond-matrix'
        if status != 'ok':
            out['notes'].append('correct value although the support matrix says unsupported (%s): %s' % (rec['why'], trigger(hist[last], shapes[last - 1])))
        return out
    # ---- locate the first deviating step with NumPy's intermediate values
    dev = first_deviation(rec, c, exprs, last)
    first, kind_at = (dev[0], dev[1]) if dev is not None else (last, bad[0])
    out['outcome'] = bad[0]
    out['findings'].append(dict(sig=sig_for(kind_at, first), prop='C05', step=first, what=bad[1] if first == last else dev[2],
                                hist=hist[:first + 1], full_hist=hist, leaf=leaf, ctype=ctype,
                                expected_shape=rec['sh'], got_shape=list(shape)))
    return out


def hist_sig(hist):
    parts = []
    for st in hist:
        op = st['op']
        if op == 'start':
            parts.append(st['leaf'])
        elif 'leaf' in st:
            parts.append('%s%s(%s)' % (op, st['side'], st['leaf']))
        elif 'c' in st:
            parts.append('%s%s%s' % (op, st['side'], 'x'.join(map(str, st['c']['sh'])) or 's'))
        elif op == 'getitem':
            parts.append('[' + ','.join(_selstr(s) for s in st['sel']) + ']')
        elif op == 'reshape':
            parts.append('rs' + 'x'.join(map(str, st['sh'])))
        elif op == 'sumaxis':
            parts.append('sum%d' % st['axis'])
        elif op in ('concat',):
            parts.append('cat%d(%s)' % (st['axis'], ''.join(_pstr(p) for p in st['parts'])))
        elif op in ('rstack', 'cstack'):
            parts.append('%s(%s)' % (op, '|'.join(''.join(_pstr(p) for p in a) for a in st['args'])))
        elif op == 'vec':
            parts.append('vec(%s)' % ''.join(_pstr(p) for p in st['parts']))
        elif 'k' in st:
            parts.append('%s%d' % (op, st['k']))
        else:
            parts.append(op)
    return '.'.join(parts)


def _pstr(p):
    return 'e' if p['t'] == 'cur' else 'X' if p['t'] == 'X' else 'c' + 'x'.join(map(str, p['c']['sh']))


def _selstr(s):
    k = s['k']
    if k == 'int':
        return str(s['i'])
    if k == 'sl':
        return ':'.join('' if v == NONE else str(v) for v in (s['a'], s['b'], s['c']))
    if k == 'new':
        return 'None'
    if k == 'ell':
        return '...'
    if k == 'list':
        return 'L' + ''.join(map(str, s['l']))
    return 'M' + ''.join('1' if b else '0' for b in s['m'])


def replay(job):
    return _replay(job)
