"""Spec -> code replay for Incremental.tla: a model is solved, extended, solved again; the result and (for the deterministic
classes) the standard form must be those of the same declarations built from scratch."""
import math

import numpy as np

from harness.replay_userdata import sig

A0 = np.array([1.0, -1.0])


def _model(front):
    from rsome import ro, lp, socp, gcp
    return dict(lp=lp.Model, socp=socp.Model, gcp=gcp.Model, ro=ro.Model)[front]()


def _objective(rso, m, x, atom):
    if atom == 'lin':
        m.min(x[0] + 0.5 * x[1])
    elif atom == 'abs':
        m.min(rso.norm(x - A0, 1))
    elif atom == 'norm2':
        m.min(rso.norm(x - A0))
    elif atom == 'sumsqr':
        m.min(rso.sumsqr(x - A0))
    elif atom == 'square':
        m.min(rso.square(x[0] - 1.0) + x[1])
    elif atom == 'exp':
        m.min(rso.exp(x[0]) - x[1])
    else:
        raise ValueError(atom)


def _constraint(rso, x, kind, n):
    r = 2.5 + 0.25 * n
    if kind == 'lin':
        return x[0] + x[1] <= 1.0 + n
    if kind == 'abs':
        return abs(x) <= r
    if kind == 'norm2':
        return rso.norm(x) <= r
    if kind == 'square':
        return rso.square(x) <= r * r
    if kind == 'sumsqr':
        return rso.sumsqr(x) <= r * r
    if kind == 'power3':
        return rso.power(x[0], 3) <= r ** 3
    if kind == 'exp':
        return rso.exp(x) <= math.exp(r)
    if kind == 'softplus':
        return rso.softplus(-1.0 * x[0]) <= r
    if kind == 'pnorm25':
        return rso.pnorm(x, 2.5) <= r
    raise ValueError(kind)


def _solve(m, front, conic):
    if conic:
        from rsome import eco_solver
        m.solve(eco_solver, display=False)
    else:
        m.solve(display=False)
    s = m.solution
    if s is None or (isinstance(s.objval, float) and math.isnan(s.objval)):
        return None
    return float(m.get())


def run(front, obj, hist, incremental):
    import rsome as rso
    m = _model(front)
    x = m.dvar(2)
    st = (lambda c: m.st(c))
    st([x >= -3, x <= 3]) if front != 'ro' else m.st(x >= -3, x <= 3)
    _objective(rso, m, x, obj)
    conic = obj not in ('lin', 'abs') or any(h['kind'] not in ('lin', 'abs', 'newvar', '') for h in hist)
    vals, n = [], 0
    for h in hist:
        if h['act'] == 'add' and h['kind'] == 'newvar':
            # a variable declared late (after a formulation, in the incremental build) whose whole range matters: the
            # objective wants x[0] small, x[0] + 3 >= max(v, -2v) is loosest at v = 0
            n += 1
            v = m.dvar()
            st(v >= -5) if front != 'ro' else m.st(v >= -5)
            st(v <= 5) if front != 'ro' else m.st(v <= 5)
            st(x[0] + 3 >= v) if front != 'ro' else m.st(x[0] + 3 >= v)
            st(x[0] + 3 >= -2 * v) if front != 'ro' else m.st(x[0] + 3 >= -2 * v)
        elif h['act'] == 'add':
            n += 1
            st(_constraint(rso, x, h['kind'], n))
        elif incremental:
            vals.append(_solve(m, front, conic))
    final = _solve(m, front, conic)
    f = m.do_math()
    return dict(final=final, steps=vals, sig=sig(f), ncols=int(f.linear.shape[1]), lb=[float(v) for v in np.asarray(f.lb, dtype=float)],
                xs=[float(v) for v in np.array(x.get(), dtype=float).reshape(-1)] if final is not None else None)


def replay(job):
    import traceback
    c = job['case']
    out = dict(tid=job['tid'])
    for key, inc in (('incremental', True), ('fresh', False)):
        try:
            out[key] = run(c['front'], c['obj'], c['hist'], inc)
        except Exception as e:
            tb = traceback.extract_tb(e.__traceback__)
            if not any('/rsome/' in fr.filename for fr in tb):
                raise
            out[key] = dict(exc='%s: %s' % (type(e).__name__, str(e)[:150]))
    return out
