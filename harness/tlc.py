"""Thin wrapper around TLC: run a spec+cfg, collect exported JSON records (PrintT(ToJson(..))),
state counts, per-action coverage, and invariant violations.

Everything TLC prints goes to a log file in a scratch directory that is removed by the caller
(see Scratch).  Exit conventions of the framework: machinery failure -> MachineryError (exit 2).
"""
import json
import os
import re
import shutil
import subprocess
import tempfile
import time

HERE = os.path.dirname(os.path.abspath(__file__))
ROOT = os.path.dirname(HERE)
SPEC_DIR = os.path.join(ROOT, 'spec')
JAVA_CP = '/opt/veriftools/tla/tla2tools.jar:/opt/veriftools/tla/CommunityModules-deps.jar'


class MachineryError(Exception):
    pass


class LibraryFailure(MachineryError):
    """The LIBRARY raised inside a step the harness expects to succeed (model building, formulation of a model of the family, ...):
    not a failure of the machinery but an observation about the code under test; bin/check turns it into a violation."""

    def __init__(self, msg, failures):
        super().__init__(msg)
        self.failures = failures


class Scratch:
    """Scratch directory outside /repo and /verif, removed on exit."""

    def __init__(self, prefix='rsome-verif-'):
        self.prefix = prefix
        self.path = None

    def __enter__(self):
        self.path = tempfile.mkdtemp(prefix=self.prefix, dir=os.environ.get('VERIF_TMP', '/tmp'))
        return self.path

    def __exit__(self, *exc):
        shutil.rmtree(self.path, ignore_errors=True)


_RE_STATES = re.compile(r'(\d+) states generated, (\d+) distinct states found')
_RE_COV_ACTION = re.compile(r'^<(\w+) line (\d+), col \d+ to line \d+, col \d+ of module (\w+)>: (\d+):(\d+)')
_RE_VIOL = re.compile(r'Error: Invariant (\w+) is violated')
_RE_APROP = re.compile(r'Error: Action property (\w+) is violated')
_RE_DEPTH = re.compile(r'The depth of the complete state graph search is (\d+)')


def _parse_export_line(line):
    line = line.strip()
    if not (line.startswith('"{') or line.startswith('"[')):
        return None
    try:
        return json.loads(json.loads(line))
    except Exception:
        return None


_mc_counter = [0]


def make_model(module, scratch, constants=None, invariants=(), properties=(), constraints=(),
               action_constraints=(), view=None, postcondition=None, deadlock=False, spec='Spec',
               init_next=None, defs=(), extends=()):
    """Write a wrapper module MC_<module>_<n>.tla (EXTENDS module, one definition per constant and
    any extra definitions) plus its cfg into scratch; returns (mc_module_path, cfg_path)."""
    _mc_counter[0] += 1
    mc = 'MC_%s_%d' % (module, _mc_counter[0])
    lines = ['---- MODULE %s ----' % mc, 'EXTENDS ' + ', '.join([module] + list(extends))]
    cfg = []
    if init_next:
        cfg += ['INIT %s' % init_next[0], 'NEXT %s' % init_next[1]]
    else:
        cfg.append('SPECIFICATION %s' % spec)
    if constants:
        cfg.append('CONSTANTS')
        for k, v in constants.items():
            lines.append('const_%s == %s' % (k, v))
            cfg.append('  %s <- const_%s' % (k, k))
    for d in defs:
        lines.append(d)
    lines.append('====')
    for c in constraints:
        cfg.append('CONSTRAINT %s' % c)
    for c in action_constraints:
        cfg.append('ACTION_CONSTRAINT %s' % c)
    for i in invariants:
        cfg.append('INVARIANT %s' % i)
    for p in properties:
        cfg.append('PROPERTY %s' % p)
    if view:
        cfg.append('VIEW %s' % view)
    if postcondition:
        cfg.append('POSTCONDITION %s' % postcondition)
    cfg.append('CHECK_DEADLOCK %s' % ('TRUE' if deadlock else 'FALSE'))
    mc_path = os.path.join(scratch, mc + '.tla')
    cfg_path = os.path.join(scratch, mc + '.cfg')
    with open(mc_path, 'w') as f:
        f.write('\n'.join(lines) + '\n')
    with open(cfg_path, 'w') as f:
        f.write('\n'.join(cfg) + '\n')
    return mc_path, cfg_path


def tla(v):
    """Python value -> TLA+ expression (ints, bools, strings, lists->tuples, sets, dicts->records)."""
    if isinstance(v, bool):
        return 'TRUE' if v else 'FALSE'
    if isinstance(v, int):
        return str(v) if v >= 0 else '(%d)' % v
    if isinstance(v, str):
        return '"%s"' % v
    if isinstance(v, (list, tuple)):
        return '<<' + ', '.join(tla(x) for x in v) + '>>'
    if isinstance(v, (set, frozenset)):
        return '{' + ', '.join(tla(x) for x in sorted(v, key=repr)) + '}'
    if isinstance(v, dict):
        return '[' + ', '.join('%s |-> %s' % (k, tla(x)) for k, x in v.items()) + ']'
    raise TypeError(type(v))


def run_tlc(model, scratch, workers=8, coverage=True, simulate=None, depth=None,
            seed=None, timeout=900, env=None, extra_args=(), keep_going=False, java_opts=(),
            want_exports=True, dfs=False, export_sample=None):
    """Run TLC on model = (module_path, cfg_path) as produced by make_model.

    Returns dict(states, distinct, depth, exports, coverage, violated, log, wall_s, rc).
    export_sample=(cap, seed, must): keep every exported record with must(rec) true and a uniform reservoir sample
    of `cap` of the others; must(rec) is None drops the record (bounds the memory of runs that export millions of states); res['exports_seen'] counts all.
    `violated` is the name of the first violated invariant / action property, or None.
    """
    spec_path, cfg_path = model
    module = os.path.basename(spec_path)[:-4]
    if not os.path.exists(spec_path):
        raise MachineryError('no such spec: ' + spec_path)
    meta = tempfile.mkdtemp(prefix='meta-', dir=scratch)
    log_path = os.path.join(scratch, '%s-%d.log' % (module, int(time.time() * 1000) % 10**9))
    cmd = ['java', '-XX:+UseParallelGC', '-Xmx8g', '-DTLA-Library=' + SPEC_DIR]
    if dfs:
        cmd.append('-Dtlc2.tool.queue.IStateQueue=StateDeque')
    cmd += list(java_opts)
    cmd += ['-cp', JAVA_CP, 'tlc2.TLC', '-workers', str(workers), '-metadir', meta,
            '-noGenerateSpecTE', '-config', cfg_path]
    if coverage and not simulate:
        cmd += ['-coverage', '1']
    if simulate:
        cmd += ['-simulate', simulate]
        if depth:
            cmd += ['-depth', str(depth)]
    if seed is not None:
        cmd += ['-seed', str(seed)]
    if keep_going:
        cmd += ['-continue']
    cmd += list(extra_args)
    cmd.append(spec_path)
    e = dict(os.environ)
    if env:
        e.update(env)
    t0 = time.time()
    with open(log_path, 'w') as lf:
        try:
            p = subprocess.run(cmd, stdout=lf, stderr=subprocess.STDOUT, cwd=scratch, env=e,
                               timeout=timeout)
            rc = p.returncode
            timed_out = False
        except subprocess.TimeoutExpired:
            rc = -9
            timed_out = True
    wall = time.time() - t0
    res = dict(states=0, distinct=0, depth=0, exports=[], coverage={}, violated=None, log=log_path,
               wall_s=wall, rc=rc, timed_out=timed_out, errors=[], cex=[])
    in_cex = False
    res['exports_seen'] = 0
    if export_sample:
        import random as _random
        cap, sseed, must = export_sample
        srng = _random.Random(sseed)
        musts, pool, nrest = [], [], 0
    with open(log_path, errors='replace') as lf:
        for line in lf:
            if want_exports and line.startswith('"'):
                rec = _parse_export_line(line)
                if rec is not None:
                    res['exports_seen'] += 1
                    if not export_sample:
                        res['exports'].append(rec)
                    elif must(rec) is None:
                        pass                      # dropped
                    elif must(rec):
                        musts.append(rec)
                    else:
                        nrest += 1
                        if len(pool) < cap:
                            pool.append(rec)
                        else:
                            j = srng.randrange(nrest)
                            if j < cap:
                                pool[j] = rec
                    continue
            m = _RE_STATES.search(line)
            if m:
                res['states'] = int(m.group(1))
                res['distinct'] = int(m.group(2))
                continue
            m = _RE_COV_ACTION.match(line)
            if m:
                name = m.group(1)
                d = res['coverage'].setdefault(name, [0, 0])
                d[0] += int(m.group(4))
                d[1] += int(m.group(5))
                continue
            m = _RE_VIOL.search(line) or _RE_APROP.search(line)
            if m and res['violated'] is None:
                res['violated'] = m.group(1)
                in_cex = True
                continue
            m = _RE_DEPTH.search(line)
            if m:
                res['depth'] = int(m.group(1))
            if line.startswith('Error:') or 'Exception' in line:
                res['errors'].append(line.strip())
            if in_cex and len(res['cex']) < 400:
                res['cex'].append(line.rstrip('\n'))
    if simulate and res['states'] == 0:
        # simulation mode prints progress differently
        with open(log_path, errors='replace') as lf:
            txt = lf.read()
        m = re.findall(r'(\d+) states checked', txt)
        if m:
            res['states'] = int(m[-1])
            res['distinct'] = int(m[-1])
    if export_sample:
        res['exports'] = musts + pool
    return res


def require_ok(res, what, allow_violation=False):
    """Raise MachineryError when TLC itself failed (parse error, crash, timeout)."""
    if res['timed_out']:
        raise MachineryError('%s: TLC timed out (log %s)' % (what, res['log']))
    hard = [e for e in res['errors'] if 'Invariant' not in e and 'Action property' not in e
            and 'The behavior up to this point' not in e]
    if res['violated'] is None and (res['rc'] != 0 or hard):
        tail = ''
        try:
            with open(res['log'], errors='replace') as f:
                tail = ''.join(f.readlines()[-30:])
        except Exception:
            pass
        raise MachineryError('%s: TLC failed rc=%s %s\n%s' % (what, res['rc'], hard[:3], tail))
    if res['violated'] is not None and not allow_violation:
        return False
    return True


def sany(module):
    spec_path = os.path.join(SPEC_DIR, module + '.tla')
    p = subprocess.run(['java', '-cp', JAVA_CP, 'tla2sany.SANY', spec_path], cwd=SPEC_DIR,
                       stdout=subprocess.PIPE, stderr=subprocess.STDOUT, text=True)
    ok = p.returncode == 0 and 'Semantic errors' not in p.stdout and 'Parse Error' not in p.stdout \
        and '*** Errors' not in p.stdout
    return ok, p.stdout
