"""Spec -> code replay for Rewrite.tla (C15): render ONE presentation of a robust program through the
public API exactly as the record `model` (= Present(prog, pres), exported by TLC) says, solve it, and
return what the API reports.

Nothing about the rewrites is decided here: the declaration order, the objective call, every statement
`(+-)(num/den) l  op  (+-)(num/den) r` with both sides as coefficient records, the Bounds / norm
statements and the argument structure of every set come from the specification, whose invariant
DenotInvariant has verified (TLC, exact on the grid family) that the presented text denotes the same
program as the base presentation.  Each rewrite sends the same mathematics through another code path:

  side written entry-wise (x[i], z[k]: VarSub / RandVarSub operators)  vs  with matrix products (Vars @)
  a <= b (decision terms left, the rest right: comparison of two expressions)  vs  a - b <= 0
  constant term last  vs  first (number + expr, number - expr: __radd__ / __rsub__)
  number op expression / ndarray op expression (reflected operators)   vs  expression op number
  -(expr) (unary minus of Affine / RoAffine)                           vs  expr
  k * expr  (Affine.__rmul__) on both sides                            vs  expr
  e == 0 (ro.Model.st splits, dro.ro_to_roc splits)                    vs  e <= 0, e >= 0
  x >= lo (Vars.__ge__ -> Bounds) | x[i] >= lo (VarSub.__ge__ -> Bounds) | I @ x <= hi (LinConstr) |
  norm(x, 'inf') <= hi | abs(x) <= hi (CvxConstr -> pws_constr)
  minmax(obj, [c..]) | (obj, c1, c2) | (obj, (c..)) | (obj, generator) | (obj, c1, [c2..])   (ro.py:296-302)
  ro.Model  vs  dro.Model(1) + ambiguity().suppset(...) + minsup/maxinf (with or without E())
  min f  vs  -(max -f);  objective before/after the constraints;  dvar/rvar/ldr declared in any order
"""
import math

import numpy as np

from harness import ro_catalogue as cat

MASKS = {'none': None, 'm0': [], 'm1': [0], 'm2': [1], 'm12': [0, 1]}


# ------------------------------------------------------------------------------------ expressions

def _has_vars(tm):
    return bool(any(tm['a']) or any(any(r) for r in tm['A']) or tm['c'] or any(tm['B']))


def side_loop(tm, h, cfirst=False):
    """Entry-wise spelling of one side: a sum of coef * x[i], (coef * z[k]) * x[i], coef * y, coef * z[k];
    a coefficient +1 / -1 is written as + term / - term; the constant is the last term, or the first one
    (number + expression / number - expression).  A side without variables is the plain number."""
    x, y, z = h['x'], h['y'], h['z']
    terms = []
    for i in range(2):
        c = tm['a'][i]
        if c:
            terms.append((c, lambda c=c, i=i: x[i], lambda c=c, i=i: c * x[i]))
        for k in range(2):
            c = tm['A'][i][k]
            if c:
                terms.append((c, lambda i=i, k=k: z[k] * x[i], lambda c=c, i=i, k=k: (c * z[k]) * x[i]))
    if tm['c']:
        terms.append((tm['c'], lambda: y, lambda c=tm['c']: c * y))
    for k in range(2):
        c = tm['B'][k]
        if c:
            terms.append((c, lambda k=k: z[k], lambda c=c, k=k: c * z[k]))
    if not terms:
        return float(tm['b'])
    e = float(tm['b']) if (cfirst and tm['b']) else None
    for c, bare, scaled in terms:
        if c == 1:
            e = bare() if e is None else e + bare()
        elif c == -1:
            e = -bare() if e is None else e - bare()
        else:
            e = scaled() if e is None else e + scaled()
    if tm['b'] and not cfirst:
        e = e + tm['b']
    return e


def side_vec(tms, h, cfirst=False):
    """Whole-array spelling: matrix products on the variable arrays.  One template -> a scalar
    expression written with dot products; two templates -> a 2-row array expression."""
    x, y, z = h['x'], h['y'], h['z']

    def add(e, t):
        return t if e is None else e + t

    if len(tms) == 1:
        tm = tms[0]
        if not _has_vars(tm):
            return float(tm['b'])
        a = np.array(tm['a'], dtype=float)
        A = np.array(tm['A'], dtype=float)          # A[i][k]: coefficient of z_k x_i
        B = np.array(tm['B'], dtype=float)
        e = float(tm['b']) if (cfirst and tm['b']) else None
        if a.any():
            e = add(e, a @ x)
        if A.any():
            e = add(e, (A @ z) @ x)
        if tm['c']:
            e = add(e, tm['c'] * y)
        if B.any():
            e = add(e, B @ z)
        if tm['b'] and not cfirst:
            e = e + tm['b']
        return e
    b = np.array([t['b'] for t in tms], dtype=float)
    if not any(_has_vars(t) for t in tms):
        return b
    a = np.array([t['a'] for t in tms], dtype=float)             # (rows, 2)
    B = np.array([t['B'] for t in tms], dtype=float)
    c = np.array([t['c'] for t in tms], dtype=float)
    e = b if (cfirst and b.any()) else None
    if a.any():
        e = add(e, a @ x)
    for j in range(2):
        M = np.array([t['A'][j] for t in tms], dtype=float)      # (rows, k): coefficient of z_k x_j
        if M.any():
            e = add(e, (M @ z) * x[j])
    if c.any():
        e = add(e, c * y)
    if B.any():
        e = add(e, B @ z)
    if b.any() and not cfirst:
        e = e + b
    return e


def render_cmp(st, h):
    """The comparison object of a "cmp" statement."""
    cf = st['cfirst']
    if st['style'] == 'vec':
        L, R = side_vec(st['l'], h, cf), side_vec(st['r'], h, cf)
    else:
        L, R = side_loop(st['l'][0], h, cf), side_loop(st['r'][0], h, cf)
    if st['neg']:
        L, R = -L, -R
    if st['num'] != st['den']:
        k = st['num'] / st['den']
        L, R = k * L, k * R
    if st['op'] == '<=':
        return L <= R
    if st['op'] == '>=':
        return L >= R
    return L == R


# ------------------------------------------------------------------------------------------ sets

def set_args(sid, S, h):
    """Python arguments of one use of set `sid`, structured as the spec's SpellSet says (fresh
    constraint objects at every use)."""
    # R10b: with setlin the bounds of the set are linear constraints on 1.0*z instead of Bounds objects
    cons = cat.builders()[sid](1.0 * h['z'] if S.get('setlin') else h['z'], None)
    sp = [e['sp'] for e in S['sets'] if e['id'] == sid][0]
    how = sp['how']
    out = []
    for a in sp['args']:
        if a['d'] == 0:
            out.append(cons[a['c'] - 1])
        elif a['d'] == 1:
            items = [cons[c - 1] for c in a['cs']]
            if how == 'tuple':
                out.append(tuple(items))
            elif how == 'gen':
                out.append(c for c in items)
            else:
                out.append(items)
        else:
            out.append([[cons[c - 1] for c in grp] for grp in a['css']])
    return out


# ----------------------------------------------------------------------------------------- build

def build(job):
    import rsome as rso
    from rsome import ro, dro, E
    from rsome.lp import RoConstr, DecRoConstr, DecLinConstr
    S = job['rec']['model']
    front = S['front']
    is_ro = front == 'ro'
    m = ro.Model() if is_ro else dro.Model(1)
    h = dict(x=None, y=None, z=None)
    for kind in S['decl']:
        if kind == 'x':
            h['x'] = m.dvar(2, 'I' if S['xint'] else 'C')
        elif kind == 'z':
            h['z'] = m.rvar(2)
        else:
            h['y'] = m.ldr() if is_ro else m.dvar()
    mask = MASKS[S['mask']]
    if mask is not None:
        if mask == [0, 1]:
            h['y'].adapt(h['z'])
        else:
            for k in mask:
                h['y'].adapt(h['z'][k])
    dset = S['dset']
    ob = S['obj']
    robust_default = ob['call'] in ('minmax', 'maxmin')
    F = {}
    if not is_ro:
        for sid in sorted(e['id'] for e in S['sets']):
            F[sid] = m.ambiguity()
            F[sid].suppset(*set_args(sid, S, h))

    def objective():
        e = side_loop(ob['e'], h)
        call = ob['call']
        if is_ro:
            if call == 'min':
                m.min(e)
            elif call == 'max':
                m.max(e)
            elif call == 'minmax':
                m.minmax(e, *set_args(dset, S, h))
            else:
                m.maxmin(e, *set_args(dset, S, h))
        elif front == 'dro':
            if call == 'min':
                m.min(e)
            elif call == 'max':
                m.max(e)
            elif call == 'minmax':
                m.minsup(e, F[dset])
            else:
                m.maxinf(e, F[dset])
        else:
            if call in ('min', 'minmax'):
                m.minsup(E(e), F[dset])
            else:
                m.maxinf(E(e), F[dset])

    def attach(c, s):
        """Robust constraints get their set; set 0 = the default set (left to the library when the
        objective declares it)."""
        if is_ro:
            if not isinstance(c, RoConstr):
                return c
            if s == 0 and robust_default:
                return c
            return c.forall(*set_args(dset if s == 0 else s, S, h))
        robust = isinstance(c, DecRoConstr) or (isinstance(c, DecLinConstr) and not c.fixed)
        if not robust:
            return c
        if s == 0 and robust_default:
            return c
        return c.forall(F[dset if s == 0 else s])

    if S['opos'] == 'first':
        objective()
    x = h['x']
    for st in S['stmts']:
        if st['kind'] == 'cmp':
            m.st(attach(render_cmp(st, h), st['set']))
        elif st['kind'] == 'bnd':
            if st['how'] == 'arr':
                m.st(x >= st['lo'], x <= st['hi'])
            else:
                for i in range(2):
                    m.st(x[i] >= st['lo'])
                    m.st(x[i] <= st['hi'])
        elif st['kind'] == 'norm':
            k = float(st.get('num', 1)) / float(st.get('den', 1))
            e = rso.norm(x, 'inf') if st['how'] == 'inf' else abs(x)
            if k == 1.0:
                m.st(e <= st['rad'])
            else:
                m.st(k * e <= k * st['rad'])
        else:
            raise ValueError('unknown statement kind %r' % (st['kind'],))
    if S['opos'] != 'first':
        objective()
    return m, h


def solver_by_name(name):
    if name == 'def':
        return None
    import importlib
    return importlib.import_module('rsome.%s_solver' % name)


def _replay(job, phase):
    S = job['rec']['model']
    out = dict(tid=job['tid'], solver=job['solver'])
    phase[0] = 'build'
    m, h = build(job)
    phase[0] = 'solve'
    solver = solver_by_name(job['solver'])
    if solver is None:
        m.solve(display=False)
    else:
        m.solve(solver, display=False)
    phase[0] = 'read'
    sol = m.solution
    ok = sol is not None and not (isinstance(sol.objval, float) and math.isnan(sol.objval))
    if ok:
        v = float(m.get())
        if S['obj']['negrep']:
            v = -v
        xv = h['x'].get()
        try:
            xv = [float(t) for t in np.array(xv.iloc[0] if hasattr(xv, 'iloc') else xv, dtype=float).reshape(-1)]
        except Exception:
            xv = None
        out.update(status='ok', obj=v, x=xv)
    else:
        out.update(status='fail', solver_status=str(getattr(sol, 'status', None)))
    return out


def replay(job):
    import traceback
    if job.get('kind') == 'sizes':
        return catalogue_sizes(job)
    if job.get('kind') == 'unsupported':
        return probe_unsupported(job)
    phase = ['start']
    try:
        return _replay(job, phase)
    except Exception as e:
        tb = traceback.extract_tb(e.__traceback__)
        if not any('/rsome/' in fr.filename for fr in tb):
            raise
        return dict(tid=job['tid'], solver=job['solver'], status='exception', phase=phase[0],
                    exc='%s: %s' % (type(e).__name__, e), where='%s:%d' % (tb[-1].filename, tb[-1].lineno))


def catalogue_sizes(job):
    """Number of constraints of each catalogue set used by the spec (must equal Rewrite.NCons)."""
    import rsome  # noqa: F401
    from rsome import ro
    m = ro.Model()
    z = m.rvar(2)
    return {s: len(cat.builders()[s](z, None)) for s in job['sets']}


def probe_unsupported(job):
    """The one spelling the spec names as unsupported: nested lists in the ro front end (one-level
    flattening, ro.py:296-302).  Returns how the library reacts (recorded as drift, never an alarm)."""
    from rsome import ro
    m = ro.Model()
    x = m.dvar(2)
    z = m.rvar(2)
    try:
        m.minmax(x[0] + z[0] * x[1], [[z >= -1], [z <= 1]])
        m.st(x >= -1, x <= 1)
        m.solve(display=False)
        return dict(outcome='accepted', value=float(m.get()))
    except Exception as e:
        return dict(outcome='raises', exc=type(e).__name__)
