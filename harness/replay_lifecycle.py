"""Spec -> code replay for Lifecycle.tla: execute a TLC-generated history of set definitions,
constraint additions, formulations and solves on a real rsome.ro model (plus a second model and the
cross-model misuse actions) and compare, after every step, with the specification's expectation.

Oracle for values (C09: "same result as building the final model from scratch"): every constraint
with the set the USER attached to it (ghost state exported by TLC) is built alone in a fresh model,
where nothing can leak, and solved; the history-built model must report the same value for it.
"""
import hashlib
import math

import numpy as np

A = {1: np.array([1.0, 1.0]), 2: np.array([2.0, 1.0]), 3: np.array([-1.0, 2.0])}
TOL = 2e-5
_solo_cache = {}


def item_constraints(rso, z, items):
    if 'xb' in items:
        # a set made ONLY of exponential-cone constraints (no bound, row or norm next to them):
        # exp(+-z_i) <= 20 is the box |z_i| <= ln 20
        return [rso.exp(z[0]) <= 20, rso.exp(-z[0]) <= 20, rso.exp(z[1]) <= 20, rso.exp(-1.0 * z[1]) <= 20]
    cons = [rso.norm(z, 'inf') <= 4]
    for it in items:
        if it == 'lin':
            cons.append(z[0] + z[1] <= 3)
        elif it == 'l1':
            cons.append(rso.norm(z, 1) <= 5)
        elif it == 'l2':
            cons.append(rso.norm(z) <= 3.5)
        elif it == 'p3':
            cons.append(rso.pnorm(z, 3) <= 3.0)
        elif it == 'ex':
            cons.append(rso.exp(z[0]) <= 20)
        elif it == 'bd':
            cons.append(z[0] <= 2.5)
        else:
            raise ValueError(it)
    return cons


def solo_value(k, items):
    """Worst case of a_k.z over the declared set, from a fresh single-constraint model."""
    key = (k, tuple(sorted(items)))
    if key in _solo_cache:
        return _solo_cache[key]
    import rsome as rso
    from rsome import ro, eco_solver
    m = ro.Model()
    z = m.rvar(2)
    t = m.dvar()
    m.min(t)
    m.st((t >= A[k] @ z).forall(item_constraints(rso, z, items)))
    m.solve(eco_solver, display=False)
    v = float(m.get())
    _solo_cache[key] = v
    return v


def quiet_solve(formula):
    """Optimal value of a compiled program through ECOS (None if not solved)."""
    from rsome import eco_solver
    sol = eco_solver.solve(formula, display=False)
    if sol is None or sol.x is None or (isinstance(sol.objval, float) and math.isnan(sol.objval)):
        return None
    return float(sol.objval)


def rng_hash():
    st = np.random.get_state()
    return hashlib.sha1(st[1].tobytes() + str(st[2:]).encode()).hexdigest()


def formula_sig(f):
    parts = [f.linear.data.tobytes(), f.linear.indices.tobytes(), f.linear.indptr.tobytes(),
             np.asarray(f.const).tobytes(), np.asarray(f.sense).tobytes(), np.asarray(f.ub).tobytes(),
             np.asarray(f.lb).tobytes(), np.asarray(f.obj).tobytes(), str(list(f.vtype)).encode(),
             str([list(map(int, q)) for q in getattr(f, 'qmat', [])]).encode(),
             str([list(map(int, q)) for q in getattr(f, 'xmat', [])]).encode()]
    return hashlib.sha1(b'|'.join(parts)).hexdigest()


def _replay(job, phase):
    import rsome as rso
    from rsome import ro, eco_solver
    rec = job['rec']
    K = job['K']
    hist = rec['hist']
    findings, notes = [], []
    hs = hist_sig(hist)

    def finding(prop, sig, what, **kw):
        findings.append(dict(prop=prop, sig=sig, what=what, hist=[(h['act'], h['args']) for h in hist], **kw))

    m = ro.Model()
    z = m.rvar(2)
    t = m.dvar(K)
    m.st(t >= -10)          # constraints not (yet) in the model leave their epigraph variable at -10
    sw = m.dvar()           # decision of the late row s*w <= 1 (w: a random variable declared late)
    m.st(sw >= 0, sw <= 10)
    w_late = None
    y_used = m.ldr()        # decision rules for the cross-model adaptation misuses (unused in constraints)
    y_used.adapt(z[0])
    y_fresh = m.ldr(2)
    user_a = {k: A[k].copy() for k in A}
    user_a_bytes = {k: user_a[k].tobytes() for k in user_a}
    cons = {k: (t[k - 1] >= user_a[k] @ z) for k in range(1, K + 1)}
    m2 = ro.Model()
    z2 = m2.rvar(2)
    x2 = m2.dvar()
    m2.minmax(x2, rso.norm(z2, 1) <= 1)
    m2.st(x2 >= 0)
    m2_st = 0
    r0 = rng_hash()
    last_solution = None
    contradicted = False
    # every other history hands a set that is used several times as THE SAME constraint objects (a tuple the user keeps
    # around), the others write it afresh for every use
    reuse_sets = sum(len(h['act']) + len(str(h['args'])) for h in hist) % 2 == 1
    set_objects = {}

    def set_items(S):
        key = tuple(S)
        if not reuse_sets:
            return item_constraints(rso, z, [] if S == ['noset'] else S)
        if key not in set_objects:
            set_objects[key] = item_constraints(rso, z, [] if S == ['noset'] else S)
        return set_objects[key]

    for si, step in enumerate(hist):
        act, args, expect = step['act'], step['args'], step['expect']
        phase[0] = '%s@%d' % (act, si)
        raised = None
        try:
            if act == 'mk':
                k = args[0]
                cons[k] = (t[k - 1] >= user_a[k] @ z)
            elif act == 'forall':
                k, S = args
                its = set_items(S)
                cons[k] = cons[k].forall(its) if si % 2 else cons[k].forall(*its)
            elif act == 'st':
                m.st(cons[args[0]])
            elif act == 'obj':
                kind, S = args
                o = (t.sum() if K > 1 else t[0] + 0) - sw
                if kind == 'min':
                    m.min(o)
                else:
                    its = set_items(S)
                    m.minmax(o, its) if si % 2 else m.minmax(o, *its)
            elif act in ('do_math', 'do_math_dual'):
                primal = act == 'do_math'
                f1 = m.do_math(primal)
                s1 = formula_sig(f1)
                f2 = m.do_math(primal)
                if formula_sig(f2) != s1:
                    finding('C19', 'C19:repeated-do_math-differs:%s' % act, 'two formulations without intervening change differ')
                if formula_sig(f1) != s1:
                    finding('C19', 'C19:formula-mutated-by-do_math:%s' % act, 'a returned formula was modified by the next do_math call')
                if not primal and expect == 'ok' and not contradicted:
                    # the returned dual must be the dual of the model AS DECLARED NOW: its optimum is minus the optimum of the
                    # current primal (a dual program kept from before the last change has the old optimum)
                    pv, dv = quiet_solve(m.do_math(True)), quiet_solve(f1)
                    if pv is None or dv is None or abs(pv) > 1e6:
                        notes.append('inconclusive')
                    else:
                        tol = 5e-4 * (1 + abs(pv))
                        if abs(pv + dv) > 10 * tol:
                            for pr in ('C09', 'C19', 'C08'):
                                finding(pr, '%s:dual-program-not-of-current-model' % pr,
                                        'step %d: do_math(primal=False) returned a program with optimum %.6g while the primal of the current declaration has optimum %.6g' % (si, dv, pv), step=si)
                        elif abs(pv + dv) > tol:
                            notes.append('inconclusive')
            elif act == 'contradict':
                m.st(t[0] <= -20)
                contradicted = True
            elif act == 'read':
                got = {}
                for name, fn in (('model.get', lambda: m.get()), ('var.get', lambda: t.get()), ('slice.get', lambda: t[0].get())):
                    try:
                        fn()
                        got[name] = 'returned'
                    except Exception as e:
                        tb_ = __import__('traceback').extract_tb(e.__traceback__)
                        if not any('/rsome/' in fr.filename for fr in tb_):
                            raise
                        got[name] = 'raised'
                for name, o in sorted(got.items()):
                    if expect == 'err' and o == 'returned':
                        finding('C17', 'C17:results-readable-without-solution:%s' % name,
                                'step %d: %s() returned a value although the last solve produced no solution / nothing was solved' % (si, name), step=si)
                    if expect == 'ok' and o == 'raised':
                        finding('C12', 'C12:results-unreadable-after-solve:%s' % name, 'step %d: %s() raised although the last solve succeeded' % (si, name), step=si)
                expect = 'handled'
            elif act in ('solve', 'soc_solve'):
                fbefore = None
                try:
                    fbefore = formula_sig(m.do_math())
                except Exception:
                    pass
                if act == 'solve':
                    m.solve(eco_solver, display=False)
                else:
                    m.soc_solve(eco_solver, display=False)
                if fbefore is not None and formula_sig(m.do_math()) != fbefore:
                    finding('C19', 'C19:formula-mutated-by-%s' % act, 'the cached standard form differs after %s()' % act)
            elif act == 'late_rvar':
                w_late = m.rvar()
            elif act == 'late_row':
                m.st(sw * w_late <= 1)
            elif act == 'm2_st':
                m2_st += 1
                m2.st(x2 >= (z2[0] if m2_st == 1 else 2 * z2[1]))
            elif act == 'm2_solve':
                m2.solve(display=False)
                v2 = float(m2.get())
                want2 = [0.0, 1.0, 2.0][m2_st]
                if abs(v2 - want2) > 1e-6:
                    finding('C17', 'C17:second-model-result-changed', 'model 2 reports %g, alone it gives %g' % (v2, want2))
            elif act == 'misuse':
                w = args[0]
                if w == 'st_foreign_constr':
                    m.st(x2 >= 1)
                elif w == 'st_foreign_robust':
                    m.st(x2 >= z2[0])
                elif w == 'forall_foreign_set':
                    # a made, not yet added constraint
                    cand = [k for k in sorted(cons) if not any(h['act'] == 'st' and h['args'][0] == k for h in hist[:si])]
                    cons[cand[0]].forall(rso.norm(z2, 1) <= 1)
                elif w == 'add_foreign_var':
                    m.st(t[0] + x2 <= 1)
                elif w == 'minmax_foreign_set':
                    m.minmax(t[0] + 0, rso.norm(z2, 1) <= 1)
                elif w == 'get_unsolved':
                    m.get()
                elif w == 'ldr_adapt_foreign_fresh':
                    y_fresh.adapt(z2[1])
                elif w == 'ldr_adapt_foreign_used':
                    (y_used.adapt(z2[1]) if si % 2 else y_fresh[0].adapt(z[1]) or y_fresh[1].adapt(z2[0]))
                elif w == 'obj_nonscalar':
                    m.min(rso.vec(t[0], t[0]) if K == 1 else t)
                else:
                    raise ValueError(w)
            else:
                raise ValueError(act)
        except Exception as e:  # noqa
            import traceback
            tb = traceback.extract_tb(e.__traceback__)
            if not any('/rsome/' in fr.filename for fr in tb):
                raise          # raised by the harness itself: machinery
            raised = '%s: %s' % (type(e).__name__, e)
        # ---- outcome
        if expect == 'err' and raised is None:
            if act == 'misuse':
                finding('C17', 'C17:misuse-accepted:%s' % args[0], 'misuse %s did not raise' % args[0])
            elif act in ('solve', 'soc_solve', 'do_math', 'do_math_dual'):
                finding('C17', 'C17:unformulable-model-compiled:%s' % act, '%s succeeded although a robust constraint has no set / there is no objective' % act)
            else:
                finding('C17', 'C17:error-expected:%s' % act, 'step %d %s should raise' % (si, act))
        if expect == 'fail':
            if raised is not None:
                finding('C17', 'C17:solve-of-infeasible-model-raised:%s' % raised.split(':')[0], 'step %d: %s raised %s instead of reporting that no solution is available' % (si, act, raised))
                break
            if m.solution is not None and not (isinstance(m.solution.objval, float) and math.isnan(m.solution.objval)):
                finding('C17', 'C17:infeasible-model-solved:%s' % act, 'step %d: %s reports a solution for a model containing t >= -10 and t <= -20' % (si, act))
        if expect == 'ok' and raised is not None:
            owner = 'C09' if act in ('solve', 'soc_solve', 'do_math', 'do_math_dual', 'st', 'forall', 'obj', 'mk', 'late_rvar', 'late_row') else 'C17'
            finding(owner, '%s:unexpected-exception:%s:%s' % (owner, act, raised.split(':')[0]), 'step %d %s raised %s' % (si, act, raised))
            break
        # ---- values after a successful solve
        if act in ('solve', 'soc_solve') and raised is None and expect == 'ok':
            decls = args['decls']
            ok = m.solution is not None and not (isinstance(m.solution.objval, float) and math.isnan(m.solution.objval))
            if not ok:
                stxt = str(getattr(m.solution, 'status', '')).lower()
                if any(w_ in stxt for w_ in ('numerical', 'maximum', 'close to')):
                    notes.append('inconclusive')          # ECOS gave up without a certificate: not a verdict about the model
                    break
                finding('C09', 'C09:solve-failed:%s' % act, 'step %d: %s reported no solution (%s) for a model every part of which solves alone' % (si, act, stxt))
                break
            tv = np.array(t.get(), dtype=float).reshape(-1)
            want_s = 0.0 if args['wrow'] else 10.0
            got_s = float(np.array(sw.get()).reshape(-1)[0])
            if abs(got_s - want_s) > 1e-4:
                finding('C09', 'C09:late-random-variable-unprotected:%s' % ('row-ignored' if got_s > want_s else 'other'),
                        'row s*w <= 1 on a random variable declared after the default set was captured: s = %.6g, expected %.6g (w is constrained by no set)' % (got_s, want_s), step=si)
            total = 0.0
            for k in range(1, K + 1):
                d = decls[k - 1]
                if d == ['absent']:
                    continue
                items = [] if d == ['noset'] else d
                want = solo_value(k, items)
                total += want
                tol = (3e-3 if ('ex' in items or 'xb' in items) and act == 'soc_solve' else 5e-4 if ('ex' in items or 'p3' in items or 'xb' in items) else TOL) * (1 + abs(want))
                got = tv[k - 1]
                if abs(got - want) > 10 * tol:
                    kind = 'set-too-small' if got < want else 'set-too-large'
                    finding('C09', 'C09:constraint-protected-against-other-set:%s:%s' % (kind, act),
                            'constraint %d: worst case %.6g in the history-built model, %.6g for the declared set %s built alone' % (k, got, want, items),
                            step=si, constraint=k, declared=items, got=got, want=want)
                elif abs(got - want) > tol:
                    notes.append('inconclusive')
            last_solution = (si, total)
        # ---- C19: global state untouched
        if rng_hash() != r0:
            finding('C19', 'C19:global-rng-consumed:%s' % act, 'numpy global RNG state changed during %s' % act)
            r0 = rng_hash()
        for k in user_a:
            if user_a[k].tobytes() != user_a_bytes[k]:
                finding('C19', 'C19:user-array-modified:%s' % act, 'a coefficient array supplied by the user was modified in place by %s' % act)
                user_a_bytes[k] = user_a[k].tobytes()
    return dict(findings=findings, notes=notes, hsig=hs, nsteps=len(hist), solved=last_solution is not None)


def hist_sig(hist):
    out = []
    for h in hist:
        a = h['args']
        out.append(h['act'] + ':' + ','.join(str(x) for x in a) if h['act'] not in ('solve', 'soc_solve') else h['act'])
    return ';'.join(out)


def replay(job):
    phase = ['start']
    return _replay(job, phase)
