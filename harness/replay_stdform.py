"""Spec -> code replay for StdForm.tla: build a deterministic program with a given bound pattern per
column through the public API, take the real primal and dual standard forms (integer data goes back
to TLC: weak duality on lattices, transcription conformance) and solve both (value check: primal +
dual = 0)."""
import math

import numpy as np

INF = 1000000
PATTERN = {1: (None, None), 2: (0, None), 3: (None, 0), 4: (1, None), 5: (-1, None), 6: (None, 2), 7: (-1, 2),
           8: (0, 2), 9: (-2, 0), 10: (1, 1), 11: (0, 0), 12: (None, -1), 13: (-2, -1)}

# cone decorations: extra constraints that make the standard form an SOCP / exp-cone program
CONES = ['none', 'norm2', 'square', 'sumsqr', 'exp', 'log', 'norm2+exp',
         # robust / distributionally robust rows: the standard form is the COUNTERPART, whose cone variables are
         # multipliers used directly in rows (not auxiliary copies), with coefficients such as the radius of the set
         'ro-box', 'ro-norm2r2', 'ro-norm1', 'ro-norm2half', 'ro-sumsqr', 'dro-box', 'dro-norm2r2',
         # a robust OBJECTIVE over a ball of radius 2: the cone head enters the epigraph row with coefficient 2 (general path of the SOC dual)
         'roobj-norm2r2', 'roobj-norm2half']
SOC_CONES = ('norm2', 'square', 'sumsqr', 'ro-norm2r2', 'ro-norm2half', 'ro-sumsqr', 'dro-norm2r2', 'roobj-norm2r2', 'roobj-norm2half')


def build(job):
    import rsome as rso
    from rsome import ro
    d = job['decl']
    nc = len(d['pats'])
    var = job.get('variant', 0)
    cone = job.get('cone', 'none')
    if cone.startswith('dro-'):
        from rsome import dro
        m = dro.Model(2)
    else:
        m = ro.Model()
    x = m.dvar(nc)
    sets = {'box': lambda z: [z >= -1, z <= 2], 'norm2r2': lambda z: [rso.norm(z) <= 2], 'norm1': lambda z: [rso.norm(z, 1) <= 2],
            'norm2half': lambda z: [rso.norm(z) <= 0.5], 'sumsqr': lambda z: [rso.sumsqr(z) <= 4]}
    # (an ambiguity set must exist before the first constraint)
    if cone.startswith('dro-'):
        z = m.rvar(2)
        fset = m.ambiguity()
        fset[0].suppset(*sets[cone[4:]](z))
        fset[1].suppset(z >= 0, z <= 1)
    for j, k in enumerate(d['pats']):
        lb, ub = PATTERN[k]
        if lb is not None:
            m.st(x[j] >= lb if var % 2 == 0 else -x[j] <= -lb if False else x[j] >= lb)
        if ub is not None:
            m.st(x[j] <= ub)
    obj = np.array(d['obj'], dtype=float)
    if cone.startswith('dro-'):
        if job.get('sense', 'min') == 'min':
            m.minsup(obj @ x, fset)
        else:
            m.maxinf(-obj @ x, fset)
    elif cone.startswith('roobj-'):
        zo = m.rvar(nc)
        if job.get('sense', 'min') == 'min':
            m.minmax(obj @ x + x @ zo + 2 * zo[0], *sets[cone[6:]](zo))
        else:
            m.maxmin(-obj @ x - x @ zo - 2 * zo[0], *sets[cone[6:]](zo))
    elif job.get('sense', 'min') == 'min':
        m.min(obj @ x)
    else:
        m.max(-obj @ x)
    for r in d['rows']:
        coef = np.array(r['coef'], dtype=float)
        if r['sense'] == 1:
            m.st(coef @ x == r['rhs'])
        elif var % 3 == 0:
            m.st(coef @ x <= r['rhs'])
        else:
            m.st(-coef @ x >= -r['rhs'])
    if cone.startswith('ro-'):
        z = m.rvar(2)
        m.st((x[0] * z[0] + x[nc - 1] * z[1] - x[nc - 1] <= 6).forall(*sets[cone[3:]](z)))
    elif cone.startswith('dro-'):
        m.st(x[0] * z[0] + x[nc - 1] * z[1] - x[nc - 1] <= 6)
    elif 'norm2' in cone:
        m.st(rso.norm(x) <= 3)
    if cone == 'square':
        m.st(rso.square(x[0]) <= x[nc - 1] + 3)
    if cone == 'sumsqr':
        m.st(rso.sumsqr(x) <= 6)
    if 'exp' in cone:
        m.st(rso.exp(x[0]) <= x[nc - 1] + 4)
    if cone == 'log':
        m.st(rso.log(x[0] + 3) >= x[nc - 1] - 2)
    return m, x


def prog_json(f):
    """Standard form with integer data -> plain lists (None if the data is not integral)."""
    A = np.asarray(f.linear.todense(), dtype=float)
    vecs = [A, np.asarray(f.const, dtype=float), np.asarray(f.obj, dtype=float)]
    lb = np.asarray(f.lb, dtype=float)
    ub = np.asarray(f.ub, dtype=float)
    fin = [lb[np.isfinite(lb)], ub[np.isfinite(ub)]]
    for v in vecs + fin:
        if v.size and np.max(np.abs(v - np.round(v))) > 1e-12:
            return None
        if v.size and np.max(np.abs(v)) >= INF:
            return None

    def bnd(v):
        return [(-INF if x == -np.inf else INF if x == np.inf else int(round(x))) for x in v]
    q = [[int(i) + 1 for i in qc] for qc in getattr(f, 'qmat', [])]
    return dict(lb=bnd(lb), ub=bnd(ub), A=[[int(round(v)) for v in row] for row in A.tolist()],
                sense=[int(s) for s in f.sense], b=[int(round(v)) for v in f.const], c=[int(round(v)) for v in f.obj], q=q)


_last_status = [None]
_last_xmax = [None]
_raised = []


def solve_formula(f, solver):
    from rsome.lp import def_sol
    try:
        if solver == 'def':
            sol = def_sol(f, display=False)
        else:
            import importlib
            # Gurobi may not return on non-convex / unbounded cone programs: bound its run time
            sol = importlib.import_module('rsome.%s_solver' % solver).solve(f, display=False, **(dict(params={'TimeLimit': 10}) if solver == 'grb' else {}))
    except Exception as e:      # an interface that raises instead of reporting "no solution": C11's business
        _last_status[0] = 'interface-raised:%s:%s' % (solver, type(e).__name__)
        _raised.append(_last_status[0])
        return None
    if sol is None or sol.x is None or (isinstance(sol.objval, float) and math.isnan(sol.objval)):
        _last_status[0] = str(getattr(sol, 'status', None))
        return None
    _last_status[0] = str(sol.status)
    try:
        _last_xmax[0] = float(np.max(np.abs(np.asarray(sol.x, dtype=float)))) if np.size(sol.x) else 0.0
    except Exception:
        _last_xmax[0] = None
    return float(sol.objval)


def _replay(job, phase):
    import copy
    phase[0] = 'build'
    m, x = build(job)
    phase[0] = 'do_math'
    P = m.do_math()
    Pj = prog_json(P)
    D = m.do_math(primal=False)
    Dj = prog_json(D)
    P2 = m.do_math()
    def sane(f):
        lb, ub = np.asarray(f.lb, dtype=float), np.asarray(f.ub, dtype=float)
        return not bool(np.any(lb == np.inf) or np.any(ub == -np.inf) or np.any(lb > ub) or np.any(np.isnan(lb)) or np.any(np.isnan(ub)))
    out = dict(tid=job['tid'], P=Pj, D=Dj, xmat=len(getattr(P, 'xmat', [])), qmat=len(getattr(P, 'qmat', [])),
               primal_is_cached=(P2 is P), bounds_sane=dict(primal=sane(P), dual=sane(D)))
    phase[0] = 'solve'
    del _raised[:]
    solver = job['solver']
    out['solver'] = solver
    out['pval'] = solve_formula(P, solver)
    out['pstatus'] = _last_status[0]
    out['pxmax'] = _last_xmax[0] if out['pval'] is not None else None
    out['dval'] = solve_formula(D, solver)
    out['dstatus'] = _last_status[0]
    inexact = any('close' in (st_ or '').lower() or 'inaccurate' in (st_ or '').lower() for st_ in (out['pstatus'], out['dstatus']))
    if out['pval'] is not None and (out['dval'] is None or inexact) and job.get('second'):
        out['dval2'] = solve_formula(D, job['second'])
        out['pval2'] = solve_formula(P, job['second'])
    # ---- second stage (history): the model is extended AFTER its dual was produced; the dual requested then must be
    #      the dual of the extended model (caches behind pupdate / dupdate in three layers)
    if job.get('tid', 0) % 3 == 0 and out['pval'] is not None and abs(out['pval']) < 1e6:
        phase[0] = 'extend'
        nc = len(job['decl']['pats'])
        # the compiled program minimises obj.x for both senses (max(-obj.x) is compiled as min obj.x): the cut
        # obj.x >= p + 1 removes the current optimum and keeps the program bounded; new optimum p + 1 if still feasible
        objv = np.array(job['decl']['obj'], dtype=float)
        m.st(objv @ x >= out['pval'] + 1)
        P3 = m.do_math()
        D3 = m.do_math(primal=False)
        out['pval3'] = solve_formula(P3, solver)
        out['dval3'] = solve_formula(D3, solver)
        out['dual_object_reused'] = D3 is D
    out['interface_raised'] = list(_raised)
    return out


def replay(job):
    import traceback
    phase = ['start']
    try:
        return _replay(job, phase)
    except Exception as e:
        tb = traceback.extract_tb(e.__traceback__)
        if not any('/rsome/' in fr.filename for fr in tb):
            raise
        return dict(tid=job['tid'], status='exception', phase=phase[0], exc='%s: %s' % (type(e).__name__, e),
                    where='%s:%d' % (tb[-1].filename, tb[-1].lineno))
