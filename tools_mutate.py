"""Diagnostic (not a check): a small mutation campaign over the code the properties' anchors name.

  tools_mutate.py plan  <n> <seed> <out.json>     choose n single-node AST mutants in anchored functions
  tools_mutate.py run   <plan.json> <worktree> <verif dir> <results.jsonl>   apply one by one in the scratch worktree, run the quick
                                                  checks of the properties that anchor the mutated function, record exit codes

A mutant that no mapped check reports (exit 0 everywhere) is either equivalent, or killed only by the repository's own tests,
or a blind spot of the families - the survivors are what is worth reading.  Nothing here is registered in MANIFEST.json.
"""
import ast
import copy
import json
import os
import random
import subprocess
import sys
import time

sys.path.insert(0, os.path.dirname(os.path.abspath(__file__)))
import tools_anchorcov as ac   # noqa: E402

REPO = os.environ.get('VERIF_REPO', '/repo')
ROOT = os.path.dirname(os.path.abspath(__file__))
SWAP_CALL = {'tile': 'repeat', 'repeat': 'tile', 'vstack': 'hstack', 'hstack': 'vstack', 'minimum': 'maximum', 'maximum': 'minimum',
             'ones': 'zeros', 'zeros': 'ones', 'min': 'max', 'max': 'min', 'extend': 'append'}
CMP = {ast.Lt: ast.LtE, ast.LtE: ast.Lt, ast.Gt: ast.GtE, ast.GtE: ast.Gt, ast.Eq: ast.NotEq, ast.NotEq: ast.Eq, ast.Is: ast.IsNot, ast.IsNot: ast.Is,
       ast.In: ast.NotIn, ast.NotIn: ast.In}


def anchored_functions():
    """{(file, qualname): [property ids]} in the CURRENT tree."""
    base = ac.pinned_commit()
    props = [json.loads(l) for l in open(os.path.join(ROOT, 'properties.jsonl'))]
    out = {}
    pinned = {}
    for p in props:
        for mech in p['anchors']['mechanism']:
            for f, a, b in ac.parse_where(mech['where']):
                if not os.path.exists(os.path.join(REPO, f)) or 'solver' in f and not any(s in f for s in ('ort', 'grb', 'eco')):
                    continue
                if f not in pinned:
                    src = subprocess.run(['git', '-C', REPO, 'show', '%s:%s' % (base, f)], capture_output=True, text=True).stdout
                    pinned[f] = ac.defs_of(src)
                hits = [(q, fa, fb) for q, fa, fb, _ in pinned[f] if fa <= b and fb >= a]
                if a == b and hits:
                    hits = [min(hits, key=lambda h: h[2] - h[1])]
                for q, _, _ in hits:
                    out.setdefault((f, q), [])
                    if p['id'] not in out[(f, q)]:
                        out[(f, q)].append(p['id'])
    return out


class Collector(ast.NodeVisitor):
    def __init__(self, lo, hi):
        self.lo, self.hi, self.sites = lo, hi, []

    def generic_visit(self, node):
        ln = getattr(node, 'lineno', None)
        if ln is not None and self.lo <= ln <= self.hi:
            if isinstance(node, ast.BinOp) and isinstance(node.op, (ast.Add, ast.Sub)):
                self.sites.append(('binop', node))
            elif isinstance(node, ast.UnaryOp) and isinstance(node.op, ast.USub) and not isinstance(node.operand, ast.Constant):
                self.sites.append(('usub', node))
            elif isinstance(node, ast.Compare) and len(node.ops) == 1 and type(node.ops[0]) in CMP:
                self.sites.append(('cmp', node))
            elif isinstance(node, ast.BoolOp):
                self.sites.append(('bool', node))
            elif isinstance(node, ast.Constant) and isinstance(node.value, int) and not isinstance(node.value, bool) and node.value in (0, 1, 2):
                self.sites.append(('const', node))
            elif isinstance(node, ast.If):
                self.sites.append(('ifneg', node))
            elif isinstance(node, ast.Attribute) and node.attr in SWAP_CALL and isinstance(node.ctx, ast.Load):
                self.sites.append(('swap', node))
            elif isinstance(node, ast.Attribute) and node.attr == 'T':
                self.sites.append(('dropT', node))
            elif isinstance(node, (ast.Assign, ast.AugAssign)) and not isinstance(getattr(node, 'value', None), (ast.Constant,)) is False:
                pass
            if isinstance(node, (ast.Assign, ast.AugAssign, ast.Expr)) and not (isinstance(node, ast.Expr) and isinstance(node.value, ast.Constant)):
                self.sites.append(('delete', node))
        super().generic_visit(node)


def mutate(tree, kind, node):
    """In-place mutation of `node` inside `tree`; returns a description."""
    if kind == 'binop':
        node.op = ast.Sub() if isinstance(node.op, ast.Add) else ast.Add()
        return 'swap + and -'
    if kind == 'usub':
        node.op = ast.UAdd()
        return 'drop unary minus'
    if kind == 'cmp':
        old = type(node.ops[0])
        node.ops[0] = CMP[old]()
        return '%s -> %s' % (old.__name__, CMP[old].__name__)
    if kind == 'bool':
        node.op = ast.Or() if isinstance(node.op, ast.And) else ast.And()
        return 'swap and/or'
    if kind == 'const':
        old = node.value
        node.value = {0: 1, 1: 0, 2: 1}[old]
        return 'constant %d -> %d' % (old, node.value)
    if kind == 'ifneg':
        node.test = ast.UnaryOp(op=ast.Not(), operand=node.test)
        return 'negate if-condition'
    if kind == 'swap':
        old = node.attr
        node.attr = SWAP_CALL[old]
        return '.%s -> .%s' % (old, node.attr)
    if kind == 'dropT':
        # x.T -> x : replace attribute node by its value
        for parent in ast.walk(tree):
            for fld, val in ast.iter_fields(parent):
                if val is node:
                    setattr(parent, fld, node.value)
                    return 'drop .T'
                if isinstance(val, list):
                    for i, v in enumerate(val):
                        if v is node:
                            val[i] = node.value
                            return 'drop .T'
        return None
    if kind == 'delete':
        for parent in ast.walk(tree):
            for fld, val in ast.iter_fields(parent):
                if isinstance(val, list):
                    for i, v in enumerate(val):
                        if v is node:
                            val[i] = ast.copy_location(ast.Pass(), node)
                            return 'delete statement'
        return None
    return None


def plan(n, seed, out):
    rng = random.Random(seed)
    funcs = anchored_functions()
    cur = {}
    items = []
    for (f, q), pids in sorted(funcs.items()):
        if f not in cur:
            src = open(os.path.join(REPO, f)).read()
            cur[f] = (src, {qq: (a, b) for qq, a, b, _ in ac.defs_of(src)})
        if q not in cur[f][1]:
            continue
        a, b = cur[f][1][q]
        tree = ast.parse(cur[f][0])
        col = Collector(a, b)
        col.visit(tree)
        for idx, (kind, node) in enumerate(col.sites):
            items.append(dict(file=f, func=q, props=pids, kind=kind, index=idx, line=node.lineno, lo=a, hi=b))
    rng.shuffle(items)
    # spread over functions: at most 3 per function, prefer variety of kinds
    per, chosen = {}, []
    for it in items:
        k = (it['file'], it['func'])
        if per.get(k, 0) >= 3:
            continue
        per[k] = per.get(k, 0) + 1
        chosen.append(it)
        if len(chosen) >= n:
            break
    json.dump(chosen, open(out, 'w'), indent=1)
    print('planned %d mutants over %d functions (of %d sites in %d anchored functions)' % (len(chosen), len(per), len(items), len(funcs)))


def apply(it, worktree):
    path = os.path.join(worktree, it['file'])
    src = open(os.path.join(REPO, it['file'])).read()
    tree = ast.parse(src)
    col = Collector(it['lo'], it['hi'])
    col.visit(tree)
    kind, node = col.sites[it['index']]
    assert kind == it['kind'] and node.lineno == it['line']
    before = ast.unparse(node) if not isinstance(node, ast.If) else 'if ' + ast.unparse(node.test)
    desc = mutate(tree, kind, node)
    if desc is None:
        return None
    ast.fix_missing_locations(tree)
    open(path, 'w').write(ast.unparse(tree) + '\n')
    return '%s: %s   [%s]' % (desc, before[:100].replace('\n', ' '), '%s:%d %s' % (it['file'], it['line'], it['func']))


CHECK_OF = {'C02': ['C02'], 'C04': ['C04']}


def run(planfile, worktree, verif, results):
    items = json.load(open(planfile))
    done = set()
    if os.path.exists(results):
        done = set(json.loads(l)['id'] for l in open(results))
    for k, it in enumerate(items):
        if k in done:
            continue
        subprocess.run(['git', '-C', worktree, 'checkout', '--', '.'], check=True)
        desc = apply(it, worktree)
        rec = dict(id=k, mutant=it, desc=desc, checks={})
        if desc is None:
            rec['status'] = 'not-applicable'
        else:
            imp = subprocess.run(['/venv/bin/python', '-c', 'import sys; sys.path.insert(0, %r); import rsome' % worktree], capture_output=True, text=True)
            if imp.returncode != 0:
                rec['status'] = 'import-fails'
            else:
                killed = False
                cost = {'C18': 15, 'C03': 16, 'C04': 16, 'C11': 20, 'C07': 21, 'C14': 25, 'C05': 26, 'C06': 30, 'C10': 31, 'C08': 35, 'C01': 40, 'C02': 41,
                        'C16': 42, 'C15': 50, 'C12': 90, 'C09': 120, 'C17': 121, 'C19': 122, 'C13': 150}
                for pid in sorted(it['props'], key=lambda q: cost.get(q, 99))[:3]:
                    t0 = time.time()
                    env = dict(os.environ, VERIF_REPO=worktree, VERIF_EVIDENCE_DIR='/tmp/verif_mut_evidence', VERIF_JOB_TIMEOUT='300')
                    p = subprocess.run([os.path.join(verif, 'bin', 'check'), pid, '--tier', 'quick'], env=env, capture_output=True, text=True)
                    sigs = [l.strip()[len('signature: '):][:90] for l in p.stdout.splitlines() if l.strip().startswith('signature:')]
                    rec['checks'][pid] = dict(rc=p.returncode, wall=round(time.time() - t0), sigs=sigs[:4])
                    if p.returncode == 1:
                        killed = True
                        break
                rec['status'] = 'killed' if killed else ('machinery' if any(c['rc'] not in (0, 1) for c in rec['checks'].values()) else 'survived')
        with open(results, 'a') as f:
            f.write(json.dumps(rec) + '\n')
        print(k, rec['status'], desc, {p: c['rc'] for p, c in rec['checks'].items()}, flush=True)
    subprocess.run(['git', '-C', worktree, 'checkout', '--', '.'], check=True)


if __name__ == '__main__':
    if sys.argv[1] == 'plan':
        plan(int(sys.argv[2]), int(sys.argv[3]), sys.argv[4])
    else:
        run(sys.argv[2], sys.argv[3], sys.argv[4], sys.argv[5])
