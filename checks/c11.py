"""C11 - all solver interfaces solve the same program and agree."""
from harness import core
from checks import suite_solveriface


def main(tier):
    rep = core.Report('C11', tier, level='model_checking')
    rep.rule = ('TLC enumerates declarations (15 bound patterns x variable type C/I/B per column x rows x senses; all-integer bounded ones with their '
                'brute-force optimum); each is compiled once and the same model is solved through every installed interface able to (SciPy/HiGHS, '
                'OR-Tools, ECOS, Gurobi), a quarter decorated with norm / square / exp constraints; every returned vector goes back to TLC, which '
                'decides x |= P (bounds incl. binaries, senses, integrality, cones in squares, objective value) on the real standard form; '
                'distinct = (declaration, cone, interface)')
    rep.assumptions = ['TLC 1.8', 'returned values rounded to 1e-3 with tolerances widened by the rounding bound',
                       'interfaces whose solver is not installed (CyLP, CPLEX, Mosek, COPT) cannot be executed and are not claimed']
    suite_solveriface.run(rep, tier, props=('C11',))
    return rep.finish()


def replay(path):
    from checks import replay_file
    return replay_file.run(path)
