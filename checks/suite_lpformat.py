"""Suite: LpFormat.tla  (C16 - exports describe exactly the solved program).

1. TLC enumerates abstract programs (generator part of LpFormat.tla) and checks, on the transcription of
   the writers, that the rendered .lp token stream / show() cell stream is accepted by the ideal
   acceptor for every program, and that mutilated streams are rejected.
2. Every exported program (a seeded, stratified sample when there are more than the tier's cap) drives
   the construction of a real rsome model (harness/replay_lpformat.py); the ACTUAL formula is projected
   to the rank-encoded record P; lp_export() and show() are lexed into event streams; the .lp file is
   read back by gurobipy and compared structurally and by optimum; the token stream is re-solved.
3. TLC validates all recorded streams in one batch against the acceptor (code -> spec): ACCEPT / REJECT
   per stream (ideal) and CONFORM / DRIFT (transcription).  Rejected genuine stream => finding.
4. Binding demonstration: streams mutated by the harness (a dropped free bound, a flipped sign, ...) must
   be rejected; equivalent rewrites (`x free`, split bounds, `>=` rows, reordered rows) must be accepted.
"""
import copy
import json
import os
import random

from harness import tlc, core
from harness.tlc import tla

# rank table of the generator (harness/replay_lpformat.GEN_TABLE):
#  1:-inf 2:-1e12 3:-2 4:-1 5:-0.5 6:-1e-9 7:0 8:1e-9 9:0.5 10:1 11:2 12:1e12 13:+inf
NV, ONE, Z = 13, 10, 7

# LinShowFull=False transcribes the code as it is: LinProg.show() returns showlc() only
FLAGS = dict(LinShowFull=True)

GEN_INVARIANTS = ['GenTypeOK', 'LpTextDescribes', 'ShowDescribes', 'LpMutantsRejected', 'ShowMutantsRejected',
                  'Export']

ALLCLS = {'LinProg', 'SOCProg', 'GCProg'}


def cfg(name, **kw):
    d = dict(name=name, Cols=2, MaxRows=1, CoefSet={Z, 10}, RhsSet={11}, LbSet={Z}, UbSet={11}, VtSet={'C'},
             ObjSet={10}, EzSet={0}, WithCone=False, ClsSet={'LinProg'}, ModeSet={'primal'}, DirSet={'min'})
    d.update(kw)
    return d


CONFIGS = {
    'quick': [
        # every coefficient / rhs value class, both senses, primal and dual formulas
        cfg('coef', CoefSet={2, 3, 6, Z, 8, 9, 10, 12}, RhsSet={3, Z, 8}, ClsSet={'LinProg', 'SOCProg'},
            ModeSet={'primal', 'dual'}),
        # every bound pattern x every type on one column, all three model classes, min and max
        cfg('bounds1', Cols=1, CoefSet={4, 10}, LbSet={1, Z, 10, 3}, UbSet={13, Z, 11}, VtSet={'C', 'B', 'I'},
            ObjSet={10, 4}, ClsSet=ALLCLS, DirSet={'min', 'max'}),
        cfg('bounds2', CoefSet={4, 10}, LbSet={1, 3}, UbSet={13, Z}, VtSet={'C', 'B', 'I'}, ObjSet={Z, 10},
            ClsSet={'GCProg'}),
        # cones, empty rows, zeros stored explicitly (0.0 and -0.0), columns in no row
        cfg('cone', Cols=3, CoefSet={Z, 4}, RhsSet={Z, 4}, LbSet={1}, UbSet={13}, EzSet={0, 1, 2}, WithCone=True,
            ClsSet=ALLCLS, ModeSet={'primal', 'dual'}),
        # several rows; robust counterparts compiled by ro.Model
        cfg('rows', MaxRows=3, CoefSet={Z, 4}, RhsSet={10}, VtSet={'C', 'I'}, ClsSet={'LinProg', 'GCProg'},
            ModeSet={'primal', 'robust'}),
    ],
    'thorough': [
        cfg('coef', CoefSet={2, 3, 4, 5, 6, Z, 8, 9, 10, 11, 12}, RhsSet={2, 3, 6, Z, 8, 12},
            ClsSet=ALLCLS, ModeSet={'primal', 'dual'}),
        cfg('bounds1', Cols=1, CoefSet={4, 10, 8}, RhsSet={11, 6}, LbSet={1, Z, 10, 3, 6}, UbSet={13, Z, 11, 4},
            VtSet={'C', 'B', 'I'}, ObjSet={10, 4, Z}, ClsSet=ALLCLS, DirSet={'min', 'max'}),
        cfg('bounds2', CoefSet={4, 10}, LbSet={1, Z, 3}, UbSet={13, Z, 11}, VtSet={'C', 'B', 'I'},
            ClsSet={'LinProg', 'GCProg'}),
        cfg('cone', Cols=3, CoefSet={Z, 4, 11}, RhsSet={Z, 4}, LbSet={1}, UbSet={13}, EzSet={0, 1, 2}, WithCone=True,
            ClsSet=ALLCLS, ModeSet={'primal', 'dual'}),
        cfg('conemix', Cols=3, MaxRows=0, LbSet={1, Z}, UbSet={13}, VtSet={'C', 'I', 'B'}, WithCone=True,
            ClsSet={'SOCProg', 'GCProg'}),
        cfg('rows', MaxRows=3, CoefSet={Z, 4}, RhsSet={10}, VtSet={'C', 'I'}, ClsSet={'LinProg', 'GCProg'},
            ModeSet={'primal', 'robust'}),
        cfg('rows2', MaxRows=2, CoefSet={Z, 4, 9}, RhsSet={10, 6}, VtSet={'C', 'I'}, ClsSet={'LinProg', 'GCProg'},
            ModeSet={'primal', 'robust'}, DirSet={'min', 'max'}),
        cfg('dualrows', MaxRows=2, CoefSet={4, 11}, RhsSet={3, Z, 8}, UbSet={13, 11},
            ClsSet={'LinProg', 'SOCProg'}, ModeSet={'dual'}, DirSet={'min', 'max'}),
    ],
}
CAP = {'quick': 420, 'thorough': 16000}
NCONTROL_BASES = {'quick': 40, 'thorough': 300}

REQUIRED_CLASSES = [
    'coef-negative', 'coef-tiny', 'coef-huge', 'coef-fractional', 'zero-stored-explicitly', 'negative-zero-stored',
    'rhs-negative-zero', 'rhs-negative', 'empty-row', 'empty-row-nothing-stored', 'column-in-no-row',
    'vtype-C', 'vtype-B', 'vtype-I', 'lb--inf', 'lb-zero', 'lb-neg', 'lb-pos', 'ub-+inf', 'ub-zero', 'ub-pos',
    'fixed-column', 'binary-with-user-bound', 'cone', 'cone-one-member', 'row-eq', 'row-le', 'objective-general',
    'objective-negative-coef', 'exponent-notation-in-text', 'negative-exponent-in-text', 'row-leading-minus',
    'objective-leading-minus', 'column-in-no-row-nor-objective',
    'cls-LinProg', 'cls-SOCProg', 'cls-GCProg', 'mode-primal', 'mode-dual', 'mode-robust', 'dir-min', 'dir-max',
    'outcome-optimal', 'outcome-infeasible', 'outcome-unbounded']

GEN_ACTIONS = ['AddCol', 'AddRow', 'AddCone', 'Finish']
TRACE_ACTIONS = ['TStart', 'TSection', 'TObjTerm', 'TRowStart', 'TTerm', 'TRel', 'TRhs', 'TQRow', 'TBound',
                 'TBoundOther', 'TGeneral', 'TBinary', 'TEnd', 'TSHead', 'TSRow', 'TSCell', 'TSSense', 'TSConst',
                 'TSEnd', 'TReject', 'TAccept']


def consts_tla(c, traces=''):
    d = dict(NV=NV, One=ONE)
    d.update({k: v for k, v in c.items() if k != 'name'})
    d.update(FLAGS)
    out = {k: tla(v) for k, v in d.items()}
    out['TraceFile'] = tla(traces)
    return out


def fix_empty(rec):
    """ToJson prints an empty sequence as {} in some positions."""
    for k in ('rows', 'cones'):
        if isinstance(rec.get(k), dict):
            rec[k] = []
    return rec


def stratified(recs, cap, rng):
    if len(recs) <= cap:
        return list(recs), True
    buckets = {}
    for r in recs:
        key = (r['cls'], r['mode'], r['dir'], bool(r['cones']), tuple(sorted({x['ez'] for x in r['rows']})),
               ''.join(sorted(set(r['vt']))), len(r['rows']))
        buckets.setdefault(key, []).append(r)
    keys = sorted(buckets, key=repr)
    for k in keys:
        rng.shuffle(buckets[k])
    out = []
    while len(out) < cap:
        progressed = False
        for k in keys:
            if buckets[k] and len(out) < cap:
                out.append(buckets[k].pop())
                progressed = True
        if not progressed:
            break
    return out, False


# ------------------------------------------------------------------------------------------------
# controls: mutated copies of genuine streams (pure data; ranks: 1=-inf, nv=+inf, zero=(nv+1)/2)

def _ev(k, a=0, b=0, c=0, s='', l=()):
    return dict(k=k, a=a, b=b, c=c, s=s, l=list(l))


def _row_blocks(lp):
    """[(start, end)] index ranges of the linear rows (RowStart .. Rhs inclusive)."""
    out, s = [], None
    for i, e in enumerate(lp):
        if e['k'] == 'RowStart':
            s = i
        elif e['k'] == 'Rhs' and s is not None:
            out.append((s, i))
            s = None
    return out


def canonical_lp(P):
    """What a correct writer emits for P (python twin of RenderLp with q rows for every class)."""
    nv = P['nv']
    zero = (nv + 1) // 2
    sg = lambda r: -1 if r < zero else 1          # noqa: E731
    ab = lambda r: nv + 1 - r if r < zero else r  # noqa: E731
    out = [_ev('Section', s='min')]
    out += [_ev('ObjTerm', a=sg(r), b=ab(r), c=j + 1) for j, r in enumerate(P['obj']) if r != zero]
    out.append(_ev('Section', s='st'))
    out += [_ev('QRow', a=k + 1, c=c['h'], s='ok', l=c['mem']) for k, c in enumerate(P['cones'])]
    for i in range(P['m']):
        out.append(_ev('RowStart', a=i + 1, s='c'))
        out += [_ev('Term', a=sg(P['A'][i][j - 1]), b=ab(P['A'][i][j - 1]), c=j) for j in P['ord'][i]]
        out += [_ev('Rel', s=P['sense'][i]), _ev('Rhs', b=P['rhs'][i])]
    out.append(_ev('Section', s='bounds'))
    out += [_ev('Bound', a=P['lb'][j], b=P['ub'][j], c=j + 1) for j in range(P['n'])]
    for name, kind, letter in (('general', 'General', 'I'), ('binary', 'Binary', 'B')):
        cols = [j + 1 for j in range(P['n']) if P['vt'][j] == letter]
        if cols:
            out.append(_ev('Section', s=name))
            out += [_ev(kind, c=j) for j in cols]
    out.append(_ev('End'))
    return out


def canonical_show(P):
    """The complete table for P (python twin of RenderShow with LinShowFull)."""
    nv, n = P['nv'], P['n']
    zero = (nv + 1) // 2

    def row(kind, i, cells, sense, const):
        return [_ev('SRow', a=i, s=kind)] + cells + [_ev('SSense', s=sense), const]

    num = lambda f: [_ev('SCell', b=f[j], c=j + 1) for j in range(n)]   # noqa: E731
    dash = _ev('SConst', s='-')
    out = [_ev('SHead', a=n, s='ok')]
    out += row('Obj', 0, num(P['obj']), '-', dash)
    for i in range(P['m']):
        out += row('LC', i + 1, num(P['A'][i]), '==' if P['sense'][i] == 'eq' else '<=', _ev('SConst', b=P['rhs'][i]))
    for k, c in enumerate(P['cones']):
        cells = [_ev('SCell', b=(nv + 1 - P['one']) if j + 1 == c['h'] else (P['one'] if j + 1 in c['mem'] else zero),
                     c=j + 1) for j in range(n)]
        out += row('QC', k + 1, cells, '<=', _ev('SConst', b=zero))
    out += row('UB', 0, num(P['ub']), '-', dash) + row('LB', 0, num(P['lb']), '-', dash)
    out += row('Type', 0, [_ev('SCell', c=j + 1, s=P['vt'][j]) for j in range(n)], '-', dash)
    out.append(_ev('SEnd'))
    return out


def lp_controls(P, lp):
    """yield (name, expect_accept, expected_reason_or_None, mutated_stream)"""
    nv = P['nv']
    zero = (nv + 1) // 2
    neg = lambda r: nv + 1 - r   # noqa: E731
    out = []
    idx = {k: [i for i, e in enumerate(lp) if e['k'] == k] for k in
           ('Bound', 'Term', 'ObjTerm', 'General', 'Binary', 'QRow', 'Rel', 'Rhs', 'Section')}
    # ---- negative controls: the stream no longer denotes P
    for i in idx['Bound']:
        e = lp[i]
        if e['a'] == 1 and P['vt'][e['c'] - 1] != 'B':
            out.append(('drop-bound-of-free-column', False, 'bound-free-column-defaults-to-nonneg', lp[:i] + lp[i + 1:]))
            break
    for i in idx['Bound']:
        e = lp[i]
        if e['b'] != nv and P['vt'][e['c'] - 1] != 'B':
            out.append(('drop-bound-with-finite-upper', False, None, lp[:i] + lp[i + 1:]))
            break
    for kind, nm in (('Term', 'term'), ('ObjTerm', 'objective-term')):
        for i in idx[kind]:
            if lp[i]['b'] != zero:
                mu = copy.deepcopy(lp)
                mu[i]['a'] = -mu[i]['a']
                out.append(('flip-sign-of-' + nm, False, None, mu))
                out.append(('drop-' + nm, False, None, lp[:i] + lp[i + 1:]))
                mu = copy.deepcopy(lp)
                mu[i]['b'] = mu[i]['b'] + 1 if mu[i]['b'] + 1 < nv else mu[i]['b'] - 1
                if mu[i]['b'] not in (zero, lp[i]['b']):
                    out.append(('other-value-in-' + nm, False, None, mu))
                break
    for kind in ('General', 'Binary', 'QRow'):
        if idx[kind]:
            i = idx[kind][0]
            out.append(('drop-' + kind, False, None, lp[:i] + lp[i + 1:]))
    if idx['QRow']:
        i = idx['QRow'][0]
        st = [j for j in idx['Section'] if lp[j]['s'] == 'st']
        if st:
            mu = lp[:i] + lp[i + 1:]
            mu.insert(st[0], lp[i])
            out.append(('cone-row-before-subject-to', False, 'cone-row-outside-subject-to', mu))
    if idx['Rel']:
        i = idx['Rel'][0]
        mu = copy.deepcopy(lp)
        mu[i]['s'] = 'eq' if mu[i]['s'] == 'le' else 'le'
        out.append(('flip-relation', False, 'row-sense', mu))
    for i in idx['Rhs']:
        if lp[i]['b'] != zero:
            mu = copy.deepcopy(lp)
            mu[i]['b'] = neg(mu[i]['b'])
            out.append(('flip-sign-of-rhs', False, 'rhs-sign', mu))
            break
    blocks = _row_blocks(lp)
    if blocks:
        s, e = blocks[-1]
        out.append(('drop-row', False, 'row-missing', lp[:s] + lp[e + 1:]))
    bsec = [j for j in idx['Section'] if lp[j]['s'] == 'bounds']
    ssec = [j for j in idx['Section'] if lp[j]['s'] == 'st']
    if bsec and ssec and blocks:
        # Bounds section moved in front of Subject To
        j0 = bsec[0]
        j1 = j0 + 1
        while j1 < len(lp) and lp[j1]['k'] == 'Bound':
            j1 += 1
        mu = lp[:ssec[0]] + lp[j0:j1] + lp[ssec[0]:j0] + lp[j1:]
        out.append(('bounds-before-subject-to', False, None, mu))
    # ---- positive controls: other texts of the same program
    for i in idx['Bound']:
        e = lp[i]
        if e['a'] == 1 and e['b'] == nv:
            mu = lp[:i] + [_ev('Free', c=e['c'])] + lp[i + 1:]
            out.append(('free-keyword', True, None, mu))
            break
    for i in idx['Bound']:
        e = lp[i]
        mu = lp[:i] + [_ev('Lower', a=e['a'], c=e['c']), _ev('Upper', b=e['b'], c=e['c'])] + lp[i + 1:]
        out.append(('split-bound', True, None, mu))
        break
    for i in idx['Bound']:
        e = lp[i]
        if e['a'] == zero and e['b'] == nv:
            out.append(('drop-default-bound', True, None, lp[:i] + lp[i + 1:]))
            break
    for s, e in blocks:
        rel = [j for j in range(s, e) if lp[j]['k'] == 'Rel'][0]
        if lp[rel]['s'] == 'le':
            mu = copy.deepcopy(lp)
            for j in range(s, e + 1):
                if mu[j]['k'] == 'Term':
                    mu[j]['a'] = -mu[j]['a']
                elif mu[j]['k'] == 'Rel':
                    mu[j]['s'] = 'ge'
                elif mu[j]['k'] == 'Rhs':
                    mu[j]['b'] = neg(mu[j]['b'])
            out.append(('row-written-as-ge', True, None, mu))
            break
    if len(blocks) >= 2:
        (s1, e1), (s2, e2) = blocks[0], blocks[1]
        if e1 + 1 == s2:
            mu = lp[:s1] + lp[s2:e2 + 1] + lp[s1:e1 + 1] + lp[e2 + 1:]
            out.append(('rows-reordered', True, None, mu))
    if blocks:
        s, e = blocks[0]
        mu = lp[:s + 1] + [_ev('Term', a=1, b=zero, c=1)] + lp[s + 1:]
        out.append(('explicit-zero-term', True, None, mu))
    return out


def show_controls(P, show):
    nv = P['nv']
    out = []
    cells = [i for i, e in enumerate(show) if e['k'] == 'SCell' and e['s'] == '' and e['b'] > 0]
    if cells:
        i = cells[len(cells) // 2]
        mu = copy.deepcopy(show)
        mu[i]['b'] = 1 if mu[i]['b'] == nv else mu[i]['b'] + 1
        out.append(('other-value-in-cell', False, None, mu))
    tcells = [i for i, e in enumerate(show) if e['k'] == 'SCell' and e['s'] in ('C', 'B', 'I')]
    if tcells:
        mu = copy.deepcopy(show)
        mu[tcells[0]]['s'] = 'I' if mu[tcells[0]]['s'] == 'C' else 'C'
        out.append(('other-type-in-cell', False, 'type-cell', mu))
    senses = [i for i, e in enumerate(show) if e['k'] == 'SSense' and e['s'] in ('<=', '==')]
    if senses:
        mu = copy.deepcopy(show)
        mu[senses[0]]['s'] = '==' if mu[senses[0]]['s'] == '<=' else '<='
        out.append(('other-sense-in-cell', False, None, mu))
    rows = [i for i, e in enumerate(show) if e['k'] == 'SRow']
    ub = [i for i in rows if show[i]['s'] == 'UB']
    if ub:
        i = ub[0]
        j = [r for r in rows if r > i]
        j = j[0] if j else len(show) - 1
        out.append(('drop-UB-row', False, 'missing-rows:UB+', show[:i] + show[j:]))
    if len(rows) >= 2:
        # rows in another order: still the same data
        i, j = rows[0], rows[1]
        k = rows[2] if len(rows) > 2 else len(show) - 1
        out.append(('table-rows-reordered', True, None, show[:i] + show[j:k] + show[i:j] + show[k:]))
    return out


# ------------------------------------------------------------------------------------------------

def run(rep, tier, props):
    rng = random.Random(rep.seed)
    jobs = []
    gen_total = 0
    with tlc.Scratch() as sc:
        # ------------------------------------------------------------------ 1. generator + invariants
        per_cfg = {}
        for ci, c in enumerate(CONFIGS[tier]):
            model = tlc.make_model('LpFormat', sc, constants=consts_tla(c), invariants=GEN_INVARIANTS,
                                   init_next=('GInit', 'GNext'))
            res = tlc.run_tlc(model, sc, workers=12, coverage=True, timeout=3000)
            tlc.require_ok(res, 'LpFormat generator %s' % c['name'], allow_violation=True)
            rep.add_tlc('LpFormat.generator[%s]' % c['name'], res)
            if res['violated']:
                # The flags select the transcription of the code as it is; the ideal holds on it except for
                # the named trigger KnownLinShow.  Anything else: replay the counterexample by hand.
                raise tlc.MachineryError('LpFormat generator %s: invariant %s violated on the transcription\n%s'
                                         % (c['name'], res['violated'], '\n'.join(res['cex'][:60])))
            for a in GEN_ACTIONS:
                need = not (a == 'AddCone' and not c['WithCone']) and not (a == 'AddRow' and c['MaxRows'] == 0)
                if need and res['coverage'].get(a, [0])[0] == 0:
                    raise tlc.MachineryError('LpFormat generator %s: action %s never taken' % (c['name'], a))
            recs = [fix_empty(r) for r in res['exports'] if isinstance(r, dict) and 'cls' in r]
            if not recs:
                raise tlc.MachineryError('LpFormat generator %s exported nothing' % c['name'])
            per_cfg[c['name']] = recs
            gen_total += len(recs)
        cap_each = CAP[tier] // len(per_cfg)
        exhaustive = True
        for name, recs in per_cfg.items():
            chosen, allin = stratified(recs, cap_each, rng)
            exhaustive = exhaustive and allin
            for r in chosen:
                jobs.append(dict(rec=r, cfg=name))
        rep.exhaustive = exhaustive
        rep.extra['programs_generated_by_tlc'] = gen_total
        rep.extra['programs_replayed'] = len(jobs)

        # ------------------------------------------------------------------ 2. replay into rsome
        results = core.pmap('harness.replay_lpformat', 'replay', jobs, chunksize=8)
        bad = core.machinery_failures(results)
        if bad:
            raise tlc.MachineryError('replay_lpformat failed: %s\n%s' % (bad[0]['machinery_error'], bad[0].get('tb', '')))

        # ------------------------------------------------------------------ 3. batch trace validation
        traces = []       # (origin, expect, name, job index)
        lines = []
        for k, r in enumerate(results):
            if r['P'] is None:
                continue
            traces.append(dict(kind='genuine', job=k))
            lines.append(json.dumps(dict(P=r['P'], lp=r['lp'], show=r['show'])))
        bases = [k for k, r in enumerate(results) if r['P'] is not None]
        rng.shuffle(bases)
        # bases that exhibit each feature the controls need first (several per feature), then the rest
        feats = ['cone', 'vtype-I', 'vtype-B', 'lb-zero', 'ub-pos', 'lb--inf', 'row-le', 'objective-general']
        first = []
        for ft in feats + ['m2']:
            have = [k for k in bases if (results[k]['P']['m'] >= 2 if ft == 'm2' else ft in results[k]['classes'])]
            first += [k for k in have if k not in first][:4]
        bases = first + [k for k in bases if k not in first]
        for k in bases[:NCONTROL_BASES[tier]]:
            # Controls are mutations of the CANONICAL streams of the real formula's P (what a correct writer
            # emits), so that they exercise the acceptor whatever the code under test wrote.
            r = results[k]
            clp, cshow = canonical_lp(r['P']), canonical_show(r['P'])
            traces.append(dict(kind='canon', job=k))
            lines.append(json.dumps(dict(P=r['P'], lp=clp, show=cshow)))
            for name, acc, why, stream in lp_controls(r['P'], clp):
                traces.append(dict(kind='control', stream='lp', job=k, name=name, accept=acc, why=why))
                lines.append(json.dumps(dict(P=r['P'], lp=stream, show=[])))
            for name, acc, why, stream in show_controls(r['P'], cshow):
                traces.append(dict(kind='control', stream='show', job=k, name=name, accept=acc, why=why))
                lines.append(json.dumps(dict(P=r['P'], lp=[], show=stream)))
        tpath = os.path.join(sc, 'traces.ndjson')
        with open(tpath, 'w') as fh:
            fh.write('\n'.join(lines) + '\n')
        c0 = CONFIGS[tier][0]
        model = tlc.make_model('LpFormat', sc, constants=consts_tla(c0, traces=tpath),
                               invariants=['TTypeOK', 'TDeterministic'], init_next=('TInit', 'TNext'))
        tres = tlc.run_tlc(model, sc, workers=12, coverage=True, timeout=3000)
        tlc.require_ok(tres, 'LpFormat trace validation', allow_violation=False)
        if tres['violated']:
            raise tlc.MachineryError('LpFormat trace validation: %s violated\n%s' % (tres['violated'], '\n'.join(tres['cex'][:40])))
        rep.add_tlc('LpFormat.traces[%d streams]' % (2 * len(lines)), tres)
        verdict = {}      # (tid, kind) -> (ACCEPT|REJECT, pos, why)
        conform = {}
        for m in tres['exports']:
            if not isinstance(m, dict) or 'v' not in m:
                continue
            key = (m['tid'], m['kind'])
            if m['v'] in ('ACCEPT', 'REJECT'):
                if key in verdict:
                    raise tlc.MachineryError('two verdicts for stream %s' % (key,))
                verdict[key] = (m['v'], m['pos'], m['why'])
            elif m['v'] in ('CONFORM', 'DRIFT'):
                conform[key] = m['v']
        for a in TRACE_ACTIONS:
            if tres['coverage'].get(a, [0])[0] == 0:
                raise tlc.MachineryError('LpFormat trace validation: action %s never taken' % a)

    # ---------------------------------------------------------------------- 4. collation
    def emit(f):
        if f['prop'] in props:
            rep.violation(f['sig'], f)
        else:
            rep.extra.setdefault('other_property_findings', {}).setdefault(f['sig'], 0)
            rep.extra['other_property_findings'][f['sig']] += 1

    classes = {}
    ndrift = 0
    validated = 0
    accepted = dict(lp=0, show=0)
    rejected = dict(lp=0, show=0)
    ctl = dict(neg_total=0, neg_rejected=0, pos_total=0, pos_accepted=0, canonical=0, names={})
    for tid0, tr in enumerate(traces):
        tid = tid0 + 1
        r = results[tr['job']]
        job = jobs[tr['job']]
        if tr['kind'] == 'genuine':
            for kind in ('lp', 'show'):
                v = verdict.get((tid, kind))
                if v is None:
                    raise tlc.MachineryError('no verdict for stream %d/%s' % (tid, kind))
                validated += 1
                if conform.get((tid, kind)) == 'DRIFT':
                    ndrift += 1
                    if ndrift <= 3:
                        rep.note('transcription drift (not an alarm): %s stream of %s differs from the transcribed '
                                 'writer' % (kind, r['recsig']))
                if v[0] == 'ACCEPT':
                    accepted[kind] += 1
                    continue
                rejected[kind] += 1
                stream = r[kind]
                evt = stream[v[1] - 1] if 0 < v[1] <= len(stream) else None
                if v[2] == 'unknown-event' or (evt is not None and evt['k'] == 'Junk'):
                    # the lexer could not read the text.  If the independent reader could, the lexer is
                    # too weak (machinery); if it could not either, replay_lpformat already reported it.
                    if not any(f['sig'].startswith('C16:lp-file:reader-rejects') for f in r['findings']):
                        raise tlc.MachineryError('lexer cannot read an export gurobi reads: %s\n%s' % (evt, r['text']))
                    continue
                sig = 'C16:%s:%s:%s' % ('lp-text' if kind == 'lp' else 'show', v[2], r['P']['cls'])
                emit(dict(sig=sig, prop='C16',
                          what=('the %s does not describe the formula: acceptor of LpFormat.tla stops at event %d (%s): %s'
                                % ('.lp text' if kind == 'lp' else 'show() frame', v[1], evt, v[2])),
                          program=job['rec'], recsig=r['recsig'], cls=r['P']['cls'], P=r['P'], text=r['text'],
                          show_rows=r['show_rows'], table=r['table']))
        elif tr['kind'] == 'canon':
            for kind in ('lp', 'show'):
                v = verdict.get((tid, kind))
                if v is None or v[0] != 'ACCEPT':
                    raise tlc.MachineryError('acceptor rejects the canonical %s stream of %s: %s' % (kind, r['recsig'], v))
            ctl['canonical'] += 1
        else:
            v = verdict.get((tid, tr['stream']))
            if v is None:
                raise tlc.MachineryError('no verdict for control %d' % tid)
            st = ctl['names'].setdefault(tr['name'], [0, 0])
            st[0] += 1
            if tr['accept']:
                ctl['pos_total'] += 1
                if v[0] == 'ACCEPT':
                    ctl['pos_accepted'] += 1
                    st[1] += 1
                else:
                    raise tlc.MachineryError('acceptor rejects an equivalent text (%s): %s at %d on %s'
                                             % (tr['name'], v[2], v[1], r['recsig']))
            else:
                ctl['neg_total'] += 1
                if v[0] == 'REJECT' and (tr['why'] is None or v[2] == tr['why']):
                    ctl['neg_rejected'] += 1
                    st[1] += 1
                else:
                    raise tlc.MachineryError('acceptor does not reject a corrupted stream (%s): %s on %s'
                                             % (tr['name'], v, r['recsig']))
    nbuilt = 0
    notekinds = {}
    agree = dict(file_vs_formula={}, tokens_vs_formula={})
    for job, r in zip(jobs, results):
        rep.count(key=('LpFormat', r['recsig']))
        rep.inconclusive += r['inconclusive']
        if r['P'] is not None:
            nbuilt += 1
        for cname in r['classes']:
            classes[cname] = classes.get(cname, 0) + 1
        for f in r['findings']:
            emit(f)
        for kk in agree:
            vv = r['res'].get(kk)
            if vv is not None:
                agree[kk][vv] = agree[kk].get(vv, 0) + 1
        for n in r['notes'][:1]:
            kind = n.split(':')[0][:40]
            notekinds[kind] = notekinds.get(kind, 0) + 1
            if notekinds[kind] <= 2:
                rep.note('%s: %s' % (r['recsig'], n))
    missing = [c for c in REQUIRED_CLASSES if not classes.get(c)]
    if missing:
        raise tlc.MachineryError('vacuity: no replayed program in class(es) %s' % missing)
    if ctl['neg_total'] == 0 or ctl['pos_total'] == 0:
        raise tlc.MachineryError('vacuity: no binding controls were evaluated')
    rep.traces_validated += validated
    rep.extra['lpformat'] = dict(
        streams_validated=validated, accepted=accepted, rejected=rejected, transcription_drift=ndrift,
        programs_built=nbuilt, classes=classes, optimum_comparisons=agree,
        binding_controls=dict(canonical_streams_accepted=2 * ctl['canonical'], corrupted_total=ctl['neg_total'], corrupted_rejected=ctl['neg_rejected'],
                              equivalent_total=ctl['pos_total'], equivalent_accepted=ctl['pos_accepted'],
                              by_kind={k: v[0] for k, v in sorted(ctl['names'].items())}),
        flags=FLAGS, replay_notes_by_kind=notekinds)
    shown = 0
    for job, r in zip(jobs, results):
        if r['P'] is not None and shown < 3 and (shown > 0 or 'cone' in r['classes']):
            shown += 1
            rep.sample(dict(suite='LpFormat', generated_program=job['rec'], value_table=r['table'],
                            formula_shape=r['shape'], lp_text=r['text'], show_rows=r['show_rows'],
                            lp_events=len(r['lp']), show_events=len(r['show']), solves=r['res']))
    return jobs, results
