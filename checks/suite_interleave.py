"""Suite: Interleave.tla (C17, C09, C19): two models of any of the five classes, every interleaving of their scripts."""
import json
import random

from harness import tlc, core
from harness.tlc import tla
from harness.replay_interleave import STEPS

FRONTS = ['lp', 'socp', 'gcp', 'ro', 'dro']
TOL = dict(lp=2e-6, socp=5e-5, gcp=5e-4, ro=5e-5, dro=5e-5)


def run(rep, tier, props):
    pairs = [(a, b) for a in FRONTS for b in FRONTS]
    with tlc.Scratch() as sc:
        model = tlc.make_model('Interleave', sc, constants=dict(Fronts=tla(set(FRONTS)), Steps=tla(STEPS), Pairs=tla(set(pairs))),
                               invariants=['TypeOK', 'SolveCurrent', 'Export'], properties=['Isolation', 'SharedUntouched'])
        cap = 64 if tier == 'quick' else 700
        res = tlc.run_tlc(model, sc, workers=8, coverage=True, timeout=1200)
        tlc.require_ok(res, 'Interleave')
        rep.add_tlc('Interleave[25 pairs of model classes x every interleaving of two %d-step scripts]' % len(STEPS), res)
        exports = res['exports']
    by_pair = {}
    for c in exports:
        by_pair.setdefault((c['fa'], c['fb']), set()).add(''.join(c['sched']))
    n_sched = {p: len(v) for p, v in by_pair.items()}
    if len(by_pair) != 25 or min(n_sched.values()) != 3432:
        raise tlc.MachineryError('Interleave: expected 25 pairs x 3432 schedules, got %d pairs, min %d' % (len(by_pair), min(n_sched.values() or [0])))
    rng = random.Random(rep.seed)
    cases = []
    for p in sorted(by_pair):
        ss = sorted(by_pair[p])
        # always: the two sequential orders and the strict alternations; the rest sampled
        must = ['A' * 7 + 'B' * 7, 'B' * 7 + 'A' * 7, 'AB' * 7, 'BA' * 7]
        rest = [s for s in ss if s not in must]
        rng.shuffle(rest)
        for s in must + rest[:cap - len(must)]:
            cases.append(dict(fa=p[0], fb=p[1], sched=list(s)))
    rep.exhaustive = False
    solo_jobs = [dict(front=f, slot=s) for f in FRONTS for s in 'AB']
    solos = core.pmap('harness.replay_interleave', 'solo', solo_jobs, chunksize=1)
    bad = core.machinery_failures(solos)
    if bad:
        raise tlc.MachineryError('replay_interleave.solo failed: %s\n%s' % (bad[0]['machinery_error'], bad[0].get('tb', '')))
    ref = {}
    for r in solos:
        if r['rec'] is None or r['obs']:
            raise tlc.LibraryFailure('Interleave: the solo script of %s/%s does not run: %s' % (r['front'], r['slot'], r['obs']),
                                     [dict(sig='%s:interleave:solo-script-fails:%s' % (props[0], r['front']), detail=r)])
        for k in ('solve1', 'solve2'):
            if r['rec'][k].get('call_mismatch'):
                _emit(rep, dict(sig='C12:interleave:call-differs-from-get:%s:%s' % (r['front'], k), prop='C12', what=r['rec'][k]['call_mismatch'], case=dict(solo=r['front'], slot=r['slot']), result=r), props)
        if any(r['rec'][k].get('obj') is None for k in ('solve1', 'solve2')):
            raise tlc.MachineryError('Interleave: solo script of %s/%s is not solved: %r' % (r['front'], r['slot'], r['rec']))
        ref[(r['front'], r['slot'])] = r['rec']
    jobs = [dict(tid=k, case=c) for k, c in enumerate(cases)]
    results = core.pmap('harness.replay_interleave', 'replay', jobs, chunksize=4)
    bad = core.machinery_failures(results)
    if bad:
        raise tlc.MachineryError('replay_interleave failed: %s\n%s' % (bad[0]['machinery_error'], bad[0].get('tb', '')))
    stats = dict(cases=len(jobs), schedules_per_pair=cap, solves_compared=0, forms_compared=0, reads_after_every_step=True, drift={})
    for job, r in zip(jobs, results):
        c = job['case']
        rep.count(key=('ILV', c['fa'], c['fb'], ''.join(c['sched'])))
        detail = dict(case=dict(fa=c['fa'], fb=c['fb'], sched=''.join(c['sched'])), result=r)
        for o in r['obs']:
            fr = {'A': c['fa'], 'B': c['fb']}.get(o['slot'], '-')
            other = {'A': c['fb'], 'B': c['fa']}.get(o['slot'], '-')
            if o['kind'] in ('solver-default-arguments-changed', 'class-level-state-changed'):
                stats['drift'][o['kind']] = stats['drift'].get(o['kind'], 0) + 1      # process-wide state written: recorded, a verdict only through results
            elif o['kind'] == 'user-array-changed':
                _emit(rep, dict(sig='C19:interleave:user-array-changed:%s+%s' % (c['fa'], c['fb']), prop='C19', what=o['what'], **detail), props)
            elif o['kind'] == 'raises':
                for pr in ('C17', 'C09'):
                    _emit(rep, dict(sig='%s:interleave:step-raises-next-to-another-model:%s:%s:other=%s' % (pr, fr, o['step'], other), prop=pr,
                                    what='%s (the same script runs alone)' % o['what'], **detail), props)
            else:
                _emit(rep, dict(sig='C17:interleave:%s:%s:other=%s.%s' % (o['kind'], fr, other, o['step']), prop='C17', what=o['what'], **detail), props)
        if r['aborted']:
            continue
        for slot, fr, other in (('A', c['fa'], c['fb']), ('B', c['fb'], c['fa'])):
            want, got = ref[(fr, slot)], r['rec'][slot]
            for step in ('solve1', 'solve2'):
                stats['solves_compared'] += 1
                g, w = got.get(step), want[step]
                if g is not None and g.get('call_mismatch'):
                    _emit(rep, dict(sig='C12:interleave:call-differs-from-get:%s:%s' % (fr, step), prop='C12', what=g['call_mismatch'], **detail), props)
                tol = TOL[fr]
                if g is None or g.get('obj') is None or abs(g['obj'] - w['obj']) > 10 * tol * (1 + abs(w['obj'])) \
                        or max(abs(a - b) for a, b in zip(g['x'], w['x'])) > 100 * tol * (1 + max(abs(v) for v in w['x'])):
                    for pr in ('C17', 'C09'):
                        _emit(rep, dict(sig='%s:interleave:results-differ-from-solo-run:%s:%s:other=%s' % (pr, fr, step, other), prop=pr,
                                        what='%s reports %r next to a %s model, %r alone' % (fr, g, other, w), **detail), props)
                    break
            stats['forms_compared'] += 1
            for which in ('primal', 'dual'):
                if got['final'][which] != want['final'][which]:
                    _emit(rep, dict(sig='C19:interleave:standard-form-differs-from-solo-run:%s:%s:other=%s' % (fr, which, other), prop='C19',
                                    what='the %s standard form of the %s model is not the one of the same declarations built alone' % (which, fr), **detail), props)
    rep.traces_validated += len(jobs)
    rep.extra['interleave'] = stats
    for job in jobs[:2]:
        rep.sample(dict(suite='Interleave', case=dict(fa=job['case']['fa'], fb=job['case']['fb'], sched=''.join(job['case']['sched']))))
    return jobs, results


def _emit(rep, f, props):
    if f['prop'] in props:
        rep.violation(f['sig'], f)
    else:
        d = rep.extra.setdefault('other_property_findings', {})
        d[f['sig']] = d.get(f['sig'], 0) + 1
