"""Suite: RoSem.tla  (C01 robust feasibility, C02 exactness; feeds C08/C11/C15/C19 generators).

1. TLC (generator mode) enumerates every program of a family and computes its exact grid optimum.
2. Each program is built through rsome.ro and solved (spec -> code).
3. What the library returned goes back to TLC (validator mode, code -> spec): the post-condition of
   C01/C02 is evaluated by TLC on scaled integers at every vertex of every set / in squares for balls.
4. Independent float oracle for polytope programs: the vertex expansion LP/MILP solved with HiGHS directly.
"""
import json
import os
import random

from harness import tlc, core
from harness.tlc import tla

ALL_SETS = [1, 2, 3, 4, 5, 6, 7, 8, 9, 10, 11, 12, 15, 16, 17, 18, 19]
BALL_SETS = [13, 14]
ROW_T = list(range(1, 13))
OBJ_DET = [21, 22]
OBJ_ROB = [23, 24, 25, 26]
XB = 2


def family_configs(tier, rng):
    """A list of constant assignments; each is one TLC generator run."""
    cfgs = []
    sets = ALL_SETS[:]
    rng.shuffle(sets)
    pairs = [sets[i:i + 2] for i in range(0, len(sets) - 1, 2)]
    if len(sets) % 2:
        pairs.append([sets[-1], sets[0]])
    npairs = {'quick': 5, 'thorough': len(pairs)}[tier]
    for pr in pairs[:npairs]:
        rt = rng.sample(ROW_T, 5 if tier == 'quick' else 12)
        cfgs.append(dict(SetIds=set(pr), RowTemplates=set(rt), ObjTemplates=set([rng.choice(OBJ_DET)] + rng.sample(OBJ_ROB, 2 if tier == 'quick' else 4)),
                         MaxRows=1, Masks={'none', rng.choice(['m1', 'm2', 'm12', 'm0'])} if tier == 'quick' else {'none', 'm0', 'm1', 'm2', 'm12'},
                         IntChoices={True, False}, Senses={'le', 'ge', 'eq'},
                         OSenses={'min', 'max', 'minmax', 'maxmin'}))
    # two-row programs on fewer templates
    for pr in pairs[npairs:npairs + 2] if tier == 'quick' else pairs:
        rt = rng.sample(ROW_T, 3)
        cfgs.append(dict(SetIds=set(pr), RowTemplates=set(rt), ObjTemplates=set([rng.choice(OBJ_DET), rng.choice(OBJ_ROB)]),
                         MaxRows=2, Masks={'none', rng.choice(['m1', 'm12'])}, IntChoices={True, False},
                         Senses={'le', 'ge'}, OSenses={'min', 'minmax', 'maxmin'}))
    # conic sets: continuous decisions, deterministic objectives (ball) / any (square box is set 15, above)
    for b in BALL_SETS:
        cfgs.append(dict(SetIds={b, rng.choice([1, 3, 7])}, RowTemplates=set(rng.sample(ROW_T, 5 if tier == 'quick' else 12)),
                         ObjTemplates=set(OBJ_DET + ([rng.choice(OBJ_ROB)] if tier == 'quick' else OBJ_ROB)), MaxRows=1,
                         Masks={'none', 'm12'} if tier == 'quick' else {'none', 'm1', 'm12'}, IntChoices={False},
                         Senses={'le', 'ge', 'eq'}, OSenses={'min', 'max', 'minmax', 'maxmin'}))
    return cfgs


def gen_constants(c, yb):
    d = dict(XB=tla(XB), YB=tla(yb), Results='{}', SC='1')
    for k in ('SetIds', 'RowTemplates', 'ObjTemplates', 'Masks', 'IntChoices', 'Senses', 'OSenses'):
        d[k] = tla(c[k])
    d['MaxRows'] = tla(c['MaxRows'])
    return d


def is_conic(rec):
    p = rec['prog']
    used = {p['dset']} | {r['set'] for r in p['rows'] if r['set']}
    return bool(used & {13, 14, 15})


def has_ball(rec):
    p = rec['prog']
    used = {p['dset']} | {r['set'] for r in p['rows'] if r['set']}
    return bool(used & {13, 14})


def pick_solver(rec, k):
    p = rec['prog']
    if is_conic(rec):
        return ('eco', 'grb')[k % 2]
    if p['xint']:
        return ('def', 'ort', 'grb')[k % 3]
    return ('def', 'ort', 'eco', 'grb')[k % 4]


def generate(rep, tier, sc, cap):
    rng = random.Random(rep.seed)
    from concurrent.futures import ThreadPoolExecutor
    from harness import ro_catalogue
    cfgs = family_configs(tier, rng)

    def one(c):
        model = tlc.make_model('RoSem', sc, constants=gen_constants(c, 1), invariants=['OracleSane', 'Export'])
        return tlc.run_tlc(model, sc, workers=2, coverage=False, timeout=3000)

    with ThreadPoolExecutor(max_workers=8) as ex:
        allres = list(ex.map(one, cfgs))
    recs = []
    for ci, (c, res) in enumerate(zip(cfgs, allres)):
        tlc.require_ok(res, 'RoSem generator cfg %d' % ci)
        rep.add_tlc('RoSem.gen[sets=%s,rows<=%d]' % (sorted(c['SetIds']), c['MaxRows']), res)
        if not res['exports']:
            raise tlc.MachineryError('RoSem generator cfg %d exported nothing' % ci)
        verts = res['exports'][0]['verts']
        if isinstance(verts, list):
            verts = {str(i + 1): v for i, v in enumerate(verts)}
        try:
            ro_catalogue.check_catalogue({k: v for k, v in verts.items() if v}, {})
        except AssertionError as e:
            raise tlc.MachineryError('CatalogueSound failed: %s' % e)
        ex = sorted(res['exports'], key=lambda r: json.dumps(r['prog'], sort_keys=True))
        rng.shuffle(ex)
        feas = [r for r in ex if r['gridFeasible']]
        infe = [r for r in ex if not r['gridFeasible']]
        take = feas[:cap] + infe[:max(10, cap // 8)]
        recs.extend(take)
    return recs


def validate(rep, sc, label, results, scale, tol_units):
    """Send results back to TLC; returns list of verdict records."""
    if not results:
        return []
    # a literal, not JsonDeserialize: TLC re-evaluates non-literal constant definitions at every use
    consts = dict(XB=tla(XB), YB='1', SetIds='{}', RowTemplates='{}', ObjTemplates='{}', MaxRows='1', Masks='{}',
                  IntChoices='{}', Senses='{}', OSenses='{}',
                  Results='{' + ', '.join(tla(dict(r, tid=k + 1)) for k, r in enumerate(results)) + '}', SC=tla(scale))
    model = tlc.make_model('RoSem', sc, constants=consts, invariants=['Validate'])
    res = tlc.run_tlc(model, sc, workers=12, coverage=False, timeout=3000)
    tlc.require_ok(res, 'RoSem validator ' + label)
    rep.add_tlc('RoSem.validate[%s, scale=%d]' % (label, scale), res)
    ver = res['exports']
    if len(ver) != len(results):
        raise tlc.MachineryError('RoSem validator %s: %d verdicts for %d results (log %s)' % (label, len(ver), len(results), res['log']))
    rep.traces_validated += len(ver)
    return ver


def scaled(v, scale):
    return int(round(v * scale))


def run(rep, tier, props):
    cap = {'quick': 350, 'thorough': 6000}[tier]
    with tlc.Scratch() as sc:
        recs = generate(rep, tier, sc, cap)
        jobs = []
        for k, rec in enumerate(recs):
            jobs.append(dict(tid=k, rec=rec, XB=XB, solver=pick_solver(rec, k), variant=k % 6))
        results = core.pmap('harness.replay_rosem', 'replay', jobs, chunksize=8)
        bad = core.machinery_failures(results)
        if bad:
            raise tlc.MachineryError('replay_rosem failed: %s\n%s' % (bad[0]['machinery_error'], bad[0].get('tb', '')))
        # ---- code -> spec: TLC evaluates the post-condition
        groups = {'poly': ([], 100000, 30), 'ball': ([], 1000, 12)}
        index = {'poly': [], 'ball': []}
        for job, r in zip(jobs, results):
            rec = job['rec']
            if r['status'] == 'exception':
                continue
            g = 'ball' if has_ball(rec) else 'poly'
            lst, scale, tolu = groups[g]
            if r['status'] == 'ok':
                item = dict(prog=rec['prog'], status='ok', x=[scaled(v, scale) for v in r['x']],
                            y=[scaled(v, scale) for v in r['y']], obj=scaled(r['obj'], scale), tol=tolu,
                            gridOpt=rec['gridOpt'], gridFeasible=rec['gridFeasible'])
            else:
                item = dict(prog=rec['prog'], status='fail', x=[0, 0], y=[0, 0, 0], obj=0, tol=tolu,
                            gridOpt=rec['gridOpt'], gridFeasible=rec['gridFeasible'])
            lst.append(item)
            index[g].append(job['tid'])
        verdicts = {}
        for g, (lst, scale, tolu) in groups.items():
            for v in validate(rep, sc, g, lst, scale, tolu):
                verdicts[index[g][v['tid'] - 1]] = v
    # ---- collate
    stats = dict(ok=0, fail=0, exception=0, lp_oracle=0, conic=0, with_ldr=0, integer=0)
    per_set = {}
    for job, r in zip(jobs, results):
        rec = job['rec']
        p = rec['prog']
        tid = job['tid']
        key = json.dumps(p, sort_keys=True)
        rep.count(key=('R', key, job['solver']))
        used = sorted({p['dset']} | {x['set'] for x in p['rows'] if x['set']})
        for s in used:
            per_set[s] = per_set.get(s, 0) + 1
        stats['conic'] += 1 if is_conic(rec) else 0
        stats['with_ldr'] += 1 if p['mask'] != 'none' else 0
        stats['integer'] += 1 if p['xint'] else 0
        tag = 'sets=%s:%s:%s' % ('+'.join(map(str, used)), p['osense'], 'ldr' if p['mask'] != 'none' else ('int' if p['xint'] else 'cont'))
        detail = dict(program=p, rows=rec['rows'], objT=rec['objT'], solver=job['solver'], variant=job['variant'], result={k: v for k, v in r.items() if k != 'lp'},
                      gridOpt=rec['gridOpt'], gridFeasible=rec['gridFeasible'], lp=r.get('lp'))
        if r['status'] == 'exception':
            stats['exception'] += 1
            f = dict(sig='C01:unexpected-exception:%s:%s' % (r['phase'], r['exc'].split(':')[0]), prop='C01', what=r['exc'], **detail)
            _emit(rep, f, props)
            continue
        stats[r['status']] += 1
        v = verdicts[tid]
        setsig = 'set%s' % (p['dset'] if not [x for x in p['rows'] if x['set']] else '+'.join(map(str, used)))
        if not v['feasible']:
            _emit(rep, dict(sig='C01:infeasible-at-realisation:%s' % setsig, prop='C01', what='returned solution violates a robust row at a realisation of its set (TLC post-condition PostFeasible)', **detail), props)
        if not v['mask']:
            _emit(rep, dict(sig='C13:ldr-dependency-not-declared', prop='C13', what='decision-rule coefficient on an undeclared component is non-zero', **detail), props)
        if not v['objsafe']:
            _emit(rep, dict(sig='C01:objective-not-a-bound:%s:%s' % (p['osense'], setsig), prop='C01', what='reported objective does not bound the worst case at the returned solution (PostObjSafe)', **detail), props)
        if not v['objtight']:
            _emit(rep, dict(sig='C02:worse-than-grid-point:%s:%s' % (p['osense'], setsig), prop='C02', what='reported optimum is worse than a feasible grid point (PostObjTight): the counterpart is conservative', **detail), props)
        if not v['objexact']:
            _emit(rep, dict(sig='C02:integer-optimum-differs:%s:%s' % (p['osense'], setsig), prop='C02', what='all-integer model: reported optimum differs from the exact grid optimum', **detail), props)
        if not v['status']:
            if r['status'] == 'fail':
                _emit(rep, dict(sig='C02:feasible-model-not-solved:%s:%s' % (setsig, job['solver']), prop='C02', what='a feasible grid point exists but the model was reported unsolvable', **detail), props)
            else:
                _emit(rep, dict(sig='C01:infeasible-model-solved:%s' % setsig, prop='C01', what='integer model without feasible grid point reported optimal', **detail), props)
        # float oracle (outside TLC): vertex expansion
        lp = r.get('lp')
        if lp is not None and not has_ball(rec):
            stats['lp_oracle'] += 1
            tolf = (2e-5 if job['solver'] == 'eco' else 2e-6) * (1 + abs(lp.get('val', 0.0)))
            if lp['status'] == 'ok' and r['status'] == 'ok':
                d = r['obj'] - lp['val']
                if abs(d) > 10 * tolf:
                    minim = p['osense'] in ('min', 'minmax')
                    unsafe = (d < 0) == minim
                    _emit(rep, dict(sig=('C01:optimum-better-than-semi-infinite:%s:%s' if unsafe else 'C02:optimum-worse-than-semi-infinite:%s:%s') % (p['osense'], setsig),
                                    prop='C01' if unsafe else 'C02', what='reported optimum differs from the vertex-expansion optimum (float oracle) by %.3g' % d, **detail), props)
                elif abs(d) > tolf:
                    rep.inconclusive += 1
            elif lp['status'] == 'infeasible' and r['status'] == 'ok':
                _emit(rep, dict(sig='C01:infeasible-model-solved:%s' % setsig, prop='C01', what='vertex expansion infeasible but model reported optimal', **detail), props)
            elif lp['status'] == 'ok' and r['status'] == 'fail':
                _emit(rep, dict(sig='C02:feasible-model-not-solved:%s:%s' % (setsig, job['solver']), prop='C02', what='vertex expansion solvable but model reported unsolvable', **detail), props)
        if r['status'] == 'fail' and r.get('get_after_fail') == 'returned':
            _emit(rep, dict(sig='C11:get-after-failure-returned', prop='C11', what='get() returned a value after a failed solve', **detail), props)
    rep.extra.setdefault('rosem', {}).update(stats=stats, programs_per_set=per_set)
    for job in jobs[:3]:
        rep.sample(dict(suite='RoSem', program=job['rec']['prog'], gridOpt=job['rec']['gridOpt'], solver=job['solver']))
    # vacuity
    if stats['ok'] < len(jobs) // 4:
        raise tlc.MachineryError('RoSem: only %d of %d programs solved' % (stats['ok'], len(jobs)))
    return jobs, results


def _emit(rep, f, props):
    if f['prop'] in props:
        rep.violation(f['sig'], f)
    else:
        d = rep.extra.setdefault('other_property_findings', {})
        d[f['sig']] = d.get(f['sig'], 0) + 1
