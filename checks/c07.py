"""C07 - deterministic optimum is the true optimum; conic atom encodings are exact."""
from harness import core
from checks import suite_ipcone


def main(tier):
    rep = core.Report('C07', tier, level='model_checking')
    rep.rule = ('one case = one replay into the real library of something TLC generated: (struct) a weight vector beta '
                'reached by IPCone.tla, whose real IPCone.to_soc() output is multiplied out exactly and compared with beta; '
                '(value/rat) an atom parameter (p-norm degree, power p/q, geometric-mean weights, 2x2 integer PSD/NSD matrix, '
                'exp-cone atom) x pinned rational argument x positive multiplier x position (constraint/objective), optimised '
                'and compared with the closed form / the exact value TLC computed; (reform) an atom re-formulated three times; '
                '(milp) a mixed-integer program reached by LPSem.tla solved on three interfaces and compared with the brute-force '
                'optimum TLC computed. distinct = distinct (kind, parameter, argument, multiplier, position, front end / style); '
                'non-trivial = every case executes real rsome code (to_soc, do_math, solve)')
    rep.assumptions = ['TLC 1.8 and the CommunityModules',
                       'ECOS solves the tiny conic programs to 1e-5 (SOC) / 5e-4 (exp cone); Gurobi (restricted licence) as '
                       'second opinion for SOC; a numeric deviation is a violation only if every capable solver deviates the same '
                       'way, or the only capable solver deviates by more than 10x the tolerance',
                       'HiGHS (scipy.milp), SCIP (OR-Tools) and Gurobi solve 3-variable integer programs exactly',
                       'closed forms evaluated in float64 (harness/replay_ipcone.py); concretisation of pinned arguments and '
                       'multipliers in checks/suite_ipcone.py']
    suite_ipcone.run(rep, tier, props=('C07',))
    return rep.finish()


def replay(path):
    from checks import replay_file
    return replay_file.run(path)
