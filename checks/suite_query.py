"""Suite: Query.tla  (C12 - solution queries return the right numbers for the right objects).

1. TLC enumerates scenes of five kinds (decision arrays + selectors; ro decision rules under histories of
   adapt(); bi-affine expressions called with realisations; k*atom + c chains; event-wise dro decisions
   with labelled scenarios), checks on each that the transcription of the (repaired) implementation
   means what the user wrote (CodeIsIdeal, DepExact, EventsExact), and exports per query the IDEAL
   value plus the named alternatives (what the unrepaired transcription returns, Known_f).
2. Every scene is built through the public API, solved, every query issued (harness/replay_query.py).
3. Verdict: real result vs IDEAL.  The set of signatures the specification predicts for the pinned
   code is reported next to the set observed, so a repaired defect shows up as 'predicted, not observed'.
The per-scenario label clause on histories with illegal calls / slices is Partition.tla's: c12.py runs
suite_partition with props=('C12',) next to this suite.
"""
import collections
import json
import random

from harness import tlc, core
from harness.tlc import tla

ALL_FLAGS = ['slice-get', 'dro-slice-get', 'ldr-noadapt-get', 'ldr-noadapt-call', 'dro-mixed-call', 'dro-sw-single',
             'power-offset', 'power-abs', 'entropy-sign', 'persp-scale', 'sum-call', 'sum-ops', 'square-shape']
INVARIANTS = ['TypeOK', 'CodeIsIdeal', 'DepExact', 'EventsExact', 'Export']

ATOMS = ['abs', 'norm1', 'norm2', 'norminf', 'square', 'square2d', 'square0d', 'sumsqr', 'quad', 'quadneg', 'pnorm3',
         'pnorm52', 'pnorm25exc', 'pnorm3exc', 'power3', 'power32', 'power22', 'exp', 'exp2d', 'log', 'entropy',
         'entropy0d', 'softplus', 'pexp2', 'pexps', 'plog2', 'plogs', 'expsum', 'logsum', 'gmean']


def _op(op, k2=0, c=0):
    return dict(op=op, k2=k2, c=c)


# multipliers k = k2/2 in {-2, -1, 0.5, 1, 3}; -atom; atom + c; atom + affine (the variable s); c - atom
OPS = [_op('mul', -4), _op('mul', -2), _op('mul', 1), _op('mul', 2), _op('mul', 6), _op('neg'), _op('addc', c=5),
       _op('adds'), _op('rsubc', c=1)]


def _ysel(form, idx):
    return dict(form=form, idx=idx)


def _rsel(rv, form, comps):
    return dict(rv=rv, form=form, comps=comps)


def _ldr_cfg(n1, n2, ny, steps, ysels, rsels, gsels):
    return dict(N1=n1, N2=n2, NY=ny, MaxSteps=steps, V1=[1, -2, 3], V2=[2, 1, -1], OSenses={'minmax', 'maxmin'},
                YSels=ysels, RSels=rsels, GSels=gsels)


def configs(tier):
    """(kind, label, P) per TLC run."""
    q = tier == 'quick'
    out = []
    out.append(('vars', 'arrays<=%d' % (2 if q else 3),
                dict(FrontEnds={'ro', 'dro'}, ShapeIds={1, 2, 3, 4, 5}, MaxArrays=2 if q else 3, Senses={'min', 'max'},
                     Weights={1, -2}, Col0=1)))
    out.append(('ldr', 'n1=2,n2=2,ny=2,steps<=%d' % (2 if q else 3),
                _ldr_cfg(2, 2, 2, 2 if q else 3,
                         [_ysel('all', [0, 1]), _ysel('int', [0]), _ysel('slice', [1])],
                         [_rsel(1, 'whole', [0, 1]), _rsel(2, 'whole', [0, 1]), _rsel(1, 'int', [1]), _rsel(2, 'list', [1, 0]), _rsel(2, 'slice', [0])],
                         [_rsel(1, 'whole', [0, 1]), _rsel(2, 'whole', [0, 1]), _rsel(2, 'int', [1]), _rsel(1, 'slice', [1]), _rsel(2, 'list', [1, 0])])))
    out.append(('ldr', 'n1=3,n2=0,ny=3,steps<=%d' % (2 if q else 3),
                _ldr_cfg(3, 0, 3, 2 if q else 3,
                         [_ysel('all', [0, 1, 2]), _ysel('int', [2]), _ysel('list', [2, 0]), _ysel('slice', [0, 1])],
                         [_rsel(1, 'whole', [0, 1, 2]), _rsel(1, 'int', [0]), _rsel(1, 'slice', [1, 2]), _rsel(1, 'list', [2, 0])],
                         [_rsel(1, 'whole', [0, 1, 2]), _rsel(1, 'int', [2]), _rsel(1, 'slice', [0, 1]), _rsel(1, 'list', [2, 0])])))
    out.append(('ldr', 'n1=1,n2=3,ny=1,steps<=%d' % (2 if q else 3),
                _ldr_cfg(1, 3, 1, 2 if q else 3,
                         [_ysel('all', [0]), _ysel('int', [0])],
                         [_rsel(1, 'whole', [0]), _rsel(2, 'whole', [0, 1, 2]), _rsel(2, 'int', [2]), _rsel(2, 'slice', [0, 1]), _rsel(2, 'list', [2, 0])],
                         [_rsel(1, 'whole', [0]), _rsel(2, 'whole', [0, 1, 2]), _rsel(2, 'int', [2]), _rsel(2, 'slice', [1, 2]), _rsel(2, 'list', [2, 0])])))
    out.append(('call', 'templates 1-7',
                dict(X=[3, -2], VSets=[dict(v1=[1, -2], v2=[2, 1]), dict(v1=[-3, 4], v2=[0, 5])], Tmpls={1, 2, 3, 4, 5, 6, 7},
                     Modes={'both', 'rev', 'z1', 'z2', 'none', 'z1scalar'}, Scalar=2)))
    out.append(('atom', '%d atoms, chains<=%d' % (len(ATOMS), 2 if q else 3),
                dict(FrontEnds={'ro', 'dro'}, Atoms=set(ATOMS), Points={'pos', 'mixed'}, MaxChain=2 if q else 3, Ops=OPS)))
    out.append(('dro', 'ns=3,steps<=%d' % (2 if q else 3),
                dict(NS=3, Zhat=[3, 1, 2], LabelKinds={'int', 'str', 'intperm'}, MaxSteps=2 if q else 3, V=[2, -1],
                     Vs=[[1, 0], [2, -1], [3, -2]])))
    out.append(('dro', 'ns=4,steps<=%d' % (1 if q else 3),
                dict(NS=4, Zhat=[2, 4, 1, 3], LabelKinds={'str', 'intperm'} if q else {'int', 'str', 'intperm'},
                     MaxSteps=1 if q else 3, V=[-3, 2], Vs=[[1, 0], [2, -1], [3, -2], [-1, 4]])))
    return out


def _rec(d):
    return '[' + ', '.join('%s |-> %s' % (k, tla(v)) for k, v in d.items()) + ']'


def _jobs(kind, recs):
    if kind != 'atom':
        return [dict(kind=kind, rec=r) for r in recs]
    groups = collections.OrderedDict()
    for r in recs:
        sc = r['scene']
        groups.setdefault((sc['fe'], sc['atom'], sc['point'], r['shp']), []).append(r)
    jobs = []
    for (fe, atom, point, shp), rs in groups.items():
        rs.sort(key=lambda r: json.dumps(r['scene']['chain']))
        for i in range(0, len(rs), 200):
            jobs.append(dict(kind='atom', fe=fe, atom=atom, point=point, shp=shp, recs=rs[i:i + 200]))
    return jobs


# expected-outcome classes that must be non-empty in the replayed sample (vacuity)
MUST_CLASSES = ['ok', 'ldr-never-adapted', 'ldr-adapted', 'ldr-history-with-rejected-redefinition', 'dro-event-wise',
                'dro-single-event', 'dro-labels-int', 'dro-labels-str', 'dro-labels-intperm', 'atom-ro', 'atom-dro',
                'atom-point-pos', 'atom-point-mixed', 'unsupported-raises', 'call-mode-both', 'call-mode-none', 'call-mode-z1']


def run(rep, tier, props=('C12',)):
    rng = random.Random(rep.seed)
    cap = {'quick': 1500, 'thorough': 40000}[tier]      # scenes per TLC run replayed (all, below that)
    jobs = []
    predicted = collections.Counter()
    scenes_per_kind = collections.Counter()
    with tlc.Scratch() as sc:
        cfgs = configs(tier)
        models = [tlc.make_model('Query', sc, constants=dict(Kind=tla(kind), Fixed=tla(set(ALL_FLAGS)), P=_rec(P)),
                                 invariants=INVARIANTS) for kind, label, P in cfgs]

        def one(model):
            # small runs (2 at a time, 2 workers each).  Coverage instrumentation is off: TLC's cost model
            # explodes on the higher-order operators of this spec; that both actions are taken to the
            # configured depth is established from the exported histories instead.
            return tlc.run_tlc(model, sc, workers=2, coverage=False, timeout=2400, java_opts=['-Xmx3g'])
        from concurrent.futures import ThreadPoolExecutor
        with ThreadPoolExecutor(max_workers=2) as ex:
            allres = list(ex.map(one, models))
        for (kind, label, P), res in zip(cfgs, allres):
            tlc.require_ok(res, 'Query[%s %s]' % (kind, label), allow_violation=True)
            rep.add_tlc('Query[%s: %s]' % (kind, label), res)
            if res['violated']:
                raise tlc.MachineryError('Query[%s %s]: invariant %s violated on the transcription of the repaired code\n%s'
                                         % (kind, label, res['violated'], '\n'.join(res['cex'][:40])))
            recs = res['exports']
            if len(recs) != res['distinct']:
                raise tlc.MachineryError('Query[%s %s]: %d exports for %d states' % (kind, label, len(recs), res['distinct']))
            if not recs:
                raise tlc.MachineryError('Query[%s %s] exported nothing' % (kind, label))
            for r in recs:
                for qr in r['queries']:
                    for s_ in {s_ for alt in qr['alts'] for s_ in alt['sigs']}:
                        predicted['C12:' + s_] += 1
            if kind in ('ldr', 'dro'):
                depth = max(len(r['hist']) for r in recs)
                if depth != P['MaxSteps']:
                    raise tlc.MachineryError('Query[%s %s]: adapt action never taken to depth %d' % (kind, label, P['MaxSteps']))
            recs.sort(key=lambda r: json.dumps(r['scene'], sort_keys=True) + json.dumps(r.get('hist', []), sort_keys=True))
            if kind != 'atom' and len(recs) > cap:
                must = [r for r in recs if len(r.get('hist', [])) <= 1]
                rest = [r for r in recs if len(r.get('hist', [])) > 1]
                rng.shuffle(rest)
                recs = must + rest[:max(0, cap - len(must))]
                rep.exhaustive = False
            scenes_per_kind[kind] += len(recs)
            jobs.extend(_jobs(kind, recs))
    results = core.pmap('harness.replay_query', 'replay', jobs, chunksize=4)
    bad = core.machinery_failures(results)
    if bad:
        raise tlc.MachineryError('replay_query failed: %s\n%s' % (bad[0]['machinery_error'], bad[0].get('tb', '')))
    classes = collections.Counter()
    observed = collections.Counter()
    queries_per_kind = collections.Counter()
    notes = collections.Counter()
    for job, r in zip(jobs, results):
        for k in r['qkeys']:
            rep.count(key=k)
        queries_per_kind[r['kind']] += len(r['qkeys'])
        rep.inconclusive += r['inconclusive']
        for c, n in r['classes'].items():
            classes[c] += n
        for n_ in r['notes']:
            notes[n_] += 1
        for f in r['findings']:
            if f['prop'] in props:
                observed[f['sig']] += 1
                # full detail for the first cases of a signature, a slim record for the rest
                rep.violation(f['sig'], f if observed[f['sig']] <= 5 else dict(sig=f['sig'], scene=f.get('scene'), query=f.get('query')))
            else:
                d = rep.extra.setdefault('other_property_findings', {})
                d[f['sig']] = d.get(f['sig'], 0) + 1
    for n_, c in list(notes.items())[:6]:
        rep.note('%s (%d scene(s))' % (n_, c))
    rep.traces_validated += sum(scenes_per_kind.values())
    missing = [c for c in MUST_CLASSES if not classes.get(c)]
    if missing:
        raise tlc.MachineryError('Query suite vacuous: outcome classes never reached: %s' % missing)
    rep.extra['query'] = dict(
        scenes_replayed=dict(scenes_per_kind), queries_executed=dict(queries_per_kind), outcome_classes=dict(classes),
        signatures_predicted_for_unrepaired_code=dict(predicted), signatures_observed=dict(observed),
        predicted_not_observed_ie_repaired=sorted(set(predicted) - set(observed)),
        observed_not_predicted=sorted(set(observed) - set(predicted)))
    shown = set()
    for job in jobs:
        if job['kind'] in shown:
            continue
        shown.add(job['kind'])
        r = job['recs'][len(job['recs']) // 2] if job['kind'] == 'atom' else job['rec']
        q = r['queries'][len(r['queries']) // 2]
        rep.sample(dict(suite='Query', kind=job['kind'], scene=r['scene'], history=r.get('hist'), query=q['q'],
                        ideal=q['want'], named_alternatives=q['alts']))
    return jobs, results
