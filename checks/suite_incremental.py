"""Suite: Incremental.tla (C09 / C19): solve, extend, solve again versus the same declarations built from scratch, on the
deterministic model classes (lp, socp, gcp) and ro."""
import json

from harness import tlc, core
from harness.tlc import tla

FRONTS = ['lp', 'socp', 'gcp', 'ro']
OBJ = ['lin', 'abs', 'norm2', 'sumsqr', 'square', 'exp']
KINDS = ['lin', 'abs', 'norm2', 'square', 'sumsqr', 'power3', 'exp', 'softplus', 'pnorm25', 'newvar']


def run(rep, tier, props):
    with tlc.Scratch() as sc:
        model = tlc.make_model('Incremental', sc, constants=dict(Fronts=tla(set(FRONTS)), ObjAtoms=tla(set(OBJ)), ConKinds=tla(set(KINDS)),
                                                              MaxAdds=tla(2 if tier == 'quick' else 3), NewVarBehindAux=tla(True)),
                               invariants=['PersistentUntouched', 'NoAliasing', 'Export'])
        res = tlc.run_tlc(model, sc, workers=4, coverage=True, timeout=900)
        tlc.require_ok(res, 'Incremental')
        rep.add_tlc('Incremental[4 fronts x objective atoms x <=%d added constraints, every placement of the solves]' % (2 if tier == 'quick' else 3), res)
        seen, cases = set(), []
        for c in res['exports']:
            k = json.dumps(c, sort_keys=True)
            if k not in seen:
                seen.add(k)
                cases.append(c)
    cases.sort(key=lambda c: json.dumps(c, sort_keys=True))
    if len(cases) < 200:
        raise tlc.MachineryError('Incremental: only %d cases' % len(cases))
    if tier == 'quick' and len(cases) > 900:
        import random
        random.Random(rep.seed).shuffle(cases)
        cases = cases[:900]
        rep.exhaustive = False
    jobs = [dict(tid=k, case=c) for k, c in enumerate(cases)]
    results = core.pmap('harness.replay_incremental', 'replay', jobs, chunksize=8)
    bad = core.machinery_failures(results)
    if bad:
        raise tlc.MachineryError('replay_incremental failed: %s\n%s' % (bad[0]['machinery_error'], bad[0].get('tb', '')))
    stats = dict(cases=len(jobs), compared=0, forms_compared=0, by_front={})
    for job, r in zip(jobs, results):
        c = job['case']
        rep.count(key=('INC', json.dumps(c, sort_keys=True)))
        stats['by_front'][c['front']] = stats['by_front'].get(c['front'], 0) + 1
        tag = '%s:%s:%s' % (c['front'], c['obj'], '+'.join(h['kind'] for h in c['hist'] if h['act'] == 'add'))
        detail = dict(case=c, result=r)
        inc, fr = r['incremental'], r['fresh']
        if 'exc' in fr and 'exc' in inc:
            rep.extra.setdefault('loud_in_both_builds', {})
            rep.extra['loud_in_both_builds'][fr['exc'].split(':')[0]] = rep.extra['loud_in_both_builds'].get(fr['exc'].split(':')[0], 0) + 1
            continue
        if 'exc' in inc or 'exc' in fr:
            which = 'incremental' if 'exc' in inc else 'fresh'
            for pr in ('C09', 'C19'):
                _emit(rep, dict(sig='%s:incremental-build:%s-raises:%s' % (pr, which, c['front']), prop=pr,
                                what='only the %s build raises: %s' % (which, (inc if which == 'incremental' else fr)['exc']), **detail), props)
            continue
        if inc['final'] is None and fr['final'] is None:
            continue
        stats['compared'] += 1
        tol = 5e-4 if (c['obj'] not in ('lin', 'abs') or any(h['kind'] not in ('lin', 'abs', 'newvar', '') for h in c['hist'])) else 2e-6
        if inc['final'] is None or fr['final'] is None or abs(inc['final'] - fr['final']) > 10 * tol * (1 + abs(fr['final'])):
            for pr in ('C09', 'C19'):
                _emit(rep, dict(sig='%s:incremental-build:optimum-differs-from-fresh-build:%s' % (pr, tag), prop=pr,
                                what='solve, extend, solve again reports %r; the same declarations built from scratch report %r' % (inc['final'], fr['final']), **detail), props)
        elif c['front'] != 'ro':
            stats['forms_compared'] += 1
            if inc['sig'] != fr['sig']:
                # recorded, not alarmed: the property promises the same RESULT as a build from scratch; on the unchanged tree a
                # re-formulated bare gcp model carries extra (dead) columns, so the forms are not comparable column by column
                what = 'bounds' if inc['ncols'] == fr['ncols'] and inc['lb'] != fr['lb'] else 'columns'
                d = stats.setdefault('standard_form_differs_from_fresh_build', {})
                d['%s:%s' % (c['front'], what)] = d.get('%s:%s' % (c['front'], what), 0) + 1
    rep.traces_validated += len(jobs)
    rep.extra['incremental'] = stats
    for job in jobs[:2]:
        rep.sample(dict(suite='Incremental', case=job['case']))
    if stats['compared'] < len(jobs) // 2:
        raise tlc.MachineryError('Incremental: only %d of %d cases compared' % (stats['compared'], len(jobs)))
    return jobs, results


def _emit(rep, f, props):
    if f['prop'] in props:
        rep.violation(f['sig'], f)
    else:
        d = rep.extra.setdefault('other_property_findings', {})
        d[f['sig']] = d.get(f['sig'], 0) + 1
