"""What is claimed, per property (source for MANIFEST.json; see tools_manifest.py)."""

NOTES = ('Model-based verification with explicit TLA+ specifications (spec/*.tla). Every check: TLC model-checks the '
         'implementation-shaped specification with its ideal invariants, exports behaviours with the expected observables, '
         'the behaviours are replayed into the working tree of /repo (VERIF_REPO overrides), and traces recorded from the real '
         'code are validated by TLC. Exit 2 = machinery failure, never a verdict. Genuine defects found so far were repaired by '
         'fix: commits (KNOWN_FINDINGS.json, section "fixed").')

CHECKS = {
    'C01': dict(
        level='model_checking',
        technique='TLC-generated robust programs (RoSem.tla) replayed into rsome.ro; returned solutions validated by TLC at every vertex of every set',
        design_ref='DESIGN.md 2.7, 5/C01',
        text=('RoSem.tla is a denotational semantics of ro models on a grid-exact family (integer data, 19 uncertainty sets with '
              'vertex lists or exact 2-norm balls chosen to reach every branch of the support dual and of le_to_rc). TLC enumerates '
              'the programs; each is built and solved through the public API with a rotating solver interface; x*, the decision-rule '
              'coefficients and the objective go back to TLC (validator mode), which evaluates every robust row at every vertex of '
              'its set (so "for all z" is decided, not sampled), equalities in both directions, the declared dependency mask and '
              'the objective bound. An independent vertex-expansion LP/MILP (HiGHS, not through rsome) cross-checks the optimum.'),
        note=('Trusted: TLC, ro_catalogue.py (H-representations; validated against the vertex lists each run), rounding of returned '
              'values to 1e-5 with tolerance widened accordingly. Bounded: 2 decisions + 1 decision rule, 2 random components, <=2 rows. '
              'p-norm/KL/entropy sets are not in this family yet.')),
    'C02': dict(
        level='model_checking',
        technique='exact grid optimum computed by TLC (RoSem.tla GridOpt) + vertex-expansion LP oracle vs the optimum reported by rsome.ro',
        design_ref='DESIGN.md 2.7, 5/C02',
        text=('For every generated program TLC computes the exact optimum over the integer decision grid by exhaustive enumeration: '
              'for all-integer models the reported optimum must equal it (and the model must be solvable exactly when a grid point is '
              'feasible); for continuous models it is a one-sided bound (the reported optimum may not be worse than a feasible grid '
              'point). Together with C01 (reported value bounds the worst case) this pins the optimum. For polytope sets the vertex '
              'expansion LP solved directly with HiGHS demands equality for continuous models too.'),
        note=('GridOpt is exact only on the grid; the two-sided verdict for continuous models rests on the float LP oracle '
              '(tolerance 2e-6 relative, x10 margin before a violation). Same bounds as C01.')),
    'C08': dict(
        level='model_checking',
        technique='TLC lattice weak duality on StdForm.tla (transcribed DualLP and the real primal/dual pair) + primal+dual=0 through the solver interfaces',
        design_ref='DESIGN.md 2.6, 5/C08, appendix C',
        text=('StdForm.tla transcribes the LP dualisation branch by branch (bound rows, fixed-variable row, free / sign-restricted / '
              'non-positive columns, equality rows). TLC enumerates programs over all 13 bound patterns per column and checks weak duality '
              'of the transcribed dual on integer lattices; every program is built through the API (a quarter decorated with norm / square / '
              'sumsqr / exp / log constraints), the REAL primal and dual standard forms go back to TLC, which checks weak duality of the real '
              'pair exactly (LP rows, bounds, second-order cones in squares) and conformance with the transcription, and both programs are '
              'solved with the same interface: the dual must be solvable whenever the primal is and the values must sum to zero.'),
        note=('Lattice weak duality is a necessary condition (catches duals that are too optimistic or have wrong signs); strong duality '
              'rests on the solver value check (LP 2e-6, SOC 2e-5, exp 5e-4, x10 margin). Exponential-cone duals are checked by value only. '
              'Bounded: 2 user columns, <=2 rows.')),
    'C13': dict(
        level='model_checking',
        technique='TLC model checking of Partition.tla + replay of every exported history into rsome.dro + TLC trace validation',
        design_ref='DESIGN.md 2.1, 5/C13',
        text=('TLC enumerates every history of adapt()/slice calls within the constants on an implementation-shaped '
              'transcription of evtadapt/affadapt/comb_set/rule_var (ordered event lists, heap-aliased masks) and checks '
              'IsPartition, SharedIffSameEvent, ColsInjective, CombIsMeet, MaskExact, IllegalRaises; every exported state '
              'is replayed into the real library, which must raise exactly on illegal declarations and must reproduce the '
              'exact optimum and per-scenario values TLC computed from the DECLARED adaptation (a model granting more or '
              'less freedom has a different optimum).'),
        note=('Trusted: TLC, the concretisation in harness/replay_partition.py, HiGHS on tiny LPs. Bounded: <=5 scenarios, '
              '<=2 decision arrays of <=2 entries, <=2 random components, <=4 calls.')),
}

NOT_APPLICABLE = {}
