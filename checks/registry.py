"""What is claimed, per property (source for MANIFEST.json; see tools_manifest.py)."""

NOTES = ('Model-based verification with explicit TLA+ specifications (spec/*.tla). Every check: TLC model-checks the '
         'implementation-shaped specification with its ideal invariants, exports behaviours with the expected observables, '
         'the behaviours are replayed into the working tree of /repo (VERIF_REPO overrides), and traces recorded from the real '
         'code are validated by TLC. Exit 2 = machinery failure, never a verdict. Genuine defects found so far were repaired by '
         'fix: commits (KNOWN_FINDINGS.json, section "fixed").')

CHECKS = {
    'C01': dict(
        level='model_checking',
        technique='TLC-generated robust programs (RoSem.tla) replayed into rsome.ro; returned solutions validated by TLC at every vertex of every set',
        design_ref='DESIGN.md 2.7, 5/C01',
        text=('RoSem.tla is a denotational semantics of ro models on a grid-exact family (integer data, 19 uncertainty sets with '
              'vertex lists or exact 2-norm balls chosen to reach every branch of the support dual and of le_to_rc). TLC enumerates '
              'the programs; each is built and solved through the public API with a rotating solver interface; x*, the decision-rule '
              'coefficients and the objective go back to TLC (validator mode), which evaluates every robust row at every vertex of '
              'its set (so "for all z" is decided, not sampled), equalities in both directions, the declared dependency mask and '
              'the objective bound. An independent vertex-expansion LP/MILP (HiGHS, not through rsome) cross-checks the optimum.'),
        note=('Trusted: TLC, ro_catalogue.py (H-representations; validated against the vertex lists each run), rounding of returned '
              'values to 1e-5 with tolerance widened accordingly. Bounded: 2 decisions + 1 decision rule, 2 random components, <=2 rows. '
              'p-norm/KL/entropy sets are not in this family yet.')),
    'C02': dict(
        level='model_checking',
        technique='exact grid optimum computed by TLC (RoSem.tla GridOpt) + vertex-expansion LP oracle vs the optimum reported by rsome.ro',
        design_ref='DESIGN.md 2.7, 5/C02',
        text=('For every generated program TLC computes the exact optimum over the integer decision grid by exhaustive enumeration: '
              'for all-integer models the reported optimum must equal it (and the model must be solvable exactly when a grid point is '
              'feasible); for continuous models it is a one-sided bound (the reported optimum may not be worse than a feasible grid '
              'point). Together with C01 (reported value bounds the worst case) this pins the optimum. For polytope sets the vertex '
              'expansion LP solved directly with HiGHS demands equality for continuous models too.'),
        note=('GridOpt is exact only on the grid; the two-sided verdict for continuous models rests on the float LP oracle '
              '(tolerance 2e-6 relative, x10 margin before a violation). Same bounds as C01.')),
    'C03': dict(
        level='model_checking',
        technique='TLC-generated dro programs (DroSem.tla) replayed into rsome.dro; returned decisions validated by TLC under every member distribution and at every support vertex; primal moment LP as float oracle',
        design_ref='DESIGN.md 2.7, 5/C03',
        text=('DroSem.tla defines event-wise ambiguity sets on a grid-exact family (supports with vertex lists incl. singletons, Wasserstein-style '
              '1-norm balls, mixed kinds per scenario; five probability sets with rational vertices; expectation sets on the full event and on '
              'sub-events (prefix, non-prefix and overlapping; positional, string and 1-based integer labels) with equality and box means) and two model forms (E(maxof) objective; event-wise / affinely adaptive decision with rows '
              'for every realisation; optional E-constraint). TLC enumerates programs and their member distributions (membership checked in exact '
              'rationals); every program is built and solved through the API; TLC then checks every row at every support vertex and the objective and '
              'E-constraints under every member; the primal moment LP (HiGHS, independent of rsome) gives the exact worst-case expectation at the '
              'returned solution.'),
        note=('Members are point-mass conditionals at support vertices (a subset of the set): necessary condition decided exactly by TLC; the complete '
              '"for every distribution" verdict rests on the moment LP (valid because objectives are convex piecewise affine in z and supports are '
              'polytopes). KL / norm-2 probability sets and lifted auxiliary random variables are not in the family yet.')),
    'C04': dict(
        level='model_checking',
        technique='exact grid optimum by TLC on the no-expectation sub-family + cutting-plane solution of the primal moment problem vs the optimum reported by rsome.dro',
        design_ref='DESIGN.md 2.7, 5/C04',
        text=('Without expectation information the worst case puts each scenario on its worst vertex and the probability on a vertex of the '
              'probability set, so TLC computes the exact optimum over the integer decision grid (equality demanded for integer decisions, one-sided '
              'for continuous). For all programs the harness solves the true inf-sup under the declared event-wise affine adaptation by cutting '
              'planes around the primal moment LP and demands equality with the reported optimum; sample-average (singleton supports, fixed p) and '
              'single-scenario instances are part of the family.'),
        note='Equality for programs with expectation sets rests on the float oracle (5e-6 relative, x10 margin). Same family bounds as C03.'),
    'C08': dict(
        level='model_checking',
        technique='TLC lattice weak duality on StdForm.tla (transcribed DualLP and the real primal/dual pair) + primal+dual=0 through the solver interfaces',
        design_ref='DESIGN.md 2.6, 5/C08, appendix C',
        text=('StdForm.tla transcribes the LP dualisation branch by branch (bound rows, fixed-variable row, free / sign-restricted / '
              'non-positive columns, equality rows). TLC enumerates programs over all 13 bound patterns per column and checks weak duality '
              'of the transcribed dual on integer lattices; every program is built through the API (a quarter decorated with norm / square / '
              'sumsqr / exp / log constraints), the REAL primal and dual standard forms go back to TLC, which checks weak duality of the real '
              'pair exactly (LP rows, bounds, second-order cones in squares) and conformance with the transcription, and both programs are '
              'solved with the same interface: the dual must be solvable whenever the primal is and the values must sum to zero.'),
        note=('Lattice weak duality is a necessary condition (catches duals that are too optimistic or have wrong signs); strong duality '
              'rests on the solver value check (LP 2e-6, SOC 2e-5, exp 5e-4, x10 margin). Exponential-cone duals are checked by value only. '
              'Bounded: 2 user columns, <=2 rows.')),
    'C09': dict(
        level='model_checking',
        technique='TLC model checking of Lifecycle.tla / DroLifecycle.tla / Sharing.tla (every interleaving within bounds) + replay of exported histories into rsome.ro / rsome.dro against from-scratch builds of the declared sets and exact per-use values',
        design_ref='DESIGN.md 2.2, 5/C09, appendix E',
        text=('Lifecycle.tla is implementation shaped: one shared support model whose six constraint lists are reset and re-filled by every '
              'forall/minmax and snapshotted into the constraint, pupdate-guarded formula cache, solve/soc_solve, plus ghost state (the set the '
              'user attached, declaration generation). TLC checks NoSetLeak, CacheCoherent, SolveUsesCurrent on every interleaving (folded by a '
              'VIEW) and exports complete histories (all short ones; long ones by -simulate with a forced closing solve). Each history is executed '
              'on a real model; after every solve each constraint must report the worst case of the set DECLARED for it, obtained from a fresh '
              'single-constraint model in which nothing can leak (one item kind per support-model list, distinct radii so any leaked or lost item moves the value). '
              'The dual cache is transcribed too (ro -> rc model, DualCurrent): do_math(primal=False) before and after a change must return the dual of the current declaration '
              '(its optimum is compared with the current primal). Sharing.tla covers the last clause of the property: one expression OBJECT handed to a sequence of constructs '
              '(row, E(), E(maxof), maxof, negation, scaling, a set definition, with a variable declared in between) must mean in every use what that use declares '
              '(MeaningIndependent; TLC finds the violating history on the transcription of the code before repair 87ff84f); every use has its own epigraph variable with an exact closed-form value.'),
        note=('Relational oracle (same library, fresh model), as the property is stated; C01 covers absolute correctness. DroLifecycle.tla covers the dro life cycle (ambiguity(), supports per scenario, late dvar/adapt, st, solve); '
              'late rvar is a known finding; mix_support is not in the action alphabet. ECOS tolerance 2e-5 (5e-4 with p-norm/exp items).')),
    'C17': dict(
        level='model_checking',
        technique='TLC action properties MisuseIsolated / Model2Isolated on Lifecycle.tla + replay of histories with interleaved misuses on two real models; Misuse.tla: the table misuse kind x victim class x bystander class (lp, socp, gcp, ro, dro) x before/after a solve, every case replayed',
        design_ref='DESIGN.md 2.2, 5/C17',
        text=('Seven misuse actions (adding a foreign deterministic / robust constraint, foreign set in forall and minmax, foreign variable in an '
              'expression, reading an unsolved model, non-scalar objective, second objective) and the actions of a second model are interleaved with '
              'the normal life cycle of model 1. TLC checks that each misuse has outcome err and leaves both models unchanged; the replay requires '
              'the real call to raise, the model to still solve to the values of its declaration afterwards, unformulable models (robust row without '
              'set, no objective) to raise at formulation, and model 2 to keep its solo results.'),
        note='ro/ro pairs only so far; dro-specific misuses (ambiguity() after constraints, scenario mismatch) are planned. Same bounds as C09.'),
    'C19': dict(
        level='model_checking',
        technique='TLC model checking of Lifecycle.tla (CacheCoherent, DualCurrent) + byte-level observation of formulas, global RNG and user arrays along replayed histories; UserData.tla: the table role x dtype x memory layout x writeable x front end, every case replayed (array bytes/flags before and after, read-only arrays, repeated formulation), and the same models formulated in three fresh interpreters with different PYTHONHASHSEED',
        design_ref='DESIGN.md 2.2, 5/C19',
        text=('On every step of every replayed Lifecycle history the harness observes: numpy global RNG state (hash) unchanged; user-supplied '
              'coefficient arrays bytewise unchanged; do_math(primal/dual) twice without change returns numerically identical programs and does '
              'not modify the program returned before; the cached standard form is bytewise identical before and after solve()/soc_solve(). '
              'The histories (which call sequences, which repetitions) come from TLC; idempotence is the spec invariant CacheCoherent.'),
        note='Two-process determinism (PYTHONHASHSEED variation) and exotic user dtypes/read-only arrays are not covered yet.'),
    'C10': dict(
        level='model_checking',
        technique='TLC model checking of Curvature.tla (exhaustive over all chains <=3/<=5) + replay of every exported terminal state on every real atom in rsome.ro and rsome.dro with pinned-model value oracle',
        design_ref='DESIGN.md 2.3, 5/C10',
        text=('TLC enumerates chains of __neg__/__mul__/__rmul__/__add__/__radd__/__sub__/__rsub__/sum on an implementation-shaped transcription '
              'of Convex, PerspConvex, PiecewiseConvex, ExpPiecewiseConvex, DecConvex, DecPerspConvex and of the comparison/objective paths '
              '(operand on either side, equality, min/max), with ghost meaning K*f+c+t*T, and checks SignTracksCurvature, OffsetTracksMeaning, '
              'AcceptIffConvex, TimelyReject, MeaningPreserved, BilinearRaises; every exported terminal state is built on 27 real atoms: '
              'exception <=> ideal reject no later than st()/min()/max() and never a compiled program; accepted uses solve a pinned model whose '
              'optimum must equal the closed-form value of the written relation.'),
        note=('Trusted: TLC, float closed forms in harness/replay_curvature.py, HiGHS/ECOS within 1e-6/1e-5/5e-4 (10x margin, else inconclusive). '
              'Bounded: scalars {-2,-1,0,1/2,1,2}, operands constant 1 and one scalar variable, chains <=5 checked, <=2 replayed exhaustively, '
              'longer ones sampled by -simulate. Four defects repaired by fix: commits, three degenerate ones (zero multiples, numeric pieces) are '
              'listed in KNOWN_FINDINGS.json with the spec predicates Known_k. sum() and xtype N objective findings are reported to C06.')),
    'C05': dict(
        level='model_checking',
        technique='TLC model checking of ArrayAlgebra.tla (NumPy semantics on symbolic arrays) + replay of every exported operator word into rsome (ro/lp/dro) with exact comparison of linear/const and raffine/affine + NumPy cross-check of the specification',
        design_ref='DESIGN.md 2.8, 5/C05',
        text=('TLC enumerates operator words (+,-,*,@ with constants on either side, unary minus, indexing with ints/negatives/stepped slices/newaxis/'
              'ellipsis/integer lists/boolean masks, reshape/flatten/T, sum, concat/rstack/cstack/vec, diag/tril/triu/trace, and +,-,*,@ with a second '
              'variable array incl. decision x random) over a decision array X and a random array Z, computing for every reachable state the shape and '
              'the full symbolic content (one coefficient per monomial x_i*z_j) from NumPy reference semantics, and checks 12 algebraic laws of that '
              'model. Every exported state is replayed: the word is first confirmed on NumPy object arrays of Python integers at a Kronecker point '
              '(exit 2 on disagreement), then executed on real rsome objects whose densified linear/const (raffine/affine) must equal the exported '
              'content coefficient by coefficient and whose shape must match; the first deviating step is located and named in the signature. An '
              'operation that raises where NumPy gives a value is recorded, not alarmed (the property allows unsupported operations to raise).'),
        note=('Trusted: TLC, NumPy as reference, float64 exactness of small integers. Bounded: bases of rank 0-3 with extents <=3 (14 shapes, 5 decision x '
              'random pairs), constants up to rank 4, depth 2 exhaustive (lite catalogue on all bases, full catalogue at depth 1 and on 2 bases at depth 2), '
              'depth 3-4 by simulation; leaf kinds Vars(ro, lp), VarSub, Affine, dro DecVar, DecRule; constants int/float/int32/0-d ndarray/Python scalar/'
              'scipy.sparse (for * and @). Four defects are listed in KNOWN_FINDINGS.json (rank-4 matmul batch broadcasting, diag on non-square, '
              'diag(fill) non-square, VarSub.shape), one was repaired (RoAffine * sparse).')),
    'C06': dict(
        level='model_checking',
        technique='TLC model checking of Dispatch.tla (routing of constraint kinds and of the objective epigraph through lp/socp/gcp) + replay of every table entry as an active constraint / objective in boxed ro and dro models with NumPy evaluation at the returned point',
        design_ref='DESIGN.md 2.4, 5/C06, appendix B',
        text=('Dispatch.tla transcribes st() of the three layers and the three objective-epigraph fragments (each layer rebuilds the epigraph constraint and '
              'picks the xtypes it knows). TLC checks NothingDropped (found: xtype N as objective reached no encoder - repaired), EncoderMatchesAtom and '
              'KnownReplaced (summed element-wise atoms - known finding). Every table entry is replayed with each atom of its xtype, in ro and dro front ends, '
              'scaled and offset: the item is active at the optimum of a boxed model whose box corner violates it, the model is solved and the user '
              'expression is evaluated with NumPy at x.get(); the reported objective must equal the objective expression there. KL, exponential and rotated '
              'cones and maxof/minof are replayed the same way; the pinned-argument chains of Curvature.tla contribute their C06 findings.'),
        note=('Trusted: TLC, the NumPy closed forms in harness/replay_dispatch.py, solver tolerances (LP 1e-6, SOC 2e-5, exp 5e-4, x10 margin). Loud failures '
              '(exceptions) are recorded but not alarmed: the property is about silent dropping/replacement. LMI/logdet/rootdet only at the routing level (no SDP solver).')),
    'C07': dict(
        level='model_checking',
        technique='TLC model checking of IPCone.tla (power-cone tower) and LPSem.tla (brute-force MILP semantics) + replay of every exported parameter/program into rsome with exact multiplication-out of the emitted cones, closed-form atom values, re-formulation and three MILP interfaces',
        design_ref='DESIGN.md 2.5, 5/C07',
        text=('TLC runs the transcription of IPCone.to_soc/to_pot/split (one action per branch, recursion stack as state) for every weight vector within '
              'the constants and for the vectors produced by the p-norm, power and geometric-mean callers, and checks in every state that the emitted and '
              'pending cones multiply out to exactly |x|^(2^k) <= prod r_i^beta_i * s^(2^k-sum beta) (TowerExact), that split() only ever receives '
              'well-formed cones, that the callers get the degree they asked for and that every allocated variable is auxiliary. For each exported beta the '
              'real to_soc() output is decoded, multiplied out in exact fractions and compared with beta; each atom (pnorm int/rational, power p/q, gmean, '
              'quad with every 2x2 integer PSD/NSD matrix in -2..2, sumsqr, square, norm 1/2/inf, abs, exp/log/pexp/plog/entropy/softplus/kldiv/pnorm-exc) '
              'is optimised at pinned rational arguments and in small free programs with multipliers 1/2,1,2,3 as constraint and as objective against its '
              'closed form (exact values from TLC where rational); models are re-formulated three times and must stay well-formed and of constant width; '
              'mixed-integer programs enumerated by LPSem.tla (<=3 integer/binary variables with user bounds, <=3 rows) must return the brute-force optimum '
              'computed by TLC on the default solver, OR-Tools and Gurobi.'),
        note=('Trusted: TLC, float64 closed forms in harness/replay_ipcone.py, ECOS (SOC 1e-5, exp 5e-4) with Gurobi as second opinion for SOC (a numeric '
              'alarm needs every capable solver to deviate the same way, or 10x margin with one solver), HiGHS/SCIP/Gurobi on 3-variable MILPs. Bounded: sum '
              'beta <= 16/32 with <= 4/5 weights, p/q <= 8/12; the 3-variable MILP family is a seeded pseudo-random subtree (2-variable/1-row family exhaustive); '
              'root-det caller not covered (no SDP solver).')),
    'C14': dict(
        level='model_checking',
        technique='TLC generator + validator on DualValues.tla: statement-by-statement user models, transcribed index/ciarray map, certificate identities decided by TLC on the dual values returned by three interfaces',
        design_ref='DESIGN.md 5/C14',
        text=('DualValues.tla: TLC enumerates user models statement by statement (interleavings of 1-2 row <=/>=/== array constraints, bound statements on the '
              'array and on slices with one lower and one upper bound per entry, abs/1-norm/inf-norm auxiliary-row generators, explicit do_math, min/max, ro.Model '
              'and lp.Model) and checks on the transcribed index/ciarray map that each constraint is given exactly its own rows (SliceIsOwnRows, ShapesMatch) and '
              'that the sign convention of the property is an LP duality (ConventionIsWeakDuality); a stratified sample of the boxed, lattice-feasible models is '
              'written through the API (vector, split and 2-D layouts; fresh model per interface or one model re-solved), solved by scipy/HiGHS, ECOS and Gurobi, '
              'dual() is read on every object returned by st(), and the user data with duals/value/solution scaled 1e4 goes back to TLC: stationarity c = sum pi a + '
              'sum rho e, dual objective = v*, signs by direction of optimisation, shapes.'),
        note=('Auxiliary constraints are generated loose on the whole box (assumption exported per case), so the API-exposed multipliers form the complete certificate. '
              'Identities, not values, are compared (25-30% of validated vertices are degenerate). OR-Tools returns None + warning (recorded, conformant). Violation only '
              'beyond 10x (solver tolerance + rounding bound). Known finding: dual() of 2-D constraints/bounds is flattened.')),
    'C15': dict(
        level='model_checking',
        technique='TLC-verified rewrite table (Rewrite.tla: DenotInvariant on every reachable presentation) + TLC-exported orbits replayed into rsome.ro / rsome.dro; relational verdict along orbit edges and against the exact grid optimum',
        design_ref='DESIGN.md 5/C15, 2.7',
        text=('Rewrite.tla defines a presentation = a RoSem program (1-/2-row constraints incl. 2-row array constraints, seven polytope sets incl. one with negative finite bounds, decision rules, '
              'integer/continuous, min/max/minmax/maxmin) + one choice per element of how it is written; Present() is the syntax handed to the library, Meaning() '
              'its denotation computed from the presented text on a grid wider than the box; TLC checks GridOptOf(Meaning(Present)) = RoSem.GridOpt exhaustively '
              'for words <=3/4 on a feature-covering sample and on random words <=3/5 over the family (14 rewrites: objective negation, declaration/statement/'
              'objective order, a<=b | -b<=-a | b>=a, equality | two inequalities, terms moved across, constant first, rescaling 1,2,1/2,3, array | loop, box as '
              'Bounds/entry Bounds/linear rows/inf-norm/abs, set as list/args/tuple/generator/mixed/nested, bounds inside a set as Bounds objects | linear constraints, ro | dro(1) with/without E()). Each exported orbit '
              'member is rendered literally and solved; neighbouring members (one rewrite apart) must agree in value (2e-6 rel, x10 margin, reproduced with a '
              'second solver), solvability and not raising; every member must satisfy the C02 relation with the grid optimum.'),
        note=('Trusted: TLC, RoSem oracle, ro_catalogue.py. Bounded: 2 decisions + 1 rule, 2 random components, <=2 constraints, symmetric box only, polytope sets '
              '{1,2,3,7,9,16}. One solver per orbit; SciPy MILP is not used on integer programs without a feasible grid point (HiGHS presolve does not return), '
              'remaining hangs are recorded as inconclusive. Nested lists in ro sets are a named unsupported spelling. One defect repaired (dro equality split '
              'lost .ambset).')),
    'C16': dict(
        level='model_checking',
        technique='TLC model checking of LpFormat.tla (program generator + writer transcription + ideal token/cell acceptors) + replay of generated programs into rsome.lp/socp/ro + batch TLC validation of the lexed lp_export()/show() streams + read-back of to_lp() files with gurobipy',
        design_ref='DESIGN.md 1.2, 4.2, 5/C16',
        text=('TLC enumerates abstract programs (columns with type and bound pattern, rows with rank-encoded coefficients/rhs and sense, stored zeros, optional '
              'cone, objective, model class, primal/dual/robust formula) and checks on a transcription of lp_export()/show() that the emitted stream is '
              'accepted by an acceptor that accepts exactly the descriptions of the program (LP-format default bounds, free columns, sections, cone rows '
              'after Subject To, General/Binary = vtype sets) and that mutilated streams are rejected. Every sampled program is built in the real library; the '
              'ACTUAL formula is rank-encoded; the text of lp_export() and the frame of show() are lexed independently and validated by TLC against that '
              'formula (one ACCEPT/REJECT per stream); the to_lp() file is read by gurobipy and compared exactly (coefficients, sense, rhs, bounds, types, '
              'cones, objective) and by optimum with the formula, and the program reconstructed from the tokens is re-solved with HiGHS and Gurobi.'),
        note=('Trusted: TLC, the LP lexer in harness/replay_lpformat.py (cross-checked per program by gurobipy.read), gurobipy as reference reader, HiGHS/Gurobi '
              'on tiny programs. Bounded: <=3 user columns, <=3 rows, one cone, values from {+-1e12,+-2,+-1,+-0.5,+-1e-9,0,+-inf}. Optimum differences on data '
              'outside [1e-6,1e6] are counted inconclusive (structure is still compared exactly). Exponential-cone/LMI rows are outside the property.')),
    'C18': dict(
        level='model_checking',
        technique='TLC model checking of SocApprox.tla (transcription of GCProg.to_socp with aliasing) + exact replay of every exported behaviour into the real to_socp + TLC validation of structures recorded from ro/dro/gcp models + soc_solve accuracy against closed forms with ECOS and Gurobi',
        design_ref='DESIGN.md 5/C18, 7 (#3)',
        text=('TLC enumerates every layout of <=2 SOC / 1-3 exponential-cone (/ <=1 linear) constraints x degree 4..8 on an implementation-shaped transcription '
              'of to_socp (block of 8+L variables, 3(3+L) cone columns, 7+3(3+L) rows, the exact rational coefficients, senses, lower bounds, cone index lists, '
              'the aliasing of the cone list) and checks InputUntouched, PrefixPreserved, NoExpLeft, BlockShape and TaylorOrder4 (row 3 of a block is the order-4 '
              'Taylor polynomial of exp, followed by L squarings). Every final state is replayed into the real GCProg.to_socp and compared exactly with the '
              'program TLC computed. The same layouts are built as real models through ro, dro and gcp with exp, log, pexp, plog, expcone, entropy, softplus, '
              'kldiv; the recorded (P, L, to_socp(P), P afterwards) are judged by TLC (prefix unchanged, only the cone columns linked, no exponential cone left, '
              'input untouched; corrupted copies must be rejected). do_math() before/after soc_solve() must be equal and solve() must still give the exact '
              'optimum. For pinned exponents x/z in [-4,4], cone first/middle/last among SOC constraints, constraint and objective forms, every degree and both SOC '
              'interfaces, a fresh model is solved by soc_solve and compared with the closed-form optimum: error <= 1e-3 and not larger at the next degree.'),
        note=('Trusted: TLC + Json module, closed forms (cross-checked per case by the exact ECOS exp-cone solve), ECOS/Gurobi on small SOCPs. A violation needs '
              'error > 1e-3*|opt| + 10*max(1e-5, 2^L*feastol)*(1+|v|) or both solvers over the bound; results with a reduced-accuracy solver status (ECOS "Close to '
              'optimal", seen at degree 8) are judged only when the second solver confirms. Bounded: default cuts (-30,60), degrees 4..8, <=3 exp-cone '
              'constraints; the size-limited Gurobi licence refuses the largest models (ECOS only there).')),
    'C11': dict(
        level='model_checking',
        technique='TLC-generated declarations (SolverIface.tla) compiled once and solved through every installed interface; every returned vector validated by TLC against the real standard form; brute-force optimum for all-integer programs',
        design_ref='DESIGN.md 5/C11',
        text=('SolverIface.tla states the contract of an interface: ok(x, v) with x |= P (bounds incl. binaries intersected with user bounds, row senses, '
              'integrality, second-order cones) and v = c.x, or fail with NaN objective / no vector / get() raising; across interfaces the same outcome and '
              'value. TLC enumerates declarations over 15 bound patterns x C/I/B types per column x rows x senses and computes the exact optimum of the '
              'bounded all-integer ones by exhaustive enumeration. Each declaration is compiled once; the same model is solved through SciPy/HiGHS, OR-Tools, '
              'ECOS and Gurobi as far as they support its cone class (a quarter carry a norm / square / exp constraint); every returned vector goes back to '
              'TLC, which decides x |= P on the REAL standard form (integer data, values scaled by 1000, tolerance widened by the rounding bound); the harness '
              'compares values and outcomes across interfaces and with the brute-force optimum, and checks that the compiled program is unchanged by solving.'),
        note=('Trusted: TLC; solver outcomes only relative to each other and to the brute-force optimum. ECOS is exercised on continuous programs only (its '
              'branch-and-bound does not return on infeasible integer programs under the interface\'s 1e8 iteration limit - a hang cannot be judged) and '
              'Gurobi runs with TimeLimit 10 s. Interfaces without an installed solver (CyLP, CPLEX, Mosek, COPT) are not claimed. Submitted-program capture '
              'at the external solver API is not implemented; translation errors are caught through x |= P, value agreement and the brute-force optimum.')),
    'C12': dict(
        level='model_checking',
        technique='TLC-enumerated solved scenes with per-query denotations (Query.tla) and adapt()/event histories (Query.tla, Partition.tla) replayed into rsome.ro / rsome.dro; every query result compared with the value the specification defines for it',
        design_ref='DESIGN.md 5/C12, 2.1',
        text=('Query.tla defines what each query denotes over an abstract solved state: decision arrays of five shapes declared in every order (column '
              'offsets, NumPy selector index arithmetic in TLA+), ro decision rules under every history of y[sel].adapt(z[sel]) (dependency matrix, '
              'coefficient-variable rank map, NaN mask), bi-affine expressions called with realisations (unspecified = 0), k*atom + c chains for 30 atoms in '
              'both front ends (transcription of Convex.__mul__/__neg__/__add__/__call__ against the ghost meaning K*f + C, exact rationals), and event-wise '
              'dro decisions on int/str/non-positional labels incl. scenario-wise realisations. TLC checks CodeIsIdeal / DepExact / EventsExact on the '
              'transcription of the repaired code and exports, per query, the ideal value and the named alternatives of the unrepaired code; each scene is '
              'built with every entry/coefficient pinned to a distinct integer, solved, and every query (x.get, x[sel].get, x[sel](), (k*x[sel]+c)(), '
              '(A@x)(), y.get(z[sel]), y(z.assign(v)), expr(...), model.get) compared with the ideal. Partition.tla histories are replayed for the '
              'per-scenario label / Series index / NaN-pattern clauses.'),
        note=('Trusted: TLC, closed forms of the atoms in replay_query.ATOMS, HiGHS on the pinning LPs (1e-6, x10 margin); selector semantics cross-checked '
              'against NumPy each run. Bounded: <=3 arrays of <=2 dims, rules/decisions 1-D of <=3 entries, <=3 adapt calls, chains <=3, NS<=4. Eleven defects '
              'were repaired by fix: commits; the summed-atom evaluation is a known finding (same root cause as the C06 one). logdet/rootdet, maxof/minof '
              '(no __call__), 2-D decision rules and nested slices are not generated.')),
    'C13': dict(
        level='model_checking',
        technique='TLC model checking of Partition.tla + replay of every exported history into rsome.dro + TLC trace validation (PartitionTrace.tla) of traces recorded from the real code by an external tracer (random API programs, the repository dro tests)',
        design_ref='DESIGN.md 2.1, 5/C13',
        text=('TLC enumerates every history of adapt()/slice calls within the constants on an implementation-shaped '
              'transcription of evtadapt/affadapt/comb_set/rule_var (ordered event lists, heap-aliased masks) and checks '
              'IsPartition, SharedIffSameEvent, ColsInjective, SlopeSharedIffSameEvent, SlopeColsInjective (both loop nests of rule_var), CombIsMeet, MaskExact, IllegalRaises; every exported state '
              'is replayed into the real library, which must raise exactly on illegal declarations, whose rule_var() column map (static and slope columns, read by harness/colmap.py) must give one rule per DECLARED event, and which must reproduce the '
              'exact optimum and per-scenario values TLC computed from the DECLARED adaptation (a model granting more or '
              'less freedom has a different optimum). Code -> spec: harness/tracer.py wraps evtadapt / affadapt / slicing from outside (no source '
              'change; the rule_var() column map is logged as one more event and judged by ColMapOK), records the calls of seeded random programs beyond the TLC constants (up to 6 scenarios, string and non-positional '
              'labels, held slices, duplicates, unknown labels) and of the repository dro tests; PartitionTrace.tla replays each trace against the '
              'actions of Partition.tla with the logged arguments, outcome and projected state and evaluates the ideal invariants in every '
              'state; corrupted copies of accepted traces must be rejected.'),
        note=('Trusted: TLC, the concretisation in harness/replay_partition.py, HiGHS on tiny LPs. Bounded: <=5 scenarios, '
              '<=2 decision arrays of <=2 entries, <=2 random components, <=4 calls.')),
}

NOT_APPLICABLE = {}
