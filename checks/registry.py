"""What is claimed, per property (source for MANIFEST.json; see tools_manifest.py)."""

NOTES = ('Model-based verification with explicit TLA+ specifications (spec/*.tla). Every check: TLC model-checks the '
         'implementation-shaped specification with its ideal invariants, exports behaviours with the expected observables, '
         'the behaviours are replayed into the working tree of /repo (VERIF_REPO overrides), and traces recorded from the real '
         'code are validated by TLC. Exit 2 = machinery failure, never a verdict. Genuine defects found so far were repaired by '
         'fix: commits (KNOWN_FINDINGS.json, section "fixed").')

CHECKS = {
    'C13': dict(
        level='model_checking',
        technique='TLC model checking of Partition.tla + replay of every exported history into rsome.dro + TLC trace validation',
        design_ref='DESIGN.md 2.1, 5/C13',
        text=('TLC enumerates every history of adapt()/slice calls within the constants on an implementation-shaped '
              'transcription of evtadapt/affadapt/comb_set/rule_var (ordered event lists, heap-aliased masks) and checks '
              'IsPartition, SharedIffSameEvent, ColsInjective, CombIsMeet, MaskExact, IllegalRaises; every exported state '
              'is replayed into the real library, which must raise exactly on illegal declarations and must reproduce the '
              'exact optimum and per-scenario values TLC computed from the DECLARED adaptation (a model granting more or '
              'less freedom has a different optimum).'),
        note=('Trusted: TLC, the concretisation in harness/replay_partition.py, HiGHS on tiny LPs. Bounded: <=5 scenarios, '
              '<=2 decision arrays of <=2 entries, <=2 random components, <=4 calls.')),
}

NOT_APPLICABLE = {}
