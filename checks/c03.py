"""C03 - see DESIGN.md 5/C03 (DroSem.tla)."""
from harness import core
from checks import suite_drosem


def main(tier):
    rep = core.Report('C03', tier, level='model_checking')
    rep.rule = ('TLC enumerates dro programs (scenario count x support kind x probability set x expectation sets on the full event and on '
                'sub-events x objective form E(maxof)/adaptive decision with robust rows x event partition x affine mask x E-constraint) with '
                'their exact member distributions and, without expectation information, the exact optimum over the integer decision grid; each '
                'is built through rsome.dro and solved; TLC validates the returned decisions at every support vertex and under every member '
                'distribution; the primal moment LP and a cutting-plane loop give the true worst-case expectation / optimum; distinct = '
                '(program, solver, labelling)')
    rep.assumptions = ['TLC 1.8', 'member distributions are a finite subset of the ambiguity set (membership exact in rationals)',
                       'float oracle: HiGHS on the moment LP (not through rsome), tolerance 5e-6 relative (5e-5 ECOS), x10 margin',
                       'worst-case distributions of convex piecewise-affine functions over polytope supports live on support vertices']
    suite_drosem.run(rep, tier, props=('C03',))
    return rep.finish()


def replay(path):
    from checks import replay_file
    return replay_file.run(path)
