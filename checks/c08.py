"""C08 - do_math(primal=False) is a true dual: optimal values are negatives."""
from harness import core
from checks import suite_stdform


def main(tier):
    rep = core.Report('C08', tier, level='model_checking')
    rep.rule = ('TLC enumerates deterministic programs (bound pattern per column from the 13 patterns of DESIGN appendix C x row '
                'coefficient templates x senses x right-hand sides), checks weak duality of the transcribed dual on integer lattices; '
                'each program is built through the API (every 4th decorated with a second-order / exponential cone constraint), the real '
                'primal and dual standard forms go back to TLC (weak duality on lattices, cones exact in squares) and both are solved: '
                'primal + dual = 0; distinct = (declaration, cone decoration, solver, sense)')
    rep.assumptions = ['TLC 1.8', 'lattice weak duality is a necessary condition only; strong duality rests on the solver value check',
                       'solver tolerances: LP 2e-6, SOC 2e-5, exp-cone 5e-4 (x10 margin before a violation)']
    suite_stdform.run(rep, tier, props=('C08',))
    return rep.finish()


def replay(path):
    from checks import replay_file
    return replay_file.run(path)
