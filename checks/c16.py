"""C16 - exports (.lp file, show tables) describe exactly the solved program."""
from harness import core
from checks import suite_lpformat


def main(tier):
    rep = core.Report('C16', tier, level='model_checking')
    rep.rule = ('one case = one complete program enumerated by the generator of LpFormat.tla (columns with type and '
                'bound pattern, rows with coefficient/rhs ranks and sense, optional cone, objective, model class '
                'lp/socp/ro, primal or dual formula, min or max); distinct = distinct generated program; non-trivial = '
                'the case builds a real rsome model, takes its actual formula, has TLC validate the token stream of '
                'lp_export() and the cell stream of show() against that formula, reads the to_lp() file back with '
                'gurobipy (exact structural comparison + optimum) and re-solves the program reconstructed from the '
                'tokens; states/transitions = TLC generator runs (with the writer-transcription invariants) + the '
                'batch trace-validation run; traces_validated_against_impl = number of genuine lp/show streams '
                '(two per program) for which TLC produced an ACCEPT/REJECT verdict')
    rep.assumptions = ['TLC 1.8 and the CommunityModules (Json)',
                       'the CPLEX-LP lexer in harness/replay_lpformat.py (cross-checked per program against gurobipy.read)',
                       'gurobipy as the independent LP-format reader: a binary column denotes {0,1} intersected with its declared bounds',
                       'HiGHS (scipy.optimize.milp) and Gurobi solve the tiny programs to 1e-6 (SOC 1e-5); programs with '
                       'coefficients outside [1e-6,1e6] are compared structurally only (optimum differences there count as inconclusive)',
                       'a cone of the formula denotes sum(mem^2) <= head^2 together with the head\'s bound (as rsome\'s own Gurobi interface submits it)']
    suite_lpformat.run(rep, tier, props=('C16',))
    return rep.finish()


def replay(path):
    from checks import replay_file
    return replay_file.run(path)
