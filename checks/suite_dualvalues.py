"""Suite: DualValues.tla  (C14: dual() returns valid shadow prices of the user's constraints).

1. TLC (generator): every order of user statements (linear array constraints, bound statements on the array and on
   slices, auxiliary-row generators, explicit do_math) over small catalogues; invariants on the transcribed
   index / ciarray map: SliceIsOwnRows, ShapesMatch; ConventionIsWeakDuality (the property's sign convention is an
   LP duality); every complete model (boxed, lattice-feasible, auxiliary constraints loose) is exported.
2. Replay: a stratified seeded sample is written through the API (three layouts of the variables, ro.Model and
   lp.Model front ends), solved by every dual-capable interface (fresh model per interface or one model re-solved),
   dual() read on every object returned by st().
3. TLC (validator, code -> spec): per (model, interface) the user's integer data and the returned duals / value /
   solution scaled to integers; Stationarity, DualObjective, Signs, Shapes decided up to the rounding bound.
4. Python: only what needs no arithmetic (shape of each dual against the shape of its constraint as written, None +
   warning for interfaces without duals, dual() unchanged by a repeated do_math()).
"""
import json
import random

from harness import tlc, core
from harness.tlc import tla

SC = 10000
MAXABS = 1000.0          # |dual|, |x|, |v| above this are not sent to TLC (products must stay below 2^31)
GEN_INVARIANTS = ['SliceIsOwnRows', 'ShapesMatch', 'ConventionIsWeakDuality', 'Export']
ACTIONS = ['AddLin', 'AddBnd', 'AddAux', 'DoMath', 'Solve']
ROWS = {2: [(1, 1), (1, -1), (-1, 2), (2, 1), (0, 1), (1, 0), (-1, -1), (2, -1)],
        3: [(1, 1, 0), (0, 1, 1), (1, -1, 1), (1, 0, -1), (2, 1, 1), (-1, 2, 0), (1, 1, 1), (0, 0, 1), (-1, -1, 1), (1, 0, 0)]}
ATOMS = ['abs', 'norm1', 'norminf']
BASE = {'def': 2, 'grb': 2, 'eco': 5, 'ort': 2}      # solver tolerance in units of 1/SC


def stmt(kind, rows=(), sense='-', rhs=(), idx=()):
    return dict(kind=kind, rows=[list(r) for r in rows], sense=sense, rhs=[int(v) for v in rhs], idx=[int(v) for v in idx])


def config(n, front, rng, k, deep=False):
    """One generator configuration: catalogues of statements around a box [L, H]^n."""
    L = rng.choice([-2, -1, 0, 1])
    H = L + rng.choice([2, 3, 4])
    bnd = [stmt('bnd', sense='lb', rhs=[L], idx=range(1, n + 1)), stmt('bnd', sense='ub', rhs=[H], idx=range(1, n + 1))]

    def split(kind, v0, v1):
        if n == 3 and rng.random() < 0.35:
            return [stmt('bnd', sense=kind, rhs=[v0], idx=[1, 3]), stmt('bnd', sense=kind, rhs=[v1], idx=[2])]
        c = rng.randrange(1, n)
        return [stmt('bnd', sense=kind, rhs=[v0], idx=range(1, c + 1)), stmt('bnd', sense=kind, rhs=[v1], idx=range(c + 1, n + 1))]
    if not deep:
        bnd += split('lb', L, L - 1) if k % 2 == 0 else split('ub', H, H + 1)
    rng.shuffle(bnd)          # bound statements are written in catalogue order
    lin = []
    senses = ['le', 'ge', 'eq']
    rng.shuffle(senses)
    if deep:
        senses = senses[:2]
    for s in senses:
        rows = rng.sample(ROWS[n], rng.choice([1, 2]))
        rhs = []
        for a in rows:
            mn = sum(min(c * L, c * H) for c in a)
            mx = sum(max(c * L, c * H) for c in a)
            rhs.append(rng.randint(mn + 1, mx - 1) if mx - mn >= 2 else mn)     # the row cuts the box
        lin.append(stmt('lin', rows=rows, sense=s, rhs=rhs))
    aux_all = [stmt('aux', sense='abs', rhs=[40], idx=[rng.randrange(1, n + 1)]), stmt('aux', sense='norm1', rhs=[41]),
               stmt('aux', sense='norminf', rhs=[42])]
    aux = [aux_all[k % 3], aux_all[(k + 1) % 3]] if deep else [aux_all[k % 3]]
    # objective: along / against a constraint normal (the row binds, duals are degenerate) or generic
    if rng.random() < 0.5:
        a = rng.choice(rng.choice(lin)['rows'])
        obj = tuple(rng.choice([1, -1]) * c for c in a)
    else:
        obj = tuple(rng.choice([1, -1]) * c for c in rng.choice(ROWS[n]))
    return dict(N=n, Fronts={front}, Objs={obj}, Senses={'min', 'max'}, LinCat=lin, BndCat=bnd, AuxCat=aux,
                MaxLin=2, MaxAux=2 if deep else 1, MaxStmts=6 if deep else 5, MaxDoMath=1, YL=2)


def configs(tier, rng):
    out = []
    reps = 1 if tier == 'quick' else 4
    k = rng.randrange(6)
    for _ in range(reps):
        for n in (2, 3):
            for front in ('ro', 'lp'):
                out.append(config(n, front, rng, k))
                k += 1
    if tier == 'thorough':
        for n, front in ((2, 'ro'), (3, 'lp'), (3, 'ro'), (2, 'lp')):
            out.append(config(n, front, rng, k, deep=True))
            k += 1
    return out


def consts(c, results='{}', sc=1):
    out = {}
    for key, v in c.items():
        if key in ('LinCat', 'AuxCat'):
            out[key] = '{' + ', '.join(tla(s) for s in v) + '}'
        elif key == 'BndCat':
            out[key] = '<<' + ', '.join(tla(s) for s in v) + '>>'
        else:
            out[key] = tla(v)
    out.update(Results=results, SC=tla(sc))
    return out


VALIDATOR_CONSTS = dict(N='2', Fronts='{}', Objs='{}', Senses='{}', LinCat='{}', BndCat='<<>>', AuxCat='{}', MaxLin='0', MaxAux='0',
                        MaxStmts='0', MaxDoMath='0', YL='0')


def features(e):
    """Trigger classes of an exported case."""
    h = e['hist']
    kinds = [s['kind'] for s in h]
    lins = [i for i, k in enumerate(kinds) if k == 'lin']
    f = set()
    for s in h:
        if s['kind'] == 'lin':
            f.add({'le': 'le-row', 'ge': 'ge-row', 'eq': 'eq-row'}[s['sense']])
            if len(s['rows']) > 1:
                f.add('multi-row')
        if s['kind'] == 'bnd' and len(s['idx']) < e['n']:
            f.add('slice-bound')
    if 'aux' in kinds:
        f.add('aux-interleaved' if any(kinds[i] == 'aux' for i in range(lins[0], lins[-1])) else 'aux-rows')
    if 'domath' in kinds:
        f.add('after-redo_math')
    f.add(e['decl']['sense'])
    f.add(e['decl']['front'] + '-front')
    if e['primalBest'] != e['boxBest']:
        f.add('rows-matter')
    return f


TRIGGERS = ('ge-row', 'eq-row', 'max', 'aux-interleaved', 'after-redo_math', 'slice-bound', 'split-vars', '2d', 'same-model-resolved',
            'bound-as-linconstr', 'lp-front', 'ro-front')


def trigger_class(fsets):
    """Names the trigger of a group of failing cases: the features (of TRIGGERS) common to all of them."""
    common = set.intersection(*fsets) if fsets else set()
    keys = [k for k in TRIGGERS if k in common]
    return '+'.join(keys) if keys else 'plain'


def stratified(exports, cap, rng):
    """Seeded sample that keeps every trigger class populated."""
    ex = sorted(exports, key=lambda r: (r['_cfg'], json.dumps([r['decl'], r['hist']], sort_keys=True)))
    rng.shuffle(ex)
    if len(ex) <= cap:
        return ex
    classes = ['aux-interleaved', 'after-redo_math', 'rows-matter', 'ge-row', 'eq-row', 'multi-row', 'slice-bound', 'aux-rows']
    chosen, seen = [], set()
    bad = [i for i, e in enumerate(ex) if not (e['sliceOwn'] and e['shapesMatch'])]
    for i in bad[:cap // 4]:
        seen.add(i)
        chosen.append(ex[i])
    quota = cap // (len(classes) + 2)
    for c in classes:
        got = 0
        for i, e in enumerate(ex):
            if got >= quota:
                break
            # inside a class prefer the cases whose rows matter (non-zero row multipliers)
            if i not in seen and c in e['_f'] and ('rows-matter' in e['_f'] or got % 3 == 2):
                seen.add(i)
                chosen.append(e)
                got += 1
    for i, e in enumerate(ex):
        if len(chosen) >= cap:
            break
        if i not in seen:
            seen.add(i)
            chosen.append(e)
    return chosen


def variant(k, e):
    layout = ('vec', 'split', 'vec', 'vec', 'mat', 'vec', 'split', 'vec')[k % 8]
    order = ['def', 'eco', 'grb']
    ifaces = order[k % 3:] + order[:k % 3]
    if k % 8 == 5:
        ifaces = ifaces + ['ort']
    has_dm = any(s['kind'] == 'domath' for s in e['hist'])
    return dict(layout=layout, reuse=(k // 2) % 2 == 0, ifaces=ifaces,
                obj_first=True if (has_dm and e['decl']['front'] == 'ro') else (k // 4) % 2 == 0,
                bndform='array' if k % 4 == 3 else 'scalar', single_as_index=(k // 3) % 2 == 0)


def scaled(v):
    return int(round(v * SC))


def validator_record(tid, job, run):
    """Plain integer record for TLC, plus the map verdict-statement -> (hist position, part, kind)."""
    stmts, where = [], []
    big = max([abs(run['objval'])] + [abs(v) for v in run['x']])
    for p, (s, parts) in enumerate(zip(job['hist'], run['duals'])):
        if parts is None:
            continue
        for q, part in enumerate(parts):
            if part['none']:
                return None, None, 'none'
            vals = part['values']
            big = max([big] + [abs(v) for v in vals])
            dual = [scaled(v) for v in vals] if big <= MAXABS else []
            if s['kind'] == 'lin':
                st = dict(kind='lin', rows=s['rows'], sense=s['sense'], rhs=s['rhs'], idx=[], dual=dual)
                where.append((p, q, s['sense']))
            elif part['type'] == 'Bounds':
                st = dict(kind='bnd', rows=[], sense=s['sense'], rhs=s['rhs'], idx=part['entries'], dual=dual)
                where.append((p, q, s['sense']))
            else:
                # a bound statement the API turned into a LinConstr (array right-hand side on a slice): unit rows,
                # read as a linear constraint (x_j <= u is a <= row, x_j >= l a >= row)
                n = job['n']
                sense = 'ge' if s['sense'] == 'lb' else 'le'
                st = dict(kind='lin', rows=[[1 if j == e else 0 for j in range(1, n + 1)] for e in part['entries']], sense=sense,
                          rhs=[s['rhs'][0]] * len(part['entries']), idx=[], dual=dual)
                where.append((p, q, sense))
            stmts.append(st)
    if big > MAXABS:
        return None, None, 'large'
    rec = dict(tid=tid, sense=job['decl']['sense'], c=job['decl']['obj'], stmts=stmts, v=scaled(run['objval']),
               x=[scaled(v) for v in run['x']], base=BASE.get(run['iface'], 2))
    return rec, where, None


def shape_ok(expected, observed):
    if list(expected) == list(observed):
        return True
    size = 1
    for d in expected:
        size *= d
    return size == 1 and list(observed) == []          # one row: a scalar


def run_generators(rep, cfgs, sc, invariants):
    from concurrent.futures import ThreadPoolExecutor

    def one(c):
        model = tlc.make_model('DualValues', sc, constants=consts(c), invariants=invariants)
        return tlc.run_tlc(model, sc, workers=1, coverage=True, timeout=1500)
    with ThreadPoolExecutor(max_workers=4) as ex:
        return list(ex.map(one, cfgs))


def run(rep, tier, props):
    rng = random.Random(rep.seed)
    cap = {'quick': 420, 'thorough': 9000}[tier]
    stats = dict(exported=0, models=0, runs=0, ok=0, unsolved=0, validated=0, skipped_large=0, degenerate=0, nondegenerate=0,
                 nonzero_row_multipliers=0, exact_optimum_checked=0, no_dual_interfaces=0, drift=0, by_iface={}, by_layout={},
                 by_feature={}, fresh_model_per_interface=0, same_model_resolved=0, bound_written_as_linconstr=0)
    with tlc.Scratch() as sc:
        cfgs = configs(tier, rng)
        allres = run_generators(rep, cfgs, sc, GEN_INVARIANTS)
        exports = []
        ideal_violated = []
        for ci, (c, res) in enumerate(zip(cfgs, allres)):
            name = 'DualValues.gen[n=%d,%s,stmts<=%d]#%d' % (c['N'], sorted(c['Fronts'])[0], c['MaxStmts'], ci)
            tlc.require_ok(res, name, allow_violation=True)
            if res['violated'] == 'ConventionIsWeakDuality':
                raise tlc.MachineryError('DualValues: the sign convention written in the spec is not an LP duality (spec error)\n%s'
                                         % '\n'.join(res['cex'][:60]))
            if res['violated']:
                # ideal violated on the transcription: export everything (flags sliceOwn / shapesMatch per case), the
                # offending cases are replayed first; confirmed on the real code => finding, otherwise the spec is wrong
                ideal_violated.append((ci, res['violated']))
                rep.add_tlc(name + '[violated %s]' % res['violated'], res)
                res = run_generators(rep, [c], sc, ['Export'])[0]
                tlc.require_ok(res, name + ' (export only)')
            rep.add_tlc(name, res)
            for a in ACTIONS:
                if res['coverage'].get(a, [0, 0])[0] <= 0:
                    raise tlc.MachineryError('%s: action %s never taken' % (name, a))
            for e in res['exports']:
                e['_cfg'] = ci
                e['_f'] = features(e)
                if not e['auxLoose']:
                    raise tlc.MachineryError('%s: exported a case whose auxiliary constraints may be active' % name)
            exports.extend(res['exports'])
        stats['exported'] = len(exports)
        if not exports:
            raise tlc.MachineryError('DualValues: nothing exported')
        chosen = stratified(exports, cap, rng)
        jobs = []
        for k, e in enumerate(chosen):
            jobs.append(dict(tid=k, n=e['n'], decl=e['decl'], hist=e['hist'], variant=variant(k + rep.seed, e)))
        results = core.pmap('harness.replay_dualvalues', 'replay', jobs, chunksize=4)
        bad = core.machinery_failures(results)
        if bad:
            raise tlc.MachineryError('replay_dualvalues failed: %s\n%s' % (bad[0]['machinery_error'], bad[0].get('tb', '')))

        # ---- validator (code -> spec)
        items, idx, wheres = [], [], {}
        for job, r in zip(jobs, results):
            if r.get('status') == 'exception':
                continue
            for ri, run_ in enumerate(r['runs']):
                if run_['status'] != 'ok':
                    continue
                rec, where, why = validator_record(len(items) + 1, job, run_)
                if rec is None:
                    if why == 'large':
                        stats['skipped_large'] += 1
                    continue
                items.append(rec)
                idx.append((job['tid'], ri))
                wheres[(job['tid'], ri)] = where
        verdicts = {}
        chunk = 1500
        parts = [items[c0:c0 + chunk] for c0 in range(0, len(items), chunk)]

        def validate(part):
            vconsts = dict(VALIDATOR_CONSTS)
            vconsts.update(SC=tla(SC), Results='{' + ', '.join(tla(it) for it in part) + '}')
            return tlc.run_tlc(tlc.make_model('DualValues', sc, constants=vconsts, invariants=['ValidateRec'], init_next=('Init', 'Halt')),
                               sc, workers=2, coverage=False, timeout=1500)
        from concurrent.futures import ThreadPoolExecutor
        with ThreadPoolExecutor(max_workers=2) as ex:
            vres = list(ex.map(validate, parts))
        for ci, (part, res) in enumerate(zip(parts, vres)):
            tlc.require_ok(res, 'DualValues validator')
            rep.add_tlc('DualValues.validate[scale=%d]#%d' % (SC, ci), res)
            if len(res['exports']) != len(part):
                raise tlc.MachineryError('DualValues validator: %d verdicts for %d records (log %s)' % (len(res['exports']), len(part), res['log']))
            for v in res['exports']:
                verdicts[idx[v['tid'] - 1]] = v
        rep.traces_validated += len(verdicts)
        stats['validated'] = len(verdicts)

    # ---- collation
    confirmed_ideal = 0
    pending = {}          # (clause word, interface) -> [(features, finding)]: identity failures, named once the whole group is known
    for job, e, r in zip(jobs, chosen, results):
        var = job['variant']
        f = set(e['_f'])
        f.update({'split': ['split-vars'], 'mat': ['2d']}.get(var['layout'], []))
        if var['reuse']:
            f.add('same-model-resolved')
        if var['bndform'] == 'array':
            f.add('bound-as-linconstr')
        stats['models'] += 1
        stats['by_layout'][var['layout']] = stats['by_layout'].get(var['layout'], 0) + 1
        for ft in f:
            stats['by_feature'][ft] = stats['by_feature'].get(ft, 0) + 1
        stats['same_model_resolved' if var['reuse'] else 'fresh_model_per_interface'] += 1
        hkey = json.dumps([job['decl'], job['hist']], sort_keys=True)
        detail = dict(decl=job['decl'], n=job['n'], hist=job['hist'], variant=var, features=sorted(f),
                      assumption='auxiliary constraints are loose on the whole box (AuxLoose): their rows carry zero multipliers',
                      expected=dict(index=e['index'], ciarray=e['ciarray'], shapes=e['shapes'], lo=e['lo'], hi=e['hi'],
                                    certBest=e['certBest'], primalBest=e['primalBest']))
        if r.get('status') == 'exception':
            rep.count(key=('D', hkey, var['layout'], 'exception'))
            _emit(rep, dict(sig='C14:unexpected-exception:%s:%s' % (r['phase'].split(':')[0], r['exc'].split(':')[0]), prop='C14',
                            what='%s at %s' % (r['exc'], r.get('where')), **detail), props)
            continue
        case_bad = False
        for ri, run_ in enumerate(r['runs']):
            iface = run_['iface']
            rep.count(key=('D', hkey, var['layout'], var['bndform'], iface))
            stats['runs'] += 1
            stats['by_iface'][iface] = stats['by_iface'].get(iface, 0) + 1
            d = dict(detail, iface=iface, run={k: v for k, v in run_.items() if k != 'diag'})
            if run_['status'] != 'ok':
                stats['unsolved'] += 1
                _emit(rep, dict(sig='C11:feasible-bounded-lp-not-solved:%s:%s' % (iface, run_['status']), prop='C11',
                                what='TLC: the model has a feasible lattice point and is boxed; the interface reports no optimum', **d), props)
                continue
            stats['ok'] += 1
            flat = [(p, q, part) for p, parts in enumerate(run_['duals']) if parts is not None for q, part in enumerate(parts)]
            nones = [t for t in flat if t[2]['none']]
            if nones:
                if len(nones) != len(flat) or run_['has_y']:
                    _emit(rep, dict(sig='C14:dual-missing:%s:some-constraints' % iface, prop='C14',
                                    what='dual() returned None for some constraints of a model solved to optimality', **d), props)
                elif iface in ('def', 'eco', 'grb'):
                    _emit(rep, dict(sig='C14:dual-missing:%s' % iface, prop='C14', what='a dual-capable interface returned no duals', **d), props)
                elif any(t[2]['nwarn'] == 0 for t in nones):
                    _emit(rep, dict(sig='C14:no-dual-without-warning:%s' % iface, prop='C14', what='dual() returned None silently', **d), props)
                else:
                    stats['no_dual_interfaces'] += 1        # conformant: interface without duals, None + warning
                continue
            # shapes (observable, no arithmetic)
            for p, q, part in flat:
                kind = job['hist'][p]['kind']
                if part['type'] != ('LinConstr' if kind == 'lin' else 'Bounds'):
                    stats['bound_written_as_linconstr'] += 1
                if not shape_ok(part['expected_shape'], part['shape']):
                    size = 1
                    for t in part['expected_shape']:
                        size *= t
                    how = '2d-flattened' if (len(part['expected_shape']) == 2 and part['shape'] == [size]) else 'mismatch'
                    _emit(rep, dict(sig='C14:shape:%s:%s' % ({'LinConstr': 'linconstr', 'Bounds': 'bounds'}.get(part['type'], part['type']), how),
                                    prop='C14', what='dual() of a constraint written with shape %s has shape %s' % (part['expected_shape'], part['shape']),
                                    statement=job['hist'][p], **d), props)
            if not run_['stable']:
                case_bad = True
                _emit(rep, dict(sig='C14:slice-not-own-rows:%s:dual-changes-after-redo_math' % iface, prop='C14',
                                what='dual() returns other values after do_math() is called again on the solved model', **d), props)
            # optional internal projection against the transcription (drift only)
            diag = run_.get('diag') or {}
            if diag.get('ciarray') is not None and var['layout'] == 'vec' and var['bndform'] == 'scalar':
                if _normal(diag['ciarray']) != _normal(e['ciarray']):
                    stats['drift'] += 1
            v = verdicts.get((job['tid'], ri))
            if v is None:
                continue
            where = wheres[(job['tid'], ri)]
            if not v['shapes']:
                case_bad = True
                pending.setdefault(('shape:size-mismatch', iface), []).append((f, dict(
                    prop='C14', what='the number of values returned by dual() differs from the number of rows / entries of the constraint', **d)))
                continue
            stats['degenerate' if v['degenerate'] else 'nondegenerate'] += 1
            if v['nonzero'] > 0:
                stats['nonzero_row_multipliers'] += 1
            resid = dict(stationarity_residual_scaled=v['statresid'], dual_objective_residual_scaled=v['dobjresid'], scale=SC)
            for clause, word, what in (('stationarity', 'stationarity', 'objective gradient != dual-weighted sum of constraint and bound gradients'),
                                       ('dualobj', 'dual-objective', 'dual-weighted right-hand sides do not sum to the optimal objective')):
                if v[clause] == 'bad':
                    case_bad = True
                    pending.setdefault((word, iface), []).append((f, dict(prop='C14', what=what + ' (TLC, exact up to rounding)', **dict(d, **resid))))
                elif v[clause] == 'gray':
                    rep.inconclusive += 1
            for k, sv in enumerate(v['signs']):
                if sv == 'bad':
                    case_bad = True
                    p, q, kind = where[k]
                    _emit(rep, dict(sig='C14:sign:%s:%s:%s' % (iface, job['decl']['sense'], kind), prop='C14',
                                    what='multiplier on the wrong side of zero for the direction of optimisation', statement=job['hist'][p],
                                    **dict(d, **resid)), props)
                elif sv == 'gray':
                    rep.inconclusive += 1
            if v['objofx'] == 'bad':
                _emit(rep, dict(sig='C12:model-get-differs-from-objective-at-solution:%s' % iface, prop='C12',
                                what='model.get() is not the user objective at the returned solution', **d), props)
            # exact optimum known when the lattice certificate closes the gap; otherwise one-sided bounds
            val = run_['objval']
            tol = (1e-5 if iface == 'eco' else 1e-6) * (1 + abs(val)) * 10
            lo_, hi_ = (e['certBest'], e['primalBest']) if job['decl']['sense'] == 'min' else (e['primalBest'], e['certBest'])
            if e['certBest'] == e['primalBest']:
                stats['exact_optimum_checked'] += 1
            if val < lo_ - tol or val > hi_ + tol:
                _emit(rep, dict(sig='C11:optimum-outside-exact-bounds:%s' % iface, prop='C11',
                                what='optimal value %.8g outside [%d, %d] (TLC: lattice certificate / lattice point)' % (val, lo_, hi_), **d), props)
        if not (e['sliceOwn'] and e['shapesMatch']):
            if case_bad:
                confirmed_ideal += 1
                pending.setdefault(('slice-not-own-rows', None), []).append((f, dict(
                    prop='C14', what='TLC: on the transcribed index/ciarray map a user constraint is not given exactly its own rows; confirmed by the returned duals',
                    **detail)))
    for (word, iface), group in sorted(pending.items(), key=lambda t: (t[0][0], t[0][1] or '')):
        gcls = trigger_class([g[0] for g in group])
        for _, finding in group:
            _emit(rep, dict(sig='C14:%s:%s' % (word, gcls) if iface is None else 'C14:%s:%s:%s' % (word, iface, gcls), **finding), props)
    if ideal_violated and not confirmed_ideal:
        raise tlc.MachineryError('DualValues: TLC violated %s on the transcription but the real code shows no deviation on the offending cases: '
                                 'the transcription is wrong' % (ideal_violated,))
    rep.extra['dualvalues'] = stats
    if stats['drift']:
        rep.note('drift: real ciarray differs from the transcription in %d runs (internal attribute; no verdict)' % stats['drift'])
    for job in jobs[:4]:
        rep.sample(dict(suite='DualValues', decl=job['decl'], hist=job['hist'], variant=job['variant']))
    # vacuity
    need = ['le-row', 'ge-row', 'eq-row', 'multi-row', 'slice-bound', 'aux-interleaved', 'after-redo_math', 'min', 'max', 'ro-front', 'lp-front',
            'rows-matter']
    missing = [k for k in need if not stats['by_feature'].get(k)]
    if missing:
        raise tlc.MachineryError('DualValues: classes never exercised: %s' % missing)
    for iface in ('def', 'eco', 'grb'):
        if not stats['by_iface'].get(iface):
            raise tlc.MachineryError('DualValues: interface %s never exercised' % iface)
    if (stats['validated'] < stats['runs'] // 2 or not stats['degenerate'] or not stats['nondegenerate']
            or stats['nonzero_row_multipliers'] < stats['validated'] // 5 or not stats['no_dual_interfaces']
            or not stats['fresh_model_per_interface'] or not stats['same_model_resolved'] or len(stats['by_layout']) < 3):
        raise tlc.MachineryError('DualValues: vacuous outcome classes %s' % stats)
    return jobs, results


def _normal(cia):
    """ciarray up to renaming of indices (ro.Model hands out fresh indices at every formulation)."""
    names, out = {}, []
    for v in cia:
        if v == -1:
            out.append(-1)
        else:
            out.append(names.setdefault(v, len(names)))
    return out


def _emit(rep, f, props):
    if f['prop'] in props:
        rep.violation(f['sig'], f)
    else:
        d = rep.extra.setdefault('other_property_findings', {})
        d[f['sig']] = d.get(f['sig'], 0) + 1
