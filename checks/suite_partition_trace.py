"""Suite: PartitionTrace.tla - trace validation (code -> spec) of the adaptation bookkeeping.

Traces are recorded from the real library by harness/tracer.py (external wrappers, no source change) on
 (a) seeded random API programs beyond the constants TLC enumerates (more scenarios, bigger arrays, slices of
     any extent, string / non-positional integer labels, duplicates and unknown labels), and
 (b) the repository's own dro tests run under `pytest -p harness.tracer_plugin`,
grouped by their constants (NS, Sizes, VTypes, NR) and validated by TLC in batch: one behaviour per trace, every
event explained by the corresponding action of Partition.tla with the logged arguments, outcome and projected
state; the ideal invariants are evaluated in every state of every trace.
"""
import json
import os
import re
import subprocess

from harness import tlc, core
from harness.tlc import tla

FLAGS = dict(GetFixed=True, SliceFixed=True, RedeclFixed=True)
REPO_TESTS = ['tests/test_dro_dvar.py', 'tests/test_dro_model.py', 'tests/test_case_dro_newsvendors.py', 'tests/test_ambiguity.py', 'tests/test_expcone_dro.py']
_RE = re.compile(r'^<<"(ACCEPT|AT|IDEAL-VIOLATED)", (\d+)(?:, (\d+))?(?:, (.*))?>>')


def _tla_event(e):
    d = dict(ev=e['ev'], v=e['v'], out=e.get('out', 'ok'))
    if e['ev'] == 'adapt_events':
        d.update(E=e['E'], ea=e['ea'])
    elif e['ev'] == 'mk_slice':
        d.update(idx=e['idx'], sid=e['sid'])
    elif e['ev'] == 'rule_var':
        d.update(static=e['static'], slopes=e['slopes'])
    else:
        d.update(sid=e['sid'], idx=e['idx'], comps=e['comps'], mask=e['mask'])
    return tla(d)


def validate_group(rep, sc, key, traces, label):
    ns, sizes, vtypes, nr = key
    nsl = max(t['nslices'] for t in traces)
    lit = '<<' + ', '.join('<<' + ', '.join(_tla_event(e) for e in t['events']) + '>>' for t in traces) + '>>'
    consts = dict(NS=tla(ns), Sizes=tla(list(sizes)), VTypes=tla(list(vtypes)), NR=tla(nr), MaxSteps=tla(10 ** 6), MaxSlices=tla(max(nsl, 1)),
                  Zhat=tla(list(range(1, ns + 1))), Traces=lit)
    consts.update({k: tla(v) for k, v in FLAGS.items()})
    model = tlc.make_model('PartitionTrace', sc, constants=consts, invariants=['Accepted', 'Progress', 'IdealOnTrace'], init_next=('TraceInit', 'TraceNext'))
    res = tlc.run_tlc(model, sc, workers=2, coverage=False, timeout=1200, want_exports=False)
    tlc.require_ok(res, 'PartitionTrace ' + label)
    rep.add_tlc('PartitionTrace[%s NS=%d sizes=%s NR=%d]' % (label, ns, list(sizes), nr), res)
    acc, reach, ideal = set(), {}, []
    with open(res['log'], errors='replace') as f:
        for line in f:
            m = _RE.match(line.strip())
            if not m:
                continue
            kind, tid = m.group(1), int(m.group(2))
            if kind == 'ACCEPT':
                acc.add(tid)
            elif kind == 'AT':
                reach[tid] = max(reach.get(tid, 0), int(m.group(3)))
            else:
                ideal.append((tid, int(m.group(3)), m.group(4)))
    return acc, reach, ideal


def collect_repo_traces(sc):
    path = os.path.join(sc, 'repo_traces.json')
    env = dict(os.environ, RSOME_VERIF_TRACE=path, PYTHONPATH=core.ROOT + os.pathsep + core.repo_path())
    tests = [t for t in REPO_TESTS if os.path.exists(os.path.join(core.repo_path(), t))]
    if not tests:
        return [], 'no dro test files found'
    p = subprocess.run(['/venv/bin/python', '-m', 'pytest', '-q', '-x', '-p', 'no:cacheprovider', '-p', 'harness.tracer_plugin'] + tests,
                       cwd=core.repo_path(), env=env, stdout=subprocess.PIPE, stderr=subprocess.STDOUT, text=True, timeout=1500)
    if not os.path.exists(path):
        return [], 'tracer wrote no file (pytest rc=%s): %s' % (p.returncode, p.stdout[-300:])
    with open(path) as f:
        return json.load(f), 'pytest rc=%s' % p.returncode


def run(rep, tier, props):
    nprog = {'quick': 240, 'thorough': 1500}[tier]
    import random
    rng = random.Random(rep.seed)
    shapes = [(4, [2, 1], ['C', 'C'], 3), (5, [3], ['C'], 2), (6, [1, 2], ['C', 'I'], 2), (3, [2, 2, 1], ['C', 'C', 'C'], 4)]
    jobs = []
    for k in range(nprog):
        ns, sizes, vt, nr = shapes[k % len(shapes)]
        jobs.append(dict(seed=rng.randrange(10 ** 9), ns=ns, sizes=sizes, vtypes=vt, nr=nr, steps=rng.randint(4, 9)))
    results = core.pmap('harness.trace_partition', 'record', jobs, chunksize=8)
    bad = core.machinery_failures(results)
    if bad:
        raise tlc.MachineryError('trace_partition failed: %s\n%s' % (bad[0]['machinery_error'], bad[0].get('tb', '')))
    sources = [('random', t) for r in results for t in r]
    with tlc.Scratch() as sc:
        if tier == 'thorough' or os.environ.get('VERIF_TRACE_REPO_TESTS', '1') == '1':
            rt, note = collect_repo_traces(sc)
            rep.note('repository dro tests under the tracer: %d traces (%s)' % (len(rt), note))
            sources += [('repo-tests', t) for t in rt]
        groups = {}
        for src, t in sources:
            if not t['events']:
                continue
            if t['ns'] > 12 or sum(t['sizes']) > 12:
                rep.extra['traces_skipped_large'] = rep.extra.get('traces_skipped_large', 0) + 1
                continue
            # every variable of the trace must have a size entry
            key = (t['ns'], tuple(t['sizes']), tuple(t['vtypes']), max(t['nr'], 1))
            groups.setdefault(key, []).append((src, t))
        total, accepted, rejected, nev = 0, 0, 0, 0
        corrupt_total, corrupt_caught = 0, 0
        rv_events, rv_bad = 0, 0
        for key, lst in sorted(groups.items(), key=lambda kv: -len(kv[1]))[:(12 if tier == 'quick' else 60)]:
            traces = [t for _, t in lst]
            acc, reach, ideal = validate_group(rep, sc, key, traces, lst[0][0])
            total += len(traces)
            nev += sum(len(t['events']) for t in traces)
            for tid, (src, t) in enumerate(lst, 1):
                if tid in acc:
                    accepted += 1
                else:
                    rejected += 1
                    pos = reach.get(tid, 1)
                    ev = t['events'][pos - 1] if pos - 1 < len(t['events']) else None
                    rep.note('trace not explained by the transcription (drift, not an alarm): %s event %d %s' % (src, pos, json.dumps(ev)[:200]))
            for tid, pos, what in ideal:
                src, t = lst[tid - 1]
                sig = 'C13:trace:ideal-violated:' + what.strip('" ').split()[0]
                if 'C13' in props:
                    rep.violation(sig, dict(prop='C13', what='ideal invariant violated on a trace recorded from the real code', source=src, event_index=pos,
                                            events=t['events'][:pos], verdict=what))
            # binding demonstration: corrupt one logged field of accepted traces; TLC must not accept them
            cor = []
            for tid, (src, t) in enumerate(lst, 1):
                if tid in acc and len(cor) < 6:
                    c = json.loads(json.dumps(t))
                    for e in c['events']:
                        if e['ev'] == 'adapt_events' and e['out'] == 'ok' and len(e['ea']) >= 2:
                            e['ea'][0], e['ea'][1] = e['ea'][1], e['ea'][0]
                            cor.append(c)
                            break
                        if e['ev'] == 'adapt_affine' and e['out'] == 'ok':
                            e['out'] = 'err'
                            cor.append(c)
                            break
            if cor:
                acc2, _, _ = validate_group(rep, sc, key, cor, 'corrupted')
                corrupt_total += len(cor)
                corrupt_caught += len(cor) - len(acc2)
            # ... and the logged column map: give two scenarios of different events the same columns; ColMapOK must flag it
            cor = []
            for tid, (src, t) in enumerate(lst, 1):
                if tid in acc and len(cor) < 4 and all(e_.get('out', 'ok') == 'ok' for e_ in t['events']):      # (no variable left undefined by a failed adapt)
                    c = json.loads(json.dumps(t))
                    for e in c['events']:
                        if e['ev'] == 'rule_var' and e['out'] == 'ok':
                            hit = [(v, a, b) for v, st_ in enumerate(e['static']) for a in range(len(st_)) for b in range(len(st_)) if st_[a] != st_[b]]
                            if hit:
                                v, a, b = hit[0]
                                e['static'][v][a] = list(e['static'][v][b])
                                cor.append(c)
                            break
            if cor:
                _, _, ideal2 = validate_group(rep, sc, key, cor, 'corrupted-colmap')
                flagged = set(tid for tid, _, what in ideal2 if 'colmap' in what)
                corrupt_total += len(cor)
                corrupt_caught += len(flagged)
            rv_events += sum(1 for t in traces for e in t['events'] if e['ev'] == 'rule_var' and e['out'] == 'ok')
            rv_bad += sum(1 for t in traces for e in t['events'] if e['ev'] == 'rule_var' and e['out'] != 'ok')
    rep.traces_validated += total
    for k in range(total):
        rep.count(key=('PT', k))
    rep.extra['partition_trace'] = dict(traces=total, events=nev, accepted=accepted, not_explained=rejected, groups=len(groups),
                                        corrupted_traces=corrupt_total, corrupted_rejected=corrupt_caught,
                                        column_maps_judged=rv_events)
    if rv_bad:
        raise tlc.MachineryError('PartitionTrace: %d rule_var events could not be projected' % rv_bad)
    if total and accepted < total // 2:
        raise tlc.MachineryError('PartitionTrace: only %d of %d traces accepted' % (accepted, total))
    if corrupt_total and corrupt_caught < corrupt_total:
        raise tlc.MachineryError('PartitionTrace: %d of %d corrupted traces were accepted (the trace spec does not bind)' % (corrupt_total - corrupt_caught, corrupt_total))
    return sources
