"""Suite: DeclOrder.tla (C09 / C13 / C15): every order of declaring the parts of one ro model."""
import json
import random

from harness import tlc, core
from harness.tlc import tla
from harness import replay_declorder as rd


def _consts(pad_rule, pad_expr):
    return dict(Steps=tla(set(rd.STEPS)), Before=tla(set(rd.BEFORE)), RvarSteps=tla(rd.RVARS), AdaptSteps=tla(set(rd.ADAPTS)),
                RuleUses=tla(set(rd.RULE_USES + ['ob'] if False else rd.RULE_USES)), ExprMake=tla(rd.EXPR_MAKE), ExprUses=tla(set(rd.EXPR_USES)),
                PadRule=tla(pad_rule), PadExpr=tla(pad_expr))


def run(rep, tier, props):
    with tlc.Scratch() as sc:
        # the unrepaired transcription: TLC must find the order in which the rule's flat mask is read at another width
        bad = tlc.make_model('DeclOrder', sc, constants=_consts(False, True), invariants=['MaskAligned'])
        rb = tlc.run_tlc(bad, sc, workers=4, coverage=False, timeout=600, want_exports=False)
        if rb.get('violated') != 'MaskAligned':
            raise tlc.MachineryError('DeclOrder: TLC does not find the misaligned mask on the unrepaired transcription (%r)' % rb.get('violated'))
        rep.add_tlc('DeclOrder[unrepaired DecRule.to_affine: counterexample to MaskAligned expected]', rb, note='violation expected and found')
        cap = 1200 if tier == 'quick' else 9000
        model = tlc.make_model('DeclOrder', sc, constants=_consts(True, True), invariants=['MaskAligned', 'ExprAligned', 'Progress', 'Export'])
        res = tlc.run_tlc(model, sc, workers=8, coverage=True, timeout=1200,
                          export_sample=(cap, rep.seed, lambda r: False))
        tlc.require_ok(res, 'DeclOrder')
        rep.add_tlc('DeclOrder[12 declaration steps, every linear extension of the dependency order]', res)
        orders = res['exports']
    if len(orders) < min(cap, 300) or sum(1 for r in orders if r['illegal']) < 50 or sum(1 for r in orders if not r['illegal']) < 150:
        raise tlc.MachineryError('DeclOrder: only %d orders exported' % len(orders))
    rep.exhaustive = False
    orders.sort(key=lambda r: json.dumps(r, sort_keys=True))
    n_late_rule = sum(1 for r in orders if r['lateRule'] and not r['illegal'])
    n_late_expr = sum(1 for r in orders if r['lateExpr'] and not r['illegal'])
    if n_late_rule < 15 or n_late_expr < 15:
        raise tlc.MachineryError('DeclOrder: sample lacks late-declaration orders (%d, %d)' % (n_late_rule, n_late_expr))
    jobs = [dict(tid=k, order=r['order'], illegal=r['illegal']) for k, r in enumerate(orders)]
    results = core.pmap('harness.replay_declorder', 'replay', jobs, chunksize=8)
    bad = core.machinery_failures(results)
    if bad:
        raise tlc.MachineryError('replay_declorder failed: %s\n%s' % (bad[0]['machinery_error'], bad[0].get('tb', '')))
    stats = dict(orders=len(jobs), rvar_after_adapt=n_late_rule, rvar_after_expression=n_late_expr, compared=0, illegal_adapt_after_use=0, illegal_raised=0)
    for job, rec, r in zip(jobs, orders, results):
        rep.count(key=('DO', ' '.join(job['order'])))
        if rec['illegal']:
            stats['illegal_adapt_after_use'] += 1
            first_use_unadapted = not any(s_ in rd.ADAPTS for s_ in job['order'][:job['order'].index('u0')]) if 'u0' in job['order'] else False
            if 'prefix_exc' in r:
                for pr in ('C09', 'C15'):
                    _emit(rep, dict(sig='%s:declaration-order:raises:%s:legal-prefix' % (pr, r['prefix_exc'].split(':')[0]), prop=pr, what='a legal prefix raises %s' % r['prefix_exc'], order=job['order'], result=r), props)
            elif r['illegal_outcome'] == 'accepted':
                for pr in ('C13', 'C10'):
                    _emit(rep, dict(sig='%s:adapt-after-use-accepted:%s' % (pr, 'rule-used-before-any-adaptation' if first_use_unadapted else 'rule-used-after-some-adaptation'), prop=pr,
                                    what='adapt() on a decision rule that was already used in an expression did not raise', order=job['order'], result=r), props)
            else:
                stats['illegal_raised'] += 1
            continue
        can, got = r['canonical'], r['order']
        if 'exc' in can or can.get('obj') is None:
            raise tlc.MachineryError('DeclOrder: the canonical order does not solve: %r' % can)
        tag = ('rvar-after-adapt' if rec['lateRule'] else '') + ('+' if rec['lateRule'] and rec['lateExpr'] else '') + ('rvar-after-expression' if rec['lateExpr'] else '') or 'plain'
        detail = dict(order=job['order'], result=r)
        if 'exc' in got:
            for pr in ('C09', 'C15'):
                _emit(rep, dict(sig='%s:declaration-order:raises:%s:%s' % (pr, got['exc'].split(':')[0], tag), prop=pr,
                                what='a legal order of the same declarations raises %s' % got['exc'], **detail), props)
            continue
        stats['compared'] += 1
        if got.get('obj') is None or abs(got['obj'] - can['obj']) > 2e-5 * (1 + abs(can['obj'])):
            for pr in ('C09', 'C15', 'C13'):
                if pr == 'C13' and not rec['lateRule']:
                    continue
                _emit(rep, dict(sig='%s:declaration-order:optimum-differs:%s' % (pr, tag), prop=pr,
                                what='optimum %r, canonical order %r' % (got.get('obj'), can['obj']), **detail), props)
        elif got['mask'] != can['mask']:
            for pr in ('C13', 'C12'):
                _emit(rep, dict(sig='%s:declaration-order:dependency-pattern-differs:%s' % (pr, tag), prop=pr,
                                what='coefficient queries report dependencies %r, canonical order %r' % (got['mask'], can['mask']), **detail), props)
    rep.traces_validated += len(jobs)
    rep.extra['declorder'] = stats
    rep.sample(dict(suite='DeclOrder', order=jobs[0]['order']))
    return jobs, results


def _emit(rep, f, props):
    if f['prop'] in props:
        rep.violation(f['sig'], f)
    else:
        d = rep.extra.setdefault('other_property_findings', {})
        d[f['sig']] = d.get(f['sig'], 0) + 1
