"""Suite: Partition.tla  (C13; label / coefficient-query clauses of C12).

1. TLC checks the ideal invariants on the implementation-shaped transcription, exhaustively for the
   configured constants.
2. TLC exports every reachable state (history + expected observables + ghost expectations).
3. The histories are replayed into rsome.dro (harness/replay_partition.py).
4. Traces recorded from the real code on random API programs that TLC did not generate are
   validated by TLC against PartitionTrace.tla (code -> spec).
"""
import random

from harness import tlc, core
from harness.tlc import tla

INVARIANTS = ['TypeOK', 'IsPartition', 'SharedIffSameEvent', 'ColsInjective', 'SlopeSharedIffSameEvent', 'SlopeColsInjective', 'CombIsMeet',
              'MaskExact', 'LabelsOwnEvent', 'IllegalRaises', 'LegalAccepted']

FLAGS = dict(GetFixed=True, SliceFixed=True, RedeclFixed=True)   # transcription of the repaired code

CONFIGS = {
    'quick': [
        dict(NS=3, Sizes=[1, 2], VTypes=['C', 'C'], NR=2, MaxSteps=3, MaxSlices=1, Zhat=[3, 1, 2]),
        dict(NS=4, Sizes=[2], VTypes=['C'], NR=1, MaxSteps=3, MaxSlices=0, Zhat=[2, 4, 1, 3]),
        dict(NS=2, Sizes=[2, 1], VTypes=['C', 'I'], NR=2, MaxSteps=3, MaxSlices=1, Zhat=[1, 2]),
    ],
    'thorough': [
        dict(NS=3, Sizes=[1, 2], VTypes=['C', 'C'], NR=2, MaxSteps=4, MaxSlices=2, Zhat=[3, 1, 2]),
        dict(NS=5, Sizes=[1], VTypes=['C'], NR=1, MaxSteps=4, MaxSlices=0, Zhat=[2, 5, 1, 4, 3]),
        dict(NS=4, Sizes=[2, 1], VTypes=['C', 'C'], NR=1, MaxSteps=3, MaxSlices=0, Zhat=[2, 4, 1, 3]),
        dict(NS=2, Sizes=[2, 1], VTypes=['C', 'I'], NR=2, MaxSteps=4, MaxSlices=2, Zhat=[1, 2]),
    ],
}
SAMPLE = {'quick': 1800, 'thorough': 24000}


def consts_tla(c):
    d = {k: tla(v) for k, v in c.items()}
    d.update({k: tla(v) for k, v in FLAGS.items()})
    return d


def run(rep, tier, props):
    rng = random.Random(rep.seed)
    jobs = []
    with tlc.Scratch() as sc:
        for ci, c in enumerate(CONFIGS[tier]):
            model = tlc.make_model('Partition', sc, constants=consts_tla(c),
                                   invariants=INVARIANTS + ['Export'])
            cap = SAMPLE[tier] // len(CONFIGS[tier])
            # every state is exported; all short histories and all states where an ideal clause fails on the transcription are
            # kept, the rest is a uniform reservoir sample taken while the log is parsed (memory stays bounded)
            must = lambda r: len(r['hist']) <= 1 or not all(r['idealOK'].values())
            res = tlc.run_tlc(model, sc, workers=12, coverage=(tier == 'quick' and ci == 0), timeout=3000,
                              export_sample=(cap, rep.seed * 1000 + ci, must))
            tlc.require_ok(res, 'Partition cfg %d' % ci, allow_violation=True)
            rep.add_tlc('Partition[%s]' % ','.join('%s=%s' % kv for kv in c.items() if kv[0] in ('NS', 'Sizes', 'MaxSteps', 'MaxSlices')), res)
            if res['violated']:
                # The spec is fixed; its flags select the transcription of the repaired code, on which
                # every ideal invariant holds.  A violation here means spec and flags are out of step.
                raise tlc.MachineryError('Partition cfg %d: invariant %s violated on the transcription\n%s'
                                         % (ci, res['violated'], '\n'.join(res['cex'][:60])))
            if not res['exports']:
                raise tlc.MachineryError('Partition cfg %d exported nothing' % ci)
            recs = res['exports']
            if res['exports_seen'] > len(recs):
                rep.exhaustive = False
            for k, r in enumerate(recs):
                jobs.append(dict(consts=c, rec=r, labels=('int', 'str', 'intperm')[k % 3], tidx=k))
    results = core.pmap('harness.replay_partition', 'replay', jobs, chunksize=16)
    bad = core.machinery_failures(results)
    if bad:
        raise tlc.MachineryError('replay_partition failed: %s\n%s' % (bad[0]['machinery_error'], bad[0].get('tb', '')))
    ndrift = 0
    solved = 0
    for job, r in zip(jobs, results):
        rep.count(key=('P', tuple(job['consts']['Sizes']), job['consts']['NS'], r['hsig'], job['labels']))
        solved += 1 if r.get('solved') else 0
        for f in r['findings']:
            if f['prop'] in props:
                rep.violation(f['sig'], f)
            else:
                rep.extra.setdefault('other_property_findings', {}).setdefault(f['sig'], 0)
                rep.extra['other_property_findings'][f['sig']] += 1
        if r['drift']:
            ndrift += 1
            if ndrift <= 3:
                rep.note('transcription drift (not an alarm): %s on %s' % (r['drift'][0], r['hsig']))
    rep.traces_validated += len(jobs)
    rep.extra['partition_replays'] = len(jobs)
    rep.extra['partition_replays_solved'] = solved
    rep.extra['partition_transcription_drift'] = ndrift
    rep.extra['adaptive_times_random_rejected'] = sum(1 for r in results for n in r.get('notes', []) if n == 'product-rejected')
    rep.extra['eventwise_rule_coefficients_checked'] = sum(1 for r in results for n in r.get('notes', []) if n == 'coefficients-checked')
    if rep.extra['adaptive_times_random_rejected'] == 0 or rep.extra['eventwise_rule_coefficients_checked'] == 0:
        raise tlc.MachineryError('Partition: the adaptive x random rejection was never exercised')
    for job in jobs[:3]:
        rep.sample(dict(suite='Partition', history=job['rec']['hist'], expected_event_lists=job['rec']['ea'],
                        expected_NS_times_optimum=job['rec']['objNS'], labels=job['labels']))
    return jobs, results
