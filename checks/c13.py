"""C13 - decisions depend on uncertainty exactly as declared."""
from harness import core
from checks import suite_partition, suite_partition_trace, suite_declorder


def main(tier):
    rep = core.Report('C13', tier, level='model_checking')
    rep.rule = ('every reachable state of Partition.tla within the constants (histories of adapt()/slice calls on '
                'dro decisions) is one case; distinct = distinct (constants, history, label kind); non-trivial = '
                'every case executes the real adapt calls and solves two models whose exact optimum and per-scenario '
                'values TLC computed from the declared adaptation')
    rep.assumptions = ['TLC 1.8 and the CommunityModules', 'HiGHS (scipy) solves the small LPs to 1e-6',
                       'concretisation in harness/replay_partition.py (pinned supports z = Zhat[s], box supports for masks)']
    suite_partition.run(rep, tier, props=('C13',))
    suite_partition_trace.run(rep, tier, props=('C13',))       # code -> spec: recorded traces validated by TLC
    # ro decision rules: the declared dependency pattern under every order of declaring random variables, adaptations and uses
    suite_declorder.run(rep, tier, props=('C13',))
    return rep.finish()


def replay(path):
    from checks import replay_file
    return replay_file.run(path)
