"""Suite: ArrayAlgebra.tla  (C05).

1. TLC enumerates operator words over a decision array X (and, in the bi-affine configurations, a random
   array Z), computes for every reachable state the shape and the full symbolic content NumPy's semantics
   give, and checks the algebraic self-checks of that model (T.T = id, reshape keeps the content,
   sum = fold of axis sums, broadcasting symmetric, x @ I = x, (A @ x).T = x.T @ A.T, tril + triu, ...).
2. Every exported state is replayed (harness/replay_arrayalgebra.py): spec vs NumPy (machinery check),
   rsome vs spec (verdict), over several kinds of leaf operands and of numeric constants.
"""
import collections
import random

from harness import tlc, core
from harness.tlc import tla

SELF_CHECKS = ['InvCount', 'InvKind', 'InvTT', 'InvNegNeg', 'InvReshape', 'InvSumFold', 'InvBShapeSym', 'InvFullSlice',
               'InvConcatSplit', 'InvMatMulId', 'InvMatMulT', 'InvTri']
ALL_OPS = ['neg', 'ew', 'mm', 'idx', 'shape', 'sum', 'join', 'tri', 'leaf']
BI_OPS = ['neg', 'ew', 'mm', 'idx', 'shape', 'sum', 'leaf']
ACTIONS = ['DoNeg', 'DoAddC', 'DoSubC', 'DoMulC', 'DoMatMulR', 'DoMatMulL', 'DoGetItem', 'DoReshape', 'DoFlatten', 'DoT',
           'DoSumAll', 'DoSumAxis', 'DoConcat', 'DoRStack', 'DoCStack', 'DoVec', 'DoDiag', 'DoDiagFill', 'DoTril', 'DoTriu',
           'DoTrace', 'DoTriNon2D', 'DoAddLeaf', 'DoMulLeaf', 'DoMatMulLeaf']
SHAPES14 = [[], [1], [3], [2], [2, 3], [3, 2], [3, 1], [1, 3], [2, 2], [3, 3], [2, 3, 2], [1, 3, 2], [2, 1, 3], [2, 2, 1]]
LEAVES_AFFINE = ('vars', 'affine', 'varsub', 'lp', 'dro', 'ldr')
LEAVES_BI = ('vars', 'dro', 'varsub', 'affine')
CTYPES = ('int', 'float', 'sparse', 'arr0', 'int32')


def A(x):
    return dict(x=x, hz=False, z=[])


def BI(x, z):
    return dict(x=x, hz=True, z=z)


BI5 = [BI([2, 3], [3]), BI([3], [3]), BI([2, 2], [2, 2]), BI([2], [2, 3]), BI([], [2])]

# name, bases, depth, level, ops, selfdepth, mode ('all' | sample cap), variants ('rotate' | 'full'), simulate
RUNS = {
    'quick': [
        dict(name='depth1-full-catalogue', bases=[A(s) for s in SHAPES14], depth=1, level=2, ops=ALL_OPS, selfdepth=1, cap=None, variants='rotate'),
        dict(name='depth2-affine', bases=[A([3]), A([2, 3])], depth=2, level=1, ops=ALL_OPS, selfdepth=1, cap=2500, variants='rotate'),
        dict(name='depth2-biaffine', bases=[BI([2, 3], [3]), BI([2], [2, 3])], depth=2, level=1, ops=BI_OPS, selfdepth=1, cap=2500, variants='rotate'),
    ],
    'thorough': [
        dict(name='depth1-full-catalogue', bases=[A(s) for s in SHAPES14], depth=1, level=2, ops=ALL_OPS, selfdepth=1, cap=None, variants='full'),
        dict(name='depth2-affine-a', bases=[A(s) for s in SHAPES14[0:5]], depth=2, level=1, ops=ALL_OPS, selfdepth=2, cap=None, variants='rotate'),
        dict(name='depth2-affine-b', bases=[A(s) for s in SHAPES14[5:9]], depth=2, level=1, ops=ALL_OPS, selfdepth=2, cap=None, variants='rotate'),
        dict(name='depth2-affine-c', bases=[A(s) for s in SHAPES14[9:12]], depth=2, level=1, ops=ALL_OPS, selfdepth=2, cap=None, variants='rotate'),
        dict(name='depth2-affine-d', bases=[A(s) for s in SHAPES14[12:14]], depth=2, level=1, ops=ALL_OPS, selfdepth=2, cap=None, variants='rotate'),
        dict(name='depth2-biaffine-a', bases=BI5[0:2], depth=2, level=1, ops=ALL_OPS, selfdepth=2, cap=None, variants='rotate'),
        dict(name='depth2-biaffine-b', bases=BI5[2:5], depth=2, level=1, ops=ALL_OPS, selfdepth=2, cap=None, variants='rotate'),
        dict(name='depth2-full-catalogue', bases=[A([3]), A([2, 2])], depth=2, level=2, ops=ALL_OPS, selfdepth=1, cap=None, variants='rotate'),
        dict(name='depth4-simulated-affine', bases=[A(s) for s in ([3], [2, 3], [3, 3], [2, 3, 2], [2, 1, 3])], depth=4, level=1,
             ops=ALL_OPS, selfdepth=4, cap=None, variants='rotate', simulate=700),
        dict(name='depth3-simulated-biaffine', bases=BI5[0:4], depth=3, level=1, ops=BI_OPS, selfdepth=3, cap=None, variants='rotate',
             simulate=700),
    ],
}
COVERAGE_RUN = dict(name='coverage', bases=[BI([2, 3], [3]), A([3])], depth=1, level=1, ops=ALL_OPS, selfdepth=0)


def consts(run):
    return dict(Bases=tla(run['bases']), MaxDepth=tla(run['depth']), Level=tla(run['level']), Ops=tla(set(run['ops'])),
                SelfDepth=tla(run['selfdepth']))


def _variants(rec, how, k):
    leaves = LEAVES_BI if rec['hz'] else LEAVES_AFFINE
    if how == 'full':
        return [(lf, ct) for lf in leaves for ct in CTYPES]
    return [(leaves[k % len(leaves)], CTYPES[(k // len(leaves)) % len(CTYPES)])]


def _last_action(rec):
    h = rec['hist'][-1]
    op = h['op']
    if op == 'start':
        return None
    if 'leaf' in h:
        return {'add': 'DoAddLeaf', 'sub': 'DoAddLeaf', 'mul': 'DoMulLeaf', 'matmul': 'DoMatMulLeaf'}[op]
    if rec['status'] == 'unsup' and rec['why'] == 'non-2d':
        return 'DoTriNon2D'
    return {'neg': 'DoNeg', 'add': 'DoAddC', 'sub': 'DoSubC', 'mul': 'DoMulC', 'getitem': 'DoGetItem', 'reshape': 'DoReshape',
            'flatten': 'DoFlatten', 'T': 'DoT', 'sum': 'DoSumAll', 'sumaxis': 'DoSumAxis', 'concat': 'DoConcat', 'rstack': 'DoRStack',
            'cstack': 'DoCStack', 'vec': 'DoVec', 'diag': 'DoDiag', 'diagfill': 'DoDiagFill', 'tril': 'DoTril', 'triu': 'DoTriu',
            'trace': 'DoTrace'}.get(op) or ('DoMatMulR' if h['side'] == 'l' else 'DoMatMulL')


def run(rep, tier, props):
    rng = random.Random(rep.seed)
    outcomes = collections.Counter()
    by_kind = collections.Counter()
    by_leaf = collections.Counter()
    by_ctype = collections.Counter()
    by_action = collections.Counter()
    by_depth = collections.Counter()
    notes = collections.Counter()
    fcount = collections.Counter()
    fdetail = {}
    nsamples = 0
    total_jobs = 0
    exhaustive = True

    # ---- vacuity of the specification: every named action is taken (TLC -coverage, small configuration)
    with tlc.Scratch() as sc:
        model = tlc.make_model('ArrayAlgebra', sc, constants=consts(COVERAGE_RUN), invariants=['InvCount', 'InvKind'])
        res = tlc.run_tlc(model, sc, workers=12, coverage=True, timeout=600)
        tlc.require_ok(res, 'ArrayAlgebra coverage run')
        rep.add_tlc('ArrayAlgebra[coverage,depth=1]', res)
        if res['violated']:
            raise tlc.MachineryError('ArrayAlgebra coverage run: %s violated' % res['violated'])
        dead = [a for a in ACTIONS if res['coverage'].get(a, [0])[0] == 0]
        if dead:
            raise tlc.MachineryError('ArrayAlgebra: actions never taken: %s' % dead)

    for run_ in RUNS[tier]:
        with tlc.Scratch() as sc:
            model = tlc.make_model('ArrayAlgebra', sc, constants=consts(run_), invariants=SELF_CHECKS + ['Export'])
            sim = run_.get('simulate')
            res = tlc.run_tlc(model, sc, workers=12, coverage=False, timeout=1500,
                              simulate=('num=%d' % sim) if sim else None, depth=(run_['depth'] + 1) if sim else None,
                              seed=rep.seed if sim else None)
            tlc.require_ok(res, 'ArrayAlgebra ' + run_['name'], allow_violation=True)
            if res['violated']:
                # the self-checks are laws of NumPy's semantics: a violation is an error of the model, never of rsome
                raise tlc.MachineryError('ArrayAlgebra %s: self-check %s violated\n%s'
                                         % (run_['name'], res['violated'], '\n'.join(res['cex'][-40:])[:3000]))
            recs = res['exports']
            res['exports'] = None
            if not recs:
                raise tlc.MachineryError('ArrayAlgebra %s exported nothing' % run_['name'])
            if sim:
                seen, uniq = set(), []
                for r in recs:
                    k = repr(r['hist']) + repr(r['xs']) + repr(r['zs'])
                    if k not in seen:
                        seen.add(k)
                        uniq.append(r)
                recs = uniq
                res['distinct'] = len(recs)
                exhaustive = False
            rep.add_tlc('ArrayAlgebra[%s,%d bases,depth=%d,level=%d%s]' % (run_['name'], len(run_['bases']), run_['depth'], run_['level'],
                                                                       ',simulate' if sim else ''), res)
        cap = run_['cap']
        if cap is not None and len(recs) > cap:
            must = [r for r in recs if len(r['hist']) <= 2 and run_['depth'] < 2]
            rest = [r for r in recs if not (len(r['hist']) <= 2 and run_['depth'] < 2)]
            rng.shuffle(rest)
            recs = must + rest[:max(0, cap - len(must))]
            exhaustive = False
        jobs = []
        k0 = rng.randrange(1000)
        for k, r in enumerate(recs):
            for lf, ct in _variants(r, run_['variants'], k + k0):
                jobs.append(dict(rec=r, leaf=lf, ctype=ct))
        del recs
        results = core.pmap('harness.replay_arrayalgebra', 'replay', jobs, chunksize=64)
        bad = core.machinery_failures(results)
        if bad:
            raise tlc.MachineryError('replay_arrayalgebra (%s): %s\n%s' % (run_['name'], bad[0]['machinery_error'], bad[0].get('tb', '')))
        total_jobs += len(jobs)
        for job, r in zip(jobs, results):
            rec = job['rec']
            rep.count(key=(r['key'], tuple(rec['xs']), tuple(rec['zs']), job['leaf'], job['ctype']))
            outcomes[r['outcome']] += 1
            by_kind[rec['kind']] += 1
            by_leaf[job['leaf']] += 1
            by_ctype[job['ctype']] += 1
            by_depth[len(rec['hist']) - 1] += 1
            a = _last_action(rec)
            if a:
                by_action[a] += 1
            for n in r['notes']:
                notes[n] += 1
            for f in r['findings']:
                if f['prop'] not in props:
                    rep.extra.setdefault('other_property_findings', {}).setdefault(f['sig'], 0)
                    rep.extra['other_property_findings'][f['sig']] += 1
                    continue
                if ':unsupported-raises:' in f['sig']:
                    # the property explicitly allows this: "where an operation is not supported it raises rather
                    # than returning a different function" - recorded, never an alarm
                    d = rep.extra.setdefault('raises_where_numpy_gives_a_value', {})
                    d[f['sig']] = d.get(f['sig'], 0) + 1
                    continue
                fcount[f['sig']] += 1
                if fcount[f['sig']] <= 3:
                    f = dict(f, word=r['key'])
                    rep.violation(f['sig'], f)
            if nsamples < 6 and len(rec['hist']) == run_['depth'] + 1 and rec['status'] == 'ok' and r['outcome'] == 'equal':
                nsamples += 1
                rep.sample(dict(suite='ArrayAlgebra', run=run_['name'], word=r['key'], x_shape=rec['xs'], z_shape=rec['zs'] if rec['hz'] else None,
                                leaf_kind=job['leaf'], constant_type=job['ctype'], expected_shape=rec['sh'],
                                expected_content_first_element=rec['d'][0] if rec['d'] else None,
                                columns='coefficient of x_i*z_j at position i*(nr+1)+j, nr=%d' % rec['nr']))
        del jobs, results

    # ---- vacuity of the replayed sample
    need = dict(outcome=['equal', 'raise-nperr', 'raise-unsup'], kind=['D', 'R', 'M'])
    miss = [o for o in need['outcome'] if outcomes[o] == 0] + [k for k in need['kind'] if by_kind[k] == 0] + \
        [a for a in ACTIONS if by_action[a] == 0] + [c for c in CTYPES if by_ctype[c] == 0] + \
        [lf for lf in LEAVES_AFFINE if by_leaf[lf] == 0]
    if miss:
        raise tlc.MachineryError('ArrayAlgebra replay: empty classes %s' % miss)
    rep.exhaustive = exhaustive
    rep.extra['arrayalgebra_replays'] = total_jobs
    rep.extra['outcomes'] = dict(outcomes)
    rep.extra['by_expression_kind'] = dict(by_kind)
    rep.extra['by_leaf_kind'] = dict(by_leaf)
    rep.extra['by_constant_type'] = dict(by_ctype)
    rep.extra['by_last_action'] = dict(by_action)
    rep.extra['by_depth'] = {str(k): v for k, v in sorted(by_depth.items())}
    rep.extra['finding_counts'] = dict(fcount)
    rep.extra['recorded_not_alarmed'] = {k: v for k, v in notes.most_common(40)}
    for n, v in notes.most_common(8):
        rep.note('%d x %s' % (v, n))
    return total_jobs
