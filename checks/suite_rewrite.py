"""Suite: Rewrite.tla  (C15 equivalent ways of writing a model give the same optimum).

1. TLC, simulation mode, on large program families of the RoSem shape (1-row and 2-row programs, array
   rows, six polytope sets): random words over the rewrite alphabet; DenotInvariant (the denotation of
   the PRESENTED text equals RoSem's GridOpt of the program) is checked on every presentation visited and
   every presentation is exported with the syntax to render.  One walk = one orbit: consecutive members
   differ in exactly one rewrite.
2. TLC, breadth-first with VIEW, on a feature-covering sample of those programs: DenotInvariant on EVERY
   presentation reachable by <= 3 (quick) / <= 4 (thorough) rewrites; every rewrite action must be taken.
3. Every orbit member is rendered through rsome.ro / rsome.dro and solved (one solver per orbit, rotating).
   Relational verdict along the edges of the orbit tree (same optimal value, same solvability, nobody
   raises) + the relation with TLC's GridOpt as in C02.  A suspected value/solvability difference must be
   reproduced with a second solver to count.
"""
import json
import os
import random
import threading
import time

from harness import tlc, core
from harness.tlc import tla

SETS = [1, 2, 3, 7, 9, 16, 18, 37]
ROW_T = list(range(1, 13))
Y_T = {6, 7, 8, 10}                      # templates using the decision rule
OBJ_DET = [21, 22]
OBJ_ROB = [23, 24, 25, 26]
XB = 2
ACTIONS = ['FlipObj', 'MoveObj', 'SwapDecl', 'SwapStmt', 'Respell', 'Rescale', 'SplitEq', 'ArrLoop', 'MoveTerms', 'MoveConst',
           'RespellBounds', 'RescaleBounds', 'RespellSet', 'RespellSetBounds', 'SwitchFront']
ALPHABET = dict(Scales={(1, 1), (2, 1), (1, 2), (3, 1)},
                SetSpellings={'list', 'args', 'tuple', 'gen', 'mixed', 'nested'},
                BoundSpellings={'arr', 'ent', 'lin', 'inf', 'abs'},
                Fronts={'ro', 'dro', 'droE'})
SOLVERS = ('def', 'ort', 'grb')
SECOND = {'def': 'grb', 'ort': 'def', 'grb': 'def'}
NCONS = {1: 2, 2: 2, 3: 2, 7: 1, 9: 2, 16: 2, 18: 4, 37: 4}       # Rewrite.NCons


# --------------------------------------------------------------------------------------------------
# replay pool with a per-job time limit.  SciPy's HiGHS does not return from the presolve of some
# infeasible integer programs of this family (a solver-side loop, reproduced on the base presentation,
# no rsome frame involved), and the default solver interface accepts no time limit: a job that exceeds
# the limit is recorded as 'hang' (never a verdict) and its worker is replaced.

def _guarded_worker(conn, repo):
    core._worker_init(repo, True)
    while True:
        msg = conn.recv()
        if msg is None:
            core._cov_tick(force=True)
            break
        conn.send(core._call(msg))
        core._cov_tick(force=True) if os.environ.get('VERIF_COVERAGE_DIR') else None


def guarded_pmap(modname, fname, jobs, limit, workers=None):
    import multiprocessing as mp
    from multiprocessing.connection import wait
    jobs = list(jobs)
    if not jobs:
        return []
    ctx = mp.get_context('spawn')
    n = min(workers or min(16, os.cpu_count() or 4), len(jobs))
    results = [None] * len(jobs)
    todo = list(range(len(jobs)))[::-1]
    slots = {}

    def spawn():
        a, b = ctx.Pipe()
        p = ctx.Process(target=_guarded_worker, args=(b, core.repo_path()), daemon=True)
        p.start()
        b.close()
        slots[a] = [p, None, 0.0]
        return a

    def feed(c):
        if todo:
            k = todo.pop()
            slots[c][1], slots[c][2] = k, time.time()
            c.send((modname, fname, jobs[k]))
        else:
            slots[c][1] = None

    try:
        for _ in range(n):
            feed(spawn())
        while any(s[1] is not None for s in slots.values()):
            busy = [c for c, s in slots.items() if s[1] is not None]
            for c in wait(busy, timeout=1.0):
                try:
                    r = c.recv()
                except EOFError:
                    k = slots[c][1]
                    results[k] = dict(machinery_error='replay worker died', job=jobs[k], tb='')
                    slots.pop(c)[0].join(1)
                    feed(spawn())
                    continue
                results[slots[c][1]] = r
                feed(c)
            now = time.time()
            for c in [c for c, s in slots.items() if s[1] is not None and now - s[2] > limit]:
                p, k, t0 = slots.pop(c)
                p.terminate()
                p.join(5)
                c.close()
                results[k] = dict(tid=jobs[k].get('tid'), solver=jobs[k].get('solver'), status='hang', limit_s=limit)
                feed(spawn())
    finally:
        for c, (p, k, t0) in slots.items():
            try:
                c.send(None)
            except Exception:
                pass
        for c, (p, k, t0) in slots.items():
            p.join(2)
            if p.is_alive():
                p.terminate()
    return results


def pkey(p):
    return json.dumps(p, sort_keys=True)


def hkey(hist):
    return tuple((a['act'], a['i'], a['s']) for a in hist)


def constants(fam, maxword, proglist=None, acts=None, alphabet=None):
    d = dict(XB=tla(XB), YB='1', Results='{}', SC='1', MaxWord=tla(maxword), Acts=tla(set(acts or ACTIONS)))
    for k in ('SetIds', 'RowTemplates', 'ObjTemplates', 'Masks', 'IntChoices', 'Senses', 'OSenses', 'ArrTemplates', 'MaxRows'):
        d[k] = tla(fam[k])
    for k, v in dict(ALPHABET, **(alphabet or {})).items():
        d[k] = tla(v)
    d['ProgList'] = '{' + ', '.join(tla(p) for p in proglist) + '}' if proglist else '{}'
    return d


def families(tier, rng):
    """Program families walked in simulation mode: (constants, walks)."""
    def arr_pairs(ts, n):
        prs = [(a, b) for a in ts for b in ts if a != b]
        rng.shuffle(prs)
        return set(prs[:n])

    if tier == 'quick':
        # a seeded sub-family (TLC enumerates every initial state before it walks)
        rt1 = rng.sample([t for t in ROW_T if t not in Y_T], 4) + rng.sample(sorted(Y_T), 2)
        one = dict(SetIds=set(SETS), RowTemplates=set(rt1), ObjTemplates=set(rng.sample(OBJ_DET, 1) + rng.sample(OBJ_ROB, 3)), MaxRows=1,
                   Masks={'none', rng.choice(['m0', 'm1']), rng.choice(['m2', 'm12'])}, IntChoices={True, False}, Senses={'le', 'ge', 'eq'},
                   OSenses={'min', 'max', 'minmax', 'maxmin'}, ArrTemplates=arr_pairs(rt1, 4))
    else:
        one = dict(SetIds=set(SETS), RowTemplates=set(ROW_T), ObjTemplates=set(OBJ_DET + OBJ_ROB), MaxRows=1,
                   Masks={'none', 'm0', 'm1', 'm2', 'm12'}, IntChoices={True, False}, Senses={'le', 'ge', 'eq'},
                   OSenses={'min', 'max', 'minmax', 'maxmin'}, ArrTemplates=arr_pairs(ROW_T, 10))
    rt = rng.sample([t for t in ROW_T if t not in Y_T], 2 if tier == 'quick' else 3) + [rng.choice(sorted(Y_T))]
    two = dict(SetIds=set(rng.sample(SETS, 3)), RowTemplates=set(rt), ObjTemplates={rng.choice(OBJ_DET)} | set(rng.sample(OBJ_ROB, 2)),
               MaxRows=2, Masks={'none', rng.choice(['m1', 'm2', 'm12'])}, IntChoices={True, False},
               Senses={'le', 'ge', 'eq'}, OSenses={'min', 'minmax', 'maxmin'}, ArrTemplates=arr_pairs(rt, 2))
    walks = {'quick': (520, 260, 40, 60), 'thorough': (8000, 4000, 400, 800)}[tier]
    # focused walks: the front end and the set spelling only (nested lists exist in the dro front ends only,
    # two specific steps away from the base presentation)
    focus = dict(acts=['SwitchFront', 'RespellSet'], alphabet=dict(SetSpellings={'list', 'nested', 'mixed'}))
    small = dict(one, RowTemplates=set(sorted(one['RowTemplates'])[:3]), ArrTemplates=set(sorted(one['ArrTemplates'])[:2]),
                 Masks={'none', 'm1'}, SetIds=set(rng.sample(SETS, 3)))
    # focused family: equalities on decision-rule rows (the rule-only template 6 gives a constraint that is robust
    # only through the adaptation: DecLinConstr in the dro front end), rare in the uniform walks
    eqy = dict(one, RowTemplates={6, 10, rng.choice([7, 8])}, ArrTemplates={(6, 10), (10, 6)}, Senses={'eq'},
               Masks={'m1', 'm2', 'm12'}, IntChoices={False})
    return [('1row', one, walks[0], 2, {}), ('2row', two, walks[1], 1, {}), ('1row-front+set', small, walks[2], 1, focus),
            ('1row-eq+rule', eqy, walks[3], 1, dict(acts=['SwitchFront', 'SplitEq', 'Respell', 'ArrLoop', 'MoveTerms', 'Rescale']))]


def simulate(rep, tier, sc, maxword):
    rng = random.Random(rep.seed)
    fams = families(tier, rng)
    out = [None] * len(fams)

    sem = threading.BoundedSemaphore(4)          # at most 4 TLC workers in total

    def one(k):
        name, fam, walks, workers, kw = fams[k]
        for _ in range(workers):
            sem.acquire()
        try:
            _one(k, name, fam, walks, workers, kw)
        finally:
            for _ in range(workers):
                sem.release()

    def _one(k, name, fam, walks, workers, kw):
        model = tlc.make_model('Rewrite', sc, constants=constants(fam, maxword, **kw), spec='RwSpec',
                               invariants=['DenotInvariant', 'Supported', 'NestedRoIllFormed', 'RwExport'])
        out[k] = tlc.run_tlc(model, sc, workers=workers, coverage=False, simulate='num=%d' % (walks // workers),
                             depth=maxword + 2, seed=rep.seed + 17 * k, timeout=3000)

    th = [threading.Thread(target=one, args=(k,)) for k in range(len(fams))]
    for t in th:
        t.start()
        time.sleep(0.05)                         # families acquire their workers in list order
    for t in th:
        t.join()
    if any(o is None for o in out):
        raise tlc.MachineryError('Rewrite simulation: a TLC run did not return')
    recs = {}
    for (name, fam, walks, workers, kw), res in zip(fams, out):
        tlc.require_ok(res, 'Rewrite simulation ' + name, allow_violation=True)
        # count the presentations walked (checked + exported), not the initial states TLC enumerates first
        family = res['distinct'] - len(res['exports'])
        res = dict(res, distinct=len(res['exports']), states=len(res['exports']))
        rep.extra.setdefault('rewrite', {}).setdefault('family_sizes', {})[name] = family
        rep.add_tlc('Rewrite.simulate[%s, words<=%d, %d walks]' % (name, maxword, walks), res,
                    note='random words; DenotInvariant on every presentation visited; every visited presentation exported')
        if res['violated']:
            raise tlc.MachineryError('Rewrite.tla: %s violated in simulation (%s): the rewrite table is not meaning-preserving; '
                                     'the orbits cannot be used as an oracle\n%s' % (res['violated'], name, '\n'.join(res['cex'][:60])))
        if not res['exports']:
            raise tlc.MachineryError('Rewrite simulation %s exported nothing (log %s)' % (name, res['log']))
        for r in res['exports']:
            recs.setdefault((pkey(r['prog']), hkey(r['hist'])), r)
    return recs


def features(rec):
    p = rec['prog']
    f = {('mask', p['mask']), ('xint', p['xint']), ('osense', p['osense']), ('dset', p['dset']), ('nrows', len(p['rows'])),
         ('feasible', rec['gridFeasible'])}
    for r in p['rows']:
        f.add(('sense', r['sense']))
        f.add(('arr', len(r['ts']) == 2))
        f.add(('ownset', r['set'] != 0))
        if len(r['ts']) == 2:
            f.add(('arr-sense', r['sense']))
    return f


def bfs_cost(rec):
    p = rec['prog']
    y = {'none': 1, 'm0': 3, 'm1': 7, 'm2': 7, 'm12': 20}[p['mask']]
    return y * (1 if len(p['rows']) == 1 else 3)


def pick_bfs_programs(roots, tier, rng):
    """Feature-covering sample of programs for the exhaustive run, within a cost budget."""
    budget = {'quick': 18, 'thorough': 80}[tier]
    roots = sorted(roots, key=lambda r: pkey(r['prog']))
    rng.shuffle(roots)
    roots.sort(key=bfs_cost)
    chosen, seen, spent = [], set(), 0
    for pass_new in (True, False):
        for r in roots:
            if r in chosen:
                continue
            c = bfs_cost(r)
            if spent + c > budget:
                continue
            f = features(r)
            if pass_new and not (f - seen):
                continue
            if not pass_new and not r['gridFeasible']:
                continue
            chosen.append(r)
            seen |= f
            spent += c
    return chosen


def bfs(rep, tier, sc, roots, maxword):
    rng = random.Random(rep.seed + 1)
    chosen = pick_bfs_programs(roots, tier, rng)
    if not chosen:
        raise tlc.MachineryError('Rewrite: no program selected for the exhaustive run')
    fam = dict(SetIds=set(SETS), RowTemplates=set(ROW_T), ObjTemplates=set(OBJ_DET + OBJ_ROB), MaxRows=2,
               Masks={'none'}, IntChoices={False}, Senses={'le'}, OSenses={'min'},
               ArrTemplates={tuple(r['ts']) for c in chosen for r in c['prog']['rows'] if len(r['ts']) == 2} or {(1, 2)})
    model = tlc.make_model('Rewrite', sc, constants=constants(fam, maxword, [c['prog'] for c in chosen]), spec='RwSpec',
                           view='RwView', invariants=['DenotInvariant', 'Supported', 'NestedRoIllFormed', 'SplitSound', 'ProgOK'])
    res = tlc.run_tlc(model, sc, workers=4, coverage=True, timeout=3000)
    tlc.require_ok(res, 'Rewrite exhaustive', allow_violation=True)
    rep.add_tlc('Rewrite.exhaustive[%d programs, words<=%d]' % (len(chosen), maxword), res,
                note='every presentation reachable by <=%d rewrites (VIEW identifies presentations reached by different words)' % maxword)
    if res['violated']:
        raise tlc.MachineryError('Rewrite.tla: %s violated: the rewrite table is not meaning-preserving\n%s'
                                 % (res['violated'], '\n'.join(res['cex'][:60])))
    missing = [a for a in ACTIONS + ['Start'] if res['coverage'].get(a, [0])[0] == 0]
    if missing:
        raise tlc.MachineryError('Rewrite.tla: actions never taken in the exhaustive run: %s' % missing)
    rep.extra.setdefault('rewrite', {})['exhaustive_programs'] = [c['prog'] for c in chosen][:40]
    return res


# --------------------------------------------------------------------------------------------------
# orbits

def build_orbits(recs, tier, rng):
    """Group the exported presentations by program; an orbit is the tree of words walked from the base
    presentation.  Infeasible programs are thinned (they only exercise 'same solvability')."""
    by = {}
    for (pk, hk), r in recs.items():
        by.setdefault(pk, {})[hk] = r
    orbits = []
    for pk in sorted(by):
        mem = by[pk]
        if () not in mem or len(mem) < 2:
            continue
        # keep only members whose parent is present (complete prefixes)
        keep = {hk: r for hk, r in mem.items() if all(hk[:n] in mem for n in range(len(hk)))}
        orbits.append(dict(pk=pk, members=keep))
    rng.shuffle(orbits)
    feas = [o for o in orbits if o['members'][()]['gridFeasible']]
    infe = [o for o in orbits if not o['members'][()]['gridFeasible']]
    cap = {'quick': 330, 'thorough': 6000}[tier]
    return feas[:cap] + infe[:max(20, cap // 6)]


def pick_solver(o, oi):
    """One solver interface per orbit, rotating.  Integer programs without a feasible grid point are not
    given to SciPy's HiGHS MILP (it does not return from presolve on some of them; the guarded pool is
    the safety net for the rest)."""
    root = o['members'][()]
    if root['prog']['xint'] and not root['gridFeasible']:
        return ('ort', 'grb')[oi % 2]
    return SOLVERS[oi % len(SOLVERS)]


def tolerance(v):
    return 2e-6 * (1 + abs(v))


def rewrite_name(a):
    return a['act'] + (':' + a['s'] if a['s'] else '')


def edge_detail(rec, a):
    p = rec['prog']
    front = rec['pres']['front']
    kind = 'ldr' if p['mask'] != 'none' else ('int' if p['xint'] else 'cont')
    if a['act'] in ('Respell', 'Rescale', 'SplitEq', 'ArrLoop', 'MoveTerms', 'MoveConst'):
        r = p['rows'][a['i'] - 1]
        ctx = '%s-%s' % (r['sense'], 'arr' if len(r['ts']) == 2 else 'row')
    elif a['act'] in ('FlipObj', 'MoveObj'):
        ctx = p['osense']
    else:
        ctx = 'rows%d' % len(p['rows'])
    return '%s:%s:%s' % (front, kind, ctx)


def klass(res):
    if res['status'] == 'ok':
        return 'ok'
    if res['status'] == 'fail':
        return 'fail'
    if res['status'] == 'hang':
        return 'hang'
    return 'exc'


def compare_edges(orbit, results):
    """Findings along tree edges: list of dict(kind, edge=(parent hk, child hk), ...)."""
    out = []
    inconclusive = 0
    mem = orbit['members']
    for hk in sorted(mem, key=lambda h: (len(h), h)):
        if not hk:
            continue
        par = hk[:-1]
        rp, rc = results[par], results[hk]
        kp, kc = klass(rp), klass(rc)
        a = mem[hk]['hist'][-1]
        if 'hang' in (kp, kc):
            continue                      # a solver that does not return cannot be judged
        if kp == 'ok' and kc == 'ok':
            d = abs(rp['obj'] - rc['obj'])
            tol = tolerance(max(abs(rp['obj']), abs(rc['obj'])))
            if d > 10 * tol:
                out.append(dict(kind='value-differs', par=par, child=hk, act=a, diff=d))
            elif d > tol:
                inconclusive += 1
        elif 'exc' in (kp, kc):
            if kp != kc:
                out.append(dict(kind='member-raises', par=par, child=hk, act=a, raised='child' if kc == 'exc' else 'parent'))
        elif kp != kc:
            out.append(dict(kind='solvability-differs', par=par, child=hk, act=a))
    return out, inconclusive


def grid_relation(rec, res):
    """None when the C02 relation with TLC's GridOpt holds, else (kind, margin_ok)."""
    p = rec['prog']
    if res['status'] in ('exception', 'hang'):
        return None
    exact = p['xint'] and p['mask'] == 'none'
    gf, go = rec['gridFeasible'], rec['gridOpt']
    if res['status'] == 'fail':
        return ('feasible-model-not-solved', True) if gf else None
    if exact and not gf:
        return ('infeasible-model-solved', True)
    if not gf:
        return None
    v = res['obj']
    tol = tolerance(go)
    minim = p['osense'] in ('min', 'minmax')
    worse = (v - go) if minim else (go - v)
    if worse > tol:
        return ('worse-than-grid-point', worse > 10 * tol)
    if exact and -worse > tol:
        return ('integer-optimum-better-than-grid', -worse > 10 * tol)
    return None


def run(rep, tier, props):
    maxword = {'quick': 3, 'thorough': 5}[tier]
    bfsword = {'quick': 3, 'thorough': 4}[tier]
    rng = random.Random(rep.seed + 2)
    from harness import ro_catalogue
    with tlc.Scratch() as sc:
        recs = simulate(rep, tier, sc, maxword)
        roots = [r for (pk, hk), r in recs.items() if hk == ()]
        # the exhaustive run proceeds while the orbits are replayed
        box = {}

        def run_bfs():
            try:
                box['res'] = bfs(rep, tier, sc, roots, bfsword)
            except BaseException as e:      # re-raised in the main thread
                box['err'] = e

        th = threading.Thread(target=run_bfs)
        th.start()
        try:
            verts = {}
            for r in roots:
                for e in r['verts']:
                    verts[str(e['id'])] = e['v']
            try:
                ro_catalogue.check_catalogue({k: v for k, v in verts.items() if v}, {})
            except AssertionError as e:
                raise tlc.MachineryError('CatalogueSound failed: %s' % e)
            orbits = build_orbits(recs, tier, rng)
            if len(orbits) < 20:
                raise tlc.MachineryError('Rewrite: only %d orbits exported' % len(orbits))
            jobs = [dict(kind='sizes', tid=-1, sets=SETS, solver='def'), dict(kind='unsupported', tid=-2, solver='def')]
            index = []
            for oi, o in enumerate(orbits):
                o['solver'] = pick_solver(o, oi)
                for hk in sorted(o['members'], key=lambda h: (len(h), h)):
                    index.append((oi, hk))
                    jobs.append(dict(kind='member', tid=len(index) - 1, rec=o['members'][hk], solver=o['solver']))
            limit = {'quick': 20, 'thorough': 40}[tier]
            results = guarded_pmap('harness.replay_rewrite', 'replay', jobs, limit)
            bad = core.machinery_failures(results)
            if bad:
                raise tlc.MachineryError('replay_rewrite failed: %s\n%s' % (bad[0]['machinery_error'], bad[0].get('tb', '')))
            sizes, unsup = results[0], results[1]
            if {int(k): v for k, v in sizes.items()} != NCONS:
                raise tlc.MachineryError('Rewrite.NCons %s does not match harness/ro_catalogue.py %s' % (NCONS, sizes))
            per_orbit = [dict() for _ in orbits]
            for (oi, hk), r in zip(index, results[2:]):
                per_orbit[oi][hk] = r
            # ---- edges; suspected value / solvability differences are re-solved with a second solver
            suspects = {}
            inconc = 0
            for oi, o in enumerate(orbits):
                f, n = compare_edges(o, per_orbit[oi])
                inconc += n
                if f:
                    suspects[oi] = f
            confirm_jobs, cindex = [], []
            for oi, f in suspects.items():
                if any(x['kind'] != 'member-raises' for x in f):
                    o = orbits[oi]
                    for hk in sorted(o['members'], key=lambda h: (len(h), h)):
                        cindex.append((oi, hk))
                        confirm_jobs.append(dict(kind='member', tid=len(cindex) - 1, rec=o['members'][hk], solver=SECOND[o['solver']]))
            second = {}
            if confirm_jobs:
                cres = guarded_pmap('harness.replay_rewrite', 'replay', confirm_jobs, limit)
                bad = core.machinery_failures(cres)
                if bad:
                    raise tlc.MachineryError('replay_rewrite (second solver) failed: %s\n%s' % (bad[0]['machinery_error'], bad[0].get('tb', '')))
                for (oi, hk), r in zip(cindex, cres):
                    second.setdefault(oi, {})[hk] = r
        finally:
            th.join()
        if 'err' in box:
            raise box['err']

    # ---- collate
    stats = dict(orbits=len(orbits), members=len(index), ok=0, fail=0, exception=0, hang=0, feasible_orbits=0,
                 second_solver_members=len(confirm_jobs), unconfirmed_suspects=0)
    words = {a: 0 for a in ACTIONS}
    cover = dict(front={}, bsp={}, ssp={}, osp={}, rsp={}, scale={}, solver={})

    def bump(d, k):
        d[k] = d.get(k, 0) + 1

    for oi, o in enumerate(orbits):
        if o['members'][()]['gridFeasible']:
            stats['feasible_orbits'] += 1
        for hk, rec in o['members'].items():
            r = per_orbit[oi][hk]
            rep.count(key=(o['pk'], pkey(rec['pres']), o['solver']))
            rep.traces_validated += 1
            stats[r['status']] += 1
            pr = rec['pres']
            bump(cover['front'], pr['front']); bump(cover['bsp'], pr['bsp']); bump(cover['ssp'], pr['ssp'])
            bump(cover['osp'], pr['osp']); bump(cover['solver'], o['solver'])
            for s in pr['rsp']:
                bump(cover['rsp'], s)
            for k in pr['rsc']:
                bump(cover['scale'], '%d/%d' % tuple(k))
            if hk:
                words[rec['hist'][-1]['act']] += 1

    def detail(oi, hk, par=None, **kw):
        o = orbits[oi]
        rec = o['members'][hk]
        d = dict(program=rec['prog'], word=rec['hist'], presentation=rec['pres'], model=rec['model'], solver=o['solver'],
                 result=per_orbit[oi][hk], gridOpt=rec['gridOpt'], gridFeasible=rec['gridFeasible'],
                 orbit=[dict(word=[rewrite_name(a) for a in o['members'][h]['hist']], result={k: v for k, v in per_orbit[oi][h].items() if k != 'tid'})
                        for h in sorted(o['members'], key=lambda h: (len(h), h))])
        if par is not None:
            d['neighbour'] = dict(word=o['members'][par]['hist'], presentation=o['members'][par]['pres'], result=per_orbit[oi][par])
        d.update(kw)
        return d

    for oi, fs in sorted(suspects.items()):
        o = orbits[oi]
        for f in fs:
            rec = o['members'][f['child']]
            name = rewrite_name(f['act'])
            det = edge_detail(rec, f['act'])
            if f['kind'] == 'member-raises':
                # named by the rewrite that separates the raising member from its neighbour and by the
                # presentation class of the member that RAISES
                who = f['child'] if f['raised'] == 'child' else f['par']
                r = per_orbit[oi][who]
                det = edge_detail(o['members'][who], f['act'])
                sig = 'C15:member-raises:%s:%s:%s' % (name if f['raised'] == 'child' else name + '(undone)', det, r['exc'].split(':')[0])
                _emit(rep, dict(sig=sig, prop='C15', what='a member of the orbit raises (%s at %s, phase %s) where the neighbouring presentation does not'
                                % (r['exc'], r.get('where'), r.get('phase')), **detail(oi, f['child'], f['par'])), props)
                continue
            # value / solvability: must persist with the second solver
            s2 = second.get(oi, {})
            rp, rc = s2.get(f['par']), s2.get(f['child'])
            confirmed = False
            if rp is not None and rc is not None:
                if f['kind'] == 'value-differs':
                    confirmed = (klass(rp) == 'ok' and klass(rc) == 'ok'
                                 and abs(rp['obj'] - rc['obj']) > 10 * tolerance(max(abs(rp['obj']), abs(rc['obj']))))
                else:
                    confirmed = klass(rp) != klass(rc) and {klass(rp), klass(rc)} == {'ok', 'fail'}
            if not confirmed:
                stats['unconfirmed_suspects'] += 1
                rep.inconclusive += 1
                rep.note('suspected %s across %s not reproduced with solver %s (orbit solver %s): %s'
                         % (f['kind'], name, SECOND[o['solver']], o['solver'], json.dumps(rec['prog'], sort_keys=True)))
                continue
            if f['kind'] == 'value-differs':
                what = ('two presentations differing in ONE rewrite (%s) report optimal values %.9g and %.9g (both solvers agree); TLC: both denote '
                        'the same program' % (name, per_orbit[oi][f['par']]['obj'], per_orbit[oi][f['child']]['obj']))
            else:
                what = ('two presentations differing in ONE rewrite (%s): one is solved, the other reported without solution (both solvers agree)' % name)
            _emit(rep, dict(sig='C15:%s:%s:%s' % (f['kind'], name, det), prop='C15', what=what,
                            second_solver=dict(parent=rp, child=rc), **detail(oi, f['child'], f['par'])), props)

    # ---- an orbit whose base presentation raises (and nobody disagrees) is not a rewrite matter
    for oi, o in enumerate(orbits):
        r0 = per_orbit[oi][()]
        if r0['status'] == 'exception' and oi not in suspects:
            _emit(rep, dict(sig='C01:unexpected-exception:%s:%s' % (r0['phase'], r0['exc'].split(':')[0]), prop='C01',
                            what='every presentation of the program raises: ' + r0['exc'], **detail(oi, ())), props)

    # ---- relation with the grid optimum (as C02): attributed to the rewrite at which it starts to fail
    for oi, o in enumerate(orbits):
        mem = o['members']
        rel = {hk: grid_relation(mem[hk], per_orbit[oi][hk]) for hk in mem}
        for hk in sorted(mem, key=lambda h: (len(h), h)):
            g = rel[hk]
            if g is None:
                continue
            kind, margin = g
            if not margin:
                rep.inconclusive += 1
                continue
            if not hk or rel[hk[:-1]] is not None:
                if not hk:
                    _emit(rep, dict(sig='C02:%s:base-presentation' % kind, prop='C02', what='the base presentation violates the relation with the exact grid optimum',
                                    **detail(oi, hk)), props)
                continue
            a = mem[hk]['hist'][-1]
            _emit(rep, dict(sig='C15:grid-relation:%s:%s:%s' % (kind, rewrite_name(a), edge_detail(mem[hk], a)), prop='C15',
                            what='after this rewrite the reported optimum violates the relation with the exact grid optimum computed by TLC (%s), before it did not' % kind,
                            **detail(oi, hk, hk[:-1])), props)

    rep.inconclusive += inconc
    if unsup.get('outcome') != 'raises':
        rep.note('drift: nested lists in ro.Model.minmax are now accepted (%s); Rewrite.tla names this spelling unsupported' % (unsup,))
    stats['ro_nested_lists'] = unsup
    rep.extra.setdefault('rewrite', {}).update(stats=stats, rewrites_replayed=words, presentation_choices_replayed=cover)
    for oi in range(min(3, len(orbits))):
        o = orbits[oi]
        rep.sample(dict(suite='Rewrite', program=o['members'][()]['prog'], gridOpt=o['members'][()]['gridOpt'], solver=o['solver'],
                        orbit=[dict(word=[rewrite_name(a) for a in o['members'][h]['hist']], status=per_orbit[oi][h]['status'], value=per_orbit[oi][h].get('obj'))
                               for h in sorted(o['members'], key=lambda h: (len(h), h))]))
    # ---- vacuity
    missing = [a for a, n in words.items() if n == 0]
    if missing:
        raise tlc.MachineryError('Rewrite: rewrites never replayed: %s' % missing)
    for dim, want in (('front', ALPHABET['Fronts']), ('bsp', ALPHABET['BoundSpellings']), ('ssp', ALPHABET['SetSpellings']),
                      ('osp', {'direct', 'negated'}), ('rsp', {'dir', 'neg', 'flip'})):
        lack = set(want) - set(cover[dim])
        if lack:
            raise tlc.MachineryError('Rewrite: presentation choices never replayed: %s %s' % (dim, sorted(lack)))
    if stats['ok'] < stats['members'] // 4 or stats['fail'] == 0:
        raise tlc.MachineryError('Rewrite: outcome classes not covered: %s' % stats)
    return orbits, per_orbit


def _emit(rep, f, props):
    if f['prop'] in props:
        rep.violation(f['sig'], f)
    else:
        d = rep.extra.setdefault('other_property_findings', {})
        d[f['sig']] = d.get(f['sig'], 0) + 1
