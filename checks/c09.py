"""C09 - see DESIGN.md 5/C09 (Lifecycle.tla)."""
from harness import core
from checks import suite_lifecycle, suite_drolifecycle, suite_sharing, suite_incremental, suite_interleave, suite_declorder


def main(tier):
    rep = core.Report('C09', tier, level='model_checking')
    rep.rule = ('TLC checks the life-cycle invariants on every interleaving of set definitions, st, objective, do_math(primal/dual), '
                'solve, soc_solve, second-model actions and misuses within the constants; complete histories (all short ones, long ones by '
                '-simulate) are executed on real rsome.ro models; distinct = distinct history; every history executes real API calls, the '
                'non-trivial ones (counted separately) reach a solve whose per-constraint values are compared with the from-scratch build '
                'of the declared sets')
    rep.assumptions = ['TLC 1.8', 'ECOS solves the small conic programs to 1e-5 (5e-4 with p-norm / exp items)',
                       'oracle = the same library on a fresh single-constraint model (relational, as the property is stated)']
    suite_lifecycle.run(rep, tier, props=('C09',))
    suite_drolifecycle.run(rep, tier, props=('C09',))
    suite_sharing.run(rep, tier, props=('C09',))
    # solve / extend / solve again versus a build from scratch on the deterministic model classes and ro
    suite_incremental.run(rep, tier, props=('C09',))
    # every legal order of declaring the parts of one ro model (DeclOrder.tla)
    suite_declorder.run(rep, tier, props=('C09',))
    if tier == 'thorough':
        # two models of any classes under every interleaving (Interleave.tla); in the quick tier this suite runs under C17
        suite_interleave.run(rep, tier, props=('C09',))
    return rep.finish()


def replay(path):
    from checks import replay_file
    return replay_file.run(path)
