"""C02 - the robust counterpart is exact."""
from harness import core
from checks import suite_rosem


def main(tier):
    rep = core.Report('C02', tier, level='model_checking')
    rep.rule = ('TLC enumerates robust programs of the RoSem family (set catalogue x row templates x senses x decision-rule '
                'masks x objective kinds) with their exact grid optimum; each is built and solved through rsome.ro; the returned '
                'x, decision-rule coefficients and objective go back to TLC, which evaluates every robust row at EVERY vertex of '
                'its set (balls: exactly in squares) and the objective bound; distinct = distinct (program, solver); every case '
                'is a real build+solve, none is trivial')
    rep.assumptions = ['TLC 1.8', 'set concretisation harness/ro_catalogue.py (checked against the vertex lists each run)',
                       'returned values rounded to 1e-5 (1e-3 for ball sets); tolerance widened by the rounding bound',
                       'solvers as oracles only for their own optimality']
    suite_rosem.run(rep, tier, props=('C02',))
    return rep.finish()


def replay(path):
    from checks import replay_file
    return replay_file.run(path)
