"""Suite: SocApprox.tla  (C18: soc_solve approximates exponential cones and changes nothing else).

1. TLC model-checks the implementation-shaped transcription of GCProg.to_socp:
   a. as the code stands (`qmat = self.qmat; qmat += ...`): InputUntouched is expected to FAIL -
      the counterexample is the prediction that the cached formula is corrupted (DESIGN 7, #3);
   b. the generator run: every layout of <=2 SOC / 1-3 exponential-cone (/ linear) constraints x
      every degree; PrefixPreserved, NoExpLeft, BlockShape, TaylorOrder4 must hold; the expected
      result of every behaviour is exported;
   c. with the cone list copied (the proposed repair) InputUntouched must hold as well.
2. spec -> code: every exported behaviour is replayed into the real to_socp (exact comparison).
3. code -> spec: real models built through ro / dro / gcp are transformed by the real code, the
   recorded (P, L, to_socp(P), P afterwards) are validated by TLC (same module, NRec > 0);
   corrupted copies of accepted records must be rejected (binding demonstration).
4. accuracy: pinned-exponent programs, soc_solve on fresh models vs the closed-form optimum
   (ECOS and Gurobi), error <= 1e-3 and not larger at higher degrees.
"""
import copy
import json
import os
import random
import re

from harness import tlc, core
from harness.tlc import tla
from harness import replay_socapprox as R      # pure-python helpers only; rsome is imported in workers

FLAGS = dict(QmatFixed=True)       # transcription of the repaired code (to_socp copies the cone list)

CONFIGS = {
    'quick':    dict(Degrees={4, 5, 6}, MaxSoc=2, MaxExp=3, MaxLin=0),
    'thorough': dict(Degrees={4, 5, 6, 7, 8}, MaxSoc=2, MaxExp=3, MaxLin=1),
}
CUTS = dict(CutLo=-30, CutHi=60)
GEN_INVARIANTS = ['TypeOK', 'PrefixPreserved', 'NoExpLeft', 'BlockShape', 'TaylorOrder4']

FRONT_ENDS = ('ro', 'gcp', 'dro')
SOLVERS = ('eco', 'grb')
ATOMS_BY_FE = {'ro': R.EXP_ATOMS, 'gcp': R.EXP_ATOMS,
               'dro': tuple(a for a in R.EXP_ATOMS if a != 'kldiv')}     # dro: 'Unsupported constraints.' (named gap)

R_GRID = {'quick': [-4, -3, -2, -1, 0, 1, 2, 3, 4, -3.5, -0.5, 0.25, 2.5],
          'thorough': [-4, -3, -2, -1, 0, 1, 2, 3, 4, -3.9, -3.5, -2.5, -1.5, -0.5, 0.25, 0.5, 1.5, 2.5, 3.5, 3.9]}
Z_GRID = {'quick': [0.5, 2.0], 'thorough': [0.25, 0.5, 2.0, 4.0]}
ACC_DEGREES = {'quick': [4, 5, 6], 'thorough': [4, 5, 6, 7, 8]}
POSITIONS = ('solo', 'first', 'middle', 'last')


def consts(cfg, fixed, recdir='', nrec=0):
    d = dict(Degrees=tla(set(cfg['Degrees'])), MaxSoc=tla(cfg['MaxSoc']), MaxExp=tla(cfg['MaxExp']),
             MaxLin=tla(cfg['MaxLin']), CutLo=tla(CUTS['CutLo']), CutHi=tla(CUTS['CutHi']),
             QmatFixed=tla(bool(fixed)), RecDir=tla(recdir), NRec=tla(nrec))
    return d


def _parse_cex(cex):
    """layout and degree of the behaviour in TLC's counterexample."""
    txt = '\n'.join(cex)
    m1 = re.findall(r'layout = <<(.*?)>>', txt)
    m2 = re.findall(r'/\\ L = (\d+)', txt)
    if not m1 or not m2:
        return None
    return [x.strip().strip('"') for x in m1[-1].split(',') if x.strip()], int(m2[-1])


def model_desc(rec, n):
    """Concretisation of a layout: which front end / atoms / solver realise the exported behaviour."""
    fe = FRONT_ENDS[n % 3]
    atoms = ATOMS_BY_FE[fe]
    items = []
    for pos, kd in enumerate(rec['layout']):
        if kd == 'exp':
            items.append(dict(kind='exp', atom=atoms[(n // 3 + 3 * pos) % len(atoms)], i=(n + pos) % 3))
        elif kd == 'soc':
            items.append(dict(kind='soc', dim=3 if (n + pos) % 2 == 0 else 2))
        else:
            items.append(dict(kind='lin'))
    ints = (n % 5 == 4)
    return dict(fe=fe, items=items, L=rec['L'], solver=SOLVERS[(n // 2) % 2], ints=ints, solve=not ints)


def accuracy_jobs(tier, rng):
    jobs = []
    n = 0
    full = tier == 'thorough'
    for atom in R.ACC_ATOMS:
        zs = Z_GRID[tier] if atom in R.PERSPECTIVE else [1.0]
        for r in R_GRID[tier]:
            if atom == 'softplus_c' and abs(r) > 3.9:
                r = 3.9 if r > 0 else -3.9          # its two cones sit at r - t and -t, t = log(1 + e^r)
            if abs(R.atom_exact(atom, float(r), 1.0)) < 1e-9:
                continue                                   # relative error undefined at a zero optimum
            for z in zs:
                combos = [(fe, pos) for fe in FRONT_ENDS for pos in POSITIONS] if full else \
                    [(FRONT_ENDS[n % 3], POSITIONS[(n // 3) % 4])]
                for fe, pos in combos:
                    if fe == 'dro' and atom == 'kldiv_c':
                        continue
                    jobs.append(dict(kind='accuracy', fe=fe, atom=atom, r=float(r), z=float(z), pos=pos,
                                     degrees=ACC_DEGREES[tier], solvers=list(SOLVERS)))
                n += 1
    return jobs


CORRUPTIONS = ('prefix-lb', 'prefix-sense', 'prefix-qmat', 'prefix-linear', 'block-sense', 'block-cone-index', 'link-to-user-column', 'keep-xmat')


def corrupt(rec, how):
    """A recorded structure with one field flipped; returns (record, what TLC must say)."""
    r = copy.deepcopy(rec)
    P, Q = r['P'], r['Q']
    if how == 'prefix-lb':
        Q['lb'][1] = [7, 1] if Q['lb'][1] != [7, 1] else [8, 1]
        return r, ('prefix', 'lb')
    if how == 'prefix-sense':
        Q['sense'][0] = 1 - Q['sense'][0]
        return r, ('prefix', 'sense')
    if how == 'prefix-qmat':
        if not P['qmat']:
            return None, None
        Q['qmat'][0] = list(reversed(Q['qmat'][0]))
        return r, ('prefix', 'qmat')
    if how == 'prefix-linear':
        Q['lin'][0] = [Q['lin'][0][0], Q['lin'][0][1], [Q['lin'][0][2][0] + 1, Q['lin'][0][2][1]]]
        return r, ('prefix', 'linear')
    if how == 'block-sense':
        Q['sense'][P['nrows']] = 1 - Q['sense'][P['nrows']]
        return r, ('shape', None)
    if how == 'block-cone-index':
        Q['qmat'][-1] = [Q['qmat'][-1][0], Q['qmat'][-1][1], P['ncols'] - 1]
        return r, ('links', None)
    if how == 'link-to-user-column':
        used = {(e[0], e[1]) for e in Q['lin']}
        conecols = {c for x in P['xmat'] for c in x}
        col = next((c for c in range(P['ncols']) if c not in conecols and (P['nrows'], c) not in used), None)
        if col is None:
            return None, None
        Q['lin'].append([P['nrows'], col, [1, 1]])
        Q['lin'].sort()
        return r, ('links', None)
    if how == 'keep-xmat':
        Q['xmat'] = [list(x) for x in P['xmat']]
        return r, ('noexp', None)
    raise ValueError(how)


def run(rep, tier, props):
    rng = random.Random(rep.seed)
    cfg = CONFIGS[tier]
    notes = []
    with tlc.Scratch() as sc:
        # ---------------------------------------------------------------- 1a. the code as it stands
        small = dict(cfg, Degrees={min(cfg['Degrees'])}, MaxLin=0)
        model = tlc.make_model('SocApprox', sc, constants=consts(small, False), invariants=['TypeOK', 'InputUntouched'])
        res_a = tlc.run_tlc(model, sc, workers=1, coverage=False, timeout=900)
        tlc.require_ok(res_a, 'SocApprox faithful/InputUntouched', allow_violation=True)
        rep.add_tlc('SocApprox[QmatFixed=FALSE; InputUntouched]', res_a,
                    note='expected to be violated: prediction of defect #3 (cached formula corrupted by to_socp)')
        if res_a['violated'] != 'InputUntouched':
            raise tlc.MachineryError('SocApprox: InputUntouched is not violated on the transcription of the in-place '
                                     '`qmat +=` (violated=%r): the invariant cannot see the aliasing' % res_a['violated'])
        cex = _parse_cex(res_a['cex'])
        # ---------------------------------------------------------------- 1c. the proposed repair
        model = tlc.make_model('SocApprox', sc, constants=consts(small, True),
                               invariants=GEN_INVARIANTS + ['InputUntouched'])
        res_c = tlc.run_tlc(model, sc, workers=8, coverage=False, timeout=900)
        tlc.require_ok(res_c, 'SocApprox repaired', allow_violation=True)
        rep.add_tlc('SocApprox[QmatFixed=TRUE; all invariants]', res_c, note='transcription with the cone list copied')
        if res_c['violated']:
            raise tlc.MachineryError('SocApprox: %s violated on the transcription with a copied cone list\n%s'
                                     % (res_c['violated'], '\n'.join(res_c['cex'][:40])))
        # ---------------------------------------------------------------- 1b. generator
        invs = GEN_INVARIANTS + (['InputUntouched'] if FLAGS['QmatFixed'] else []) + ['Export']
        model = tlc.make_model('SocApprox', sc, constants=consts(cfg, FLAGS['QmatFixed']), invariants=invs)
        res = tlc.run_tlc(model, sc, workers=12, coverage=True, timeout=2400)
        tlc.require_ok(res, 'SocApprox generator', allow_violation=True)
        rep.add_tlc('SocApprox[generator %s]' % ','.join('%s=%s' % (k, sorted(v) if isinstance(v, set) else v)
                                                          for k, v in cfg.items()), res)
        if res['violated']:
            raise tlc.MachineryError('SocApprox generator: invariant %s violated on the transcription\n%s'
                                     % (res['violated'], '\n'.join(res['cex'][:60])))
        cov = res['coverage']
        for act in ('Call', 'DoApproxCone', 'Return'):
            if cov.get(act, cov.get('Do' + act, [0]))[0] <= 0:
                raise tlc.MachineryError('SocApprox: action %s never taken (coverage %s)' % (act, cov))
        recs = res['exports']
        if not recs:
            raise tlc.MachineryError('SocApprox generator exported nothing')
        recs.sort(key=lambda r: (r['L'], len(r['layout']), r['layout']))
        rep.exhaustive = True

        jobs = []
        for n, r in enumerate(recs):
            jobs.append(dict(kind='abstract', rec=r))
        for n, r in enumerate(recs):
            jobs.append(dict(kind='model', desc=model_desc(r, n)))
        jobs += accuracy_jobs(tier, rng)
        results = core.pmap('harness.replay_socapprox', 'replay', jobs, chunksize=4)
        bad = core.machinery_failures(results)
        if bad:
            raise tlc.MachineryError('replay_socapprox failed: %s\n%s' % (bad[0]['machinery_error'], bad[0].get('tb', '')))

        # ---------------------------------------------------------------- 3. code -> spec
        to_validate = []            # (job index, record, expectation)
        for j, (job, r) in enumerate(zip(jobs, results)):
            if r.get('record') is not None:
                to_validate.append((j, r['record'], None))
        genuine = len(to_validate)
        pool = [x for x in to_validate if jobs[x[0]]['kind'] == 'model']
        ncorrupt = 0
        for c, how in enumerate(CORRUPTIONS * (1 if tier == 'quick' else 3)):
            if not pool:
                break
            j, record, _ = pool[(c * 7) % len(pool)]
            bad_rec, expect = corrupt(record, how)
            if bad_rec is not None:
                to_validate.append((j, bad_rec, (how, expect)))
                ncorrupt += 1
        verdicts = {}
        if to_validate:
            recdir = os.path.join(sc, 'recorded')
            os.makedirs(recdir)
            for t, x in enumerate(to_validate, 1):
                with open(os.path.join(recdir, 'rec_%d.json' % t), 'w') as f:
                    json.dump(x[1], f)
            vinv = GEN_INVARIANTS + (['InputUntouched'] if FLAGS['QmatFixed'] else []) + ['ExportV']
            model = tlc.make_model('SocApprox', sc, constants=consts(cfg, FLAGS['QmatFixed'], recdir, len(to_validate)),
                                   invariants=vinv)
            res_v = tlc.run_tlc(model, sc, workers=12, coverage=False, timeout=2400)
            tlc.require_ok(res_v, 'SocApprox validation', allow_violation=True)
            rep.add_tlc('SocApprox[validation of %d recorded structures]' % len(to_validate), res_v)
            if res_v['violated']:
                # the transcription, run on a program recorded from the real code, breaks an ideal
                # invariant: a prediction about that input; the recorded output is judged below
                notes.append('validation run: invariant %s violated on a recorded input' % res_v['violated'])
                raise tlc.MachineryError('SocApprox validation: invariant %s violated on the transcription for a recorded program\n%s'
                                         % (res_v['violated'], '\n'.join(res_v['cex'][:30])))
            for v in res_v['exports']:
                verdicts[v['tid']] = v
            if len(verdicts) != len(to_validate):
                raise tlc.MachineryError('SocApprox validation: %d verdicts for %d records' % (len(verdicts), len(to_validate)))

    # -------------------------------------------------------------------------------------------
    # collation
    def emit(f):
        if f['prop'] in props:
            rep.violation(f['sig'], f)
        else:
            rep.extra.setdefault('other_property_findings', {}).setdefault(f['sig'], 0)
            rep.extra['other_property_findings'][f['sig']] += 1

    classes = dict(abstract_nexp=set(), abstract_nsoc=set(), exp_position=set(), fe=set(), atoms=set(),
                   acc_atoms=set(), acc_solver=set(), acc_ends=set())
    stats = dict(abstract=0, abstract_exact=0, model=0, accuracy_cases=0, accuracy_solves=0, mutated=0,
                 failed=0, drift=0, licence_limited=0)
    acc_max = {}
    drift_seen = set()
    reduced = []
    pred_gap = 0.0
    approx = {r['L']: r['approx'] for r in recs}
    cex_confirmed = None
    order = sorted(range(len(jobs)), key=lambda i: ({'model': 0, 'abstract': 1, 'accuracy': 2}[jobs[i]['kind']], i))
    for job, r in ((jobs[i], results[i]) for i in order):
        for f in r['findings']:
            emit(f)
        if r.get('failed'):
            stats['failed'] += 1
            rep.count(key=r['key'])
            continue
        if 'licence-limited' in r.get('notes', []):
            stats['licence_limited'] += r['notes'].count('licence-limited')
        if r['drift']:
            stats['drift'] += 1
            kd = r['drift'][0].get('kind')
            if kd not in drift_seen:
                drift_seen.add(kd)
                rep.note('transcription drift (not an alarm; first of its kind): %s' % (r['drift'][0],))
        if r['kind'] == 'abstract':
            rep.count(key=r['key'])
            stats['abstract'] += 1
            stats['abstract_exact'] += 1 if r['match'] else 0
            stats['mutated'] += 1 if r['mutated'] else 0
            classes['abstract_nexp'].add(r['nexp'])
            classes['abstract_nsoc'].add(r['nsoc'])
            lay = job['rec']['layout']
            classes['exp_position'].add('first' if lay[0] == 'exp' else 'notfirst')
            classes['exp_position'].add('last' if lay[-1] == 'exp' else 'notlast')
            if cex and lay == cex[0] and job['rec']['L'] == cex[1]:
                cex_confirmed = r['mutated']
        elif r['kind'] == 'model':
            rep.count(key=r['key'])
            stats['model'] += 1
            stats['mutated'] += 1 if r['mutated'] else 0
            classes['fe'].add(job['desc']['fe'])
            classes['atoms'].update(r['atoms'])
        else:
            stats['accuracy_cases'] += 1
            for kk in r['keys']:
                rep.count(key=tuple(kk))
            stats['accuracy_solves'] += len(r['keys'])
            rep.inconclusive += r['inconclusive']
            classes['acc_atoms'].add(job['atom'])
            classes['acc_solver'].update(job['solvers'])
            if abs(job['r']) == 4:
                classes['acc_ends'].add(job['r'])
            reduced += [dict(r['base'], solver=x[0], degree=x[1], status=x[2], relerr=x[3]) for x in r['reduced']]
            red = {(x[0], x[1]) for x in r['reduced']}
            for kk, e in r['relerr'].items():
                sname, d = kk.split(':')
                if e is None or (sname, int(d)) in red:
                    continue
                acc_max[kk] = max(acc_max.get(kk, 0.0), e)
                if job['atom'] in ('exp_c', 'exp_o', 'pexp_c', 'expcone') and sname == 'eco':
                    a = approx.get(int(d))
                    if a:
                        pe = R.predicted_relerr(a['coef24'], a['scale'], job['r'])
                        pred_gap = max(pred_gap, abs(e - pe))

    # TLC's verdicts on the recorded structures
    accepted = 0          # recorded structure = the transcription's result
    conform = 0           # ... or different from it but conforming to every ideal clause
    corrupt_rejected = 0
    for t, (j, record, expect) in enumerate(to_validate, 1):
        v = verdicts[t]
        ideal_bad = []
        if not v['wellformed']:
            ideal_bad.append('malformed')
        ideal_bad += [k for k, ok in sorted(v['prefix'].items()) if not ok]
        if not v['links']:
            ideal_bad.append('links')
        if not v['noexp']:
            ideal_bad.append('exp-cone-left')
        if expect is not None:
            how, (cls, field) = expect
            hit = {'prefix': field in ideal_bad, 'links': 'links' in ideal_bad or 'malformed' in ideal_bad,
                   'noexp': 'exp-cone-left' in ideal_bad, 'shape': (not v['shape']) and not v['exact']}[cls]
            if v['exact'] or not hit:
                raise tlc.MachineryError('binding demonstration failed: record corrupted by %s was judged %s' % (how, v))
            corrupt_rejected += 1
            continue
        job, r = jobs[j], results[j]
        tag = r['key']
        if ideal_bad:
            emit(dict(sig='C18:not-carried-over:' + ideal_bad[0], prop='C18',
                      what='the program returned by to_socp does not carry the input over unchanged (decided by TLC on the recorded structure)',
                      failed=ideal_bad, case=tag, job=job if job['kind'] != 'abstract' else dict(kind='abstract', layout=job['rec']['layout'], L=job['rec']['L'])))
        elif not v['exact']:
            conform += 1
            stats['drift'] += 1
            if 'output' not in drift_seen:
                drift_seen.add('output')
                rep.note('transcription drift (not an alarm; first of its kind): to_socp output differs from SocApprox in %s but keeps the ideal (case %s)' % (v['diff'], tag))
        else:
            accepted += 1
            conform += 1
        direct = r['mutated'] if job['kind'] == 'abstract' else \
            any('GCProg.to_socp(m.do_math())' in f.get('seen_via', []) for f in r['findings'])
        if (not v['input']) != bool(direct):
            raise tlc.MachineryError('TLC and the harness disagree on InputUntouched for %s (TLC input=%s, harness mutated=%s)'
                                     % (tag, v['input'], direct))
        if not v['asTranscribed'] and 'asTranscribed' not in drift_seen:
            drift_seen.add('asTranscribed')
            rep.note('transcription drift (not an alarm): the input after the call is not what SocApprox[QmatFixed=%s] predicts (case %s)'
                     % (FLAGS['QmatFixed'], tag))
    rep.traces_validated += conform

    # the counterexample of 1a on the real code
    if cex is not None:
        if cex_confirmed:
            rep.note('TLC counterexample to InputUntouched (layout %s, degree %d) confirmed on the real code: %s'
                     % (cex[0], cex[1], 'P.qmat is extended by P.to_socp()'))
        elif cex_confirmed is False:
            rep.note('transcription drift: TLC counterexample to InputUntouched (layout %s, degree %d) is NOT reproduced by the real code; '
                     'set FLAGS[QmatFixed]=True in checks/suite_socapprox.py' % (cex[0], cex[1]))
    if FLAGS['QmatFixed'] and stats['mutated']:
        rep.note('FLAGS[QmatFixed]=True but the real code changes its input in %d cases' % stats['mutated'])

    # vacuity
    need = dict(abstract_nexp={1, 2, 3}, abstract_nsoc={0, 1, 2}, exp_position={'first', 'notfirst', 'last', 'notlast'},
                fe=set(FRONT_ENDS), atoms=set(R.EXP_ATOMS), acc_atoms=set(R.ACC_ATOMS), acc_solver=set(SOLVERS),
                acc_ends={-4.0, 4.0})
    if stats['failed'] == 0:
        for k, want in need.items():
            if not want <= classes[k]:
                raise tlc.MachineryError('vacuity: class %s covers %s, needs %s' % (k, sorted(classes[k], key=str), sorted(want, key=str)))
        if conform == 0 and not any(v['sig'].startswith('C18:not-carried-over') for v in rep.violations):
            raise tlc.MachineryError('vacuity: TLC found none of the %d recorded structures conforming' % genuine)
    if stats['abstract_exact'] != stats['abstract']:
        rep.note('%d of %d abstract replays differ from the exported expectation (judged by TLC above)'
                 % (stats['abstract'] - stats['abstract_exact'], stats['abstract']))

    # the approximant the spec derives from the transcription, evaluated in float (DESIGN 1.2 / 8)
    pred = {}
    grid = [x / 8.0 for x in range(-32, 33)]
    for L_, a in sorted(approx.items()):
        pred[L_] = max(R.predicted_relerr(a['coef24'], a['scale'], x) for x in grid)
    rep.extra['spec_approximant_max_relerr_on_[-4,4]'] = {str(k): v for k, v in pred.items()}
    ls = sorted(pred)
    if any(pred[l] > R.REL_BOUND for l in ls) or any(pred[b] > pred[a] for a, b in zip(ls, ls[1:])):
        rep.note('the approximant of the transcription itself exceeds 1e-3 or is not monotone: %s' % pred)

    rep.extra['socapprox'] = dict(stats, tlc_accepted_exact=accepted, tlc_conforming=conform, recorded=genuine, corrupted_rejected=corrupt_rejected,
                                  corrupted=ncorrupt, measured_vs_predicted_relerr_gap_ecos=pred_gap)
    rep.extra['accuracy_max_relerr_full_status'] = {k: acc_max[k] for k in sorted(acc_max)}
    rep.extra['reduced_accuracy_status'] = dict(count=len(reduced), worst=sorted(reduced, key=lambda x: -x['relerr'])[:5])
    if stats['licence_limited']:
        rep.note('%d soc_solve calls were refused by the size-limited Gurobi licence and were run with ECOS only (reduced coverage, not a verdict)'
                 % stats['licence_limited'])
    if reduced:
        rep.note('%d soc_solve results carried a reduced-accuracy solver status (judged only with a second solver); worst relative error %.2e'
                 % (len(reduced), max(x['relerr'] for x in reduced)))

    r0 = recs[len(recs) // 2]
    rep.sample(dict(suite='SocApprox', kind='abstract', layout=r0['layout'], degree=r0['L'],
                    input=dict(ncols=r0['P']['ncols'], nrows=r0['P']['nrows'], qmat=r0['P']['qmat'], xmat=r0['P']['xmat']),
                    expected=dict(ncols=r0['Q']['ncols'], nrows=r0['Q']['nrows'], cones=len(r0['Q']['qmat']),
                                  last_cone=r0['Q']['qmat'][-1], block=r0['pattern'])))
    for job, r in zip(jobs, results):
        if job['kind'] == 'model' and not r.get('failed'):
            rep.sample(dict(suite='SocApprox', kind='model', desc=job['desc'], exact=r['exact'], observed=r['res'],
                            after_soc_solve=r['conseq']))
            break
    for job, r in zip(jobs, results):
        if job['kind'] == 'accuracy' and not r.get('failed') and job['r'] == 4.0:
            rep.sample(dict(suite='SocApprox', kind='accuracy', case=r['base'], exact=r['exact'], relerr=r['relerr']))
            break
    return jobs, results
