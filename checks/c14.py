"""C14 - dual() returns valid shadow prices of the user's constraints."""
from harness import core
from checks import suite_dualvalues


def main(tier):
    rep = core.Report('C14', tier, level='model_checking')
    rep.rule = ('TLC enumerates user models statement by statement (every order of: linear array constraints with 1-2 rows and sense <=, >=, ==; '
                'bound statements on the whole array and on slices, at most one lower and one upper bound per entry; auxiliary-row generators '
                'abs / 1-norm / inf-norm; explicit do_math between statements; min or max; ro.Model and lp.Model front ends), checks on the '
                'transcribed index/ciarray map that every constraint is given exactly its own rows (SliceIsOwnRows, ShapesMatch) and that the '
                'sign convention of the property is an LP duality; a stratified sample of the boxed, lattice-feasible models is written through the '
                'API (3 variable layouts), solved by scipy/HiGHS, ECOS and Gurobi (fresh model per interface or one model re-solved), dual() is read '
                'on every returned constraint object, and the user data with the returned duals / value / solution (scaled 1e4) goes back to TLC: '
                'stationarity, dual objective, signs, shapes; distinct = (model, layout, bound form, interface)')
    rep.assumptions = ['TLC 1.8', 'auxiliary (convex) constraints are generated loose on the whole box, so their rows carry zero multipliers and the '
                       'user rows and bounds alone form the certificate (stated per case by the generator: AuxLoose)',
                       'scaled-integer identities: tolerance = solver tolerance (2e-4, ECOS 5e-4) + rounding bound; a violation needs 10x the tolerance',
                       'each variable entry carries exactly one lower and one upper bound statement']
    suite_dualvalues.run(rep, tier, props=('C14',))
    return rep.finish()


def replay(path):
    from checks import replay_file
    return replay_file.run(path)
