"""C05 - array algebra on variables is NumPy's: same shapes, same values."""
from harness import core
from checks import suite_arrayalgebra


def main(tier):
    rep = core.Report('C05', tier, level='model_checking')
    rep.rule = ('every reachable state of ArrayAlgebra.tla within the constants (an operator word over +,-,*,@, indexing, reshape/T, '
                'sum, concat/rstack/cstack/vec, diag/tril/triu/trace applied to a decision array X and, in the bi-affine '
                'configurations, a random array Z) is one case; a replayed case is distinct by (word, base shapes, kind of leaf '
                'operand, type of numeric constants); non-trivial = the case executes the word on real rsome objects and its '
                'densified linear/const (raffine/affine) is compared coefficient by coefficient with the content TLC computed, '
                'after the same word was confirmed on NumPy integer arrays')
    rep.assumptions = ['TLC 1.8 and the CommunityModules',
                       'NumPy is the reference: ArrayAlgebra.tla is cross-checked against NumPy object arrays on every replayed case '
                       '(a disagreement is exit 2)',
                       'coefficients are small integers, exactly representable in float64',
                       'the definition of a non-variable leaf (affine expression, decision rule) is read once from rsome itself',
                       'support matrix (raising is conformant): zero-size results, diag/tril/triu/trace on non-2-D arrays, '
                       'flatten / concat family / diag family on bi-affine (RoAffine, decision-rule) operands, vec() of a non-scalar']
    suite_arrayalgebra.run(rep, tier, props=('C05',))
    return rep.finish()


def replay(path):
    from checks import replay_file
    return replay_file.run(path)
