"""Suite: Sharing.tla (C09, last clause): an expression object used in one construct means the same elsewhere.

1. TLC: every history of <= MaxUses uses of one shared expression object (mixed with fresh ones) in rsome.ro / rsome.dro;
   invariants MeaningIndependent / ObjectUntouched on the transcription of the repaired code (flag below), and, as a
   vacuity demonstration, TLC must FIND the violation on the transcription of the code before the repair.
2. Every exported history is built with the shared object and all-fresh; every use has its own epigraph variable whose
   exact value the specification states for what the use declares.
"""
import json
import random

from harness import tlc, core
from harness.tlc import tla

FLAGS = dict(EpwCopies=True)       # transcription of the code after the repair of ExpPiecewiseConvex.__init__
TOL = 2e-6


def run(rep, tier, props):
    rng = random.Random(rep.seed)
    nuse = 3 if tier == 'quick' else 4
    cap = 1600 if tier == 'quick' else 30000
    with tlc.Scratch() as sc:
        base = dict(Fronts=tla({'ro', 'dro'}), MaxUses=tla(nuse), WithFresh='TRUE')
        model = tlc.make_model('Sharing', sc, constants=dict(base, EpwCopies=tla(FLAGS['EpwCopies'])),
                               invariants=['MeaningIndependent', 'ObjectUntouched', 'Export'])
        res = tlc.run_tlc(model, sc, workers=8, coverage=True, timeout=1800,
                          export_sample=(cap, rep.seed + 5, lambda r: any(u['use'] == 'Emaxof' and u['shared'] for u in r['uses'])
                                         and any(u['use'] in ('row', 'neg', 'scaled') and u['shared'] for u in r['uses']) and len(r['uses']) <= 3))
        tlc.require_ok(res, 'Sharing', allow_violation=True)
        rep.add_tlc('Sharing[uses<=%d, ro+dro, repaired transcription]' % nuse, res)
        if res['violated']:
            raise tlc.MachineryError('Sharing: %s violated on the transcription selected by FLAGS\n%s' % (res['violated'], '\n'.join(res['cex'][:40])))
        if res['coverage'].get('Use', [0, 0])[1] == 0:
            raise tlc.MachineryError('Sharing: action Use never taken')
        recs = res['exports']
        # the code before the repair: TLC itself must find the history that changes the meaning of a later use
        model0 = tlc.make_model('Sharing', sc, constants=dict(base, MaxUses='2', EpwCopies='FALSE'), invariants=['MeaningIndependent'])
        res0 = tlc.run_tlc(model0, sc, workers=2, coverage=False, timeout=600, want_exports=False)
        tlc.require_ok(res0, 'Sharing (before repair)', allow_violation=True)
        rep.add_tlc('Sharing[code before the repair: MeaningIndependent must fail]', res0)
        if res0['violated'] != 'MeaningIndependent':
            raise tlc.MachineryError('Sharing: TLC does not find the marking defect on the unrepaired transcription (vacuous spec?)')
    jobs = [dict(tid=k, rec=r) for k, r in enumerate(recs)]
    results = core.pmap('harness.replay_sharing', 'replay', jobs, chunksize=16)
    bad = core.machinery_failures(results)
    if bad:
        raise tlc.MachineryError('replay_sharing failed: %s\n%s' % (bad[0]['machinery_error'], bad[0].get('tb', '')))
    stats = dict(histories=len(jobs), uses_checked=0, by_front={}, by_use={})
    for job, r in zip(jobs, results):
        rec = job['rec']
        front = rec['front']
        rep.count(key=('SH', front, json.dumps(rec['uses'], sort_keys=True)))
        stats['by_front'][front] = stats['by_front'].get(front, 0) + 1
        detail = dict(front=front, uses=rec['uses'], result=r)
        for key in ('shared', 'fresh'):
            v = r[key]
            if isinstance(v, dict) or v is None:
                what = v['exc'] if isinstance(v, dict) else 'no solution reported'
                owner = 'C09' if key == 'shared' and not (isinstance(r['fresh'], dict) or r['fresh'] is None) else ('C03' if front == 'dro' else 'C01')
                _emit(rep, dict(sig='%s:shared-expression:%s:%s-build-fails' % (owner, front, key), prop=owner,
                                what='the %s build of a model every row of which is satisfiable raised / was not solved: %s' % (key, what), **detail), props)
        if isinstance(r['shared'], dict) or r['shared'] is None:
            continue
        for k, u in enumerate(rec['uses']):
            want = u['want'] / 1000.0
            got = r['shared'][k]
            stats['uses_checked'] += 1
            stats['by_use'][u['use']] = stats['by_use'].get(u['use'], 0) + 1
            fresh_ok = isinstance(r['fresh'], list) and abs(r['fresh'][k] - want) <= 10 * TOL * (1 + abs(want))
            if abs(got - want) > 10 * TOL * (1 + abs(want)):
                earlier = sorted(set(v['use'] for v in rec['uses'][:k] if v['shared']))
                if fresh_ok and u['shared']:
                    _emit(rep, dict(sig='C09:shared-expression:%s:%s-means-something-else-after:%s' % (front, u['use'], '+'.join(earlier) or 'nothing'), prop='C09',
                                    what='use %d (%s) of the shared object gives %.6g; what it declares is worth %.6g, and the all-fresh build gives %.6g' % (k, u['use'], got, want, r['fresh'][k]),
                                    **detail), props)
                else:
                    owner = 'C03' if front == 'dro' else 'C01'
                    _emit(rep, dict(sig='%s:construct-value:%s:%s' % (owner, front, u['use']), prop=owner,
                                    what='use %d (%s) gives %.6g, closed form %.6g (not a sharing effect: the fresh build agrees with the shared one)' % (k, u['use'], got, want), **detail), props)
            elif abs(got - want) > TOL * (1 + abs(want)):
                rep.inconclusive += 1
    rep.traces_validated += len(jobs)
    rep.extra['sharing'] = stats
    for job in jobs[:2]:
        rep.sample(dict(suite='Sharing', front=job['rec']['front'], uses=job['rec']['uses']))
    if stats['uses_checked'] < len(jobs):
        raise tlc.MachineryError('Sharing: only %d uses checked in %d histories' % (stats['uses_checked'], len(jobs)))
    return jobs, results


def _emit(rep, f, props):
    if f['prop'] in props:
        rep.violation(f['sig'], f)
    else:
        d = rep.extra.setdefault('other_property_findings', {})
        d[f['sig']] = d.get(f['sig'], 0) + 1
