"""Suite: Dispatch.tla  (C06: every accepted constraint and the objective are enforced as written).

1. TLC checks the routing table of the three model layers: every accepted (xtype, position) reaches the
   encoder of its atom exactly (NothingDropped, EncoderMatchesAtom); summed element-wise atoms are the one
   known replacement (KnownReplaced).
2. Every table entry is replayed in ro and dro front ends with decorations (scaling, offset, vector form): the item
   is active at the optimum of a boxed model and the user's expression is evaluated at the returned point.
"""
import random

from harness import tlc, core

FLAGS = dict(NObjFixed=True)      # gcp.do_math routes 'N' objectives (repaired)


def run(rep, tier, props):
    rng = random.Random(rep.seed)
    with tlc.Scratch() as sc:
        model = tlc.make_model('Dispatch', sc, constants=dict(NObjFixed=tlc.tla(FLAGS['NObjFixed'])),
                               invariants=['NothingDropped', 'EncoderMatchesAtom', 'KnownReplaced', 'ExportDone'])
        res = tlc.run_tlc(model, sc, workers=4, coverage=True, timeout=600)
        tlc.require_ok(res, 'Dispatch', allow_violation=True)
        rep.add_tlc('Dispatch', res)
        if res['violated']:
            raise tlc.MachineryError('Dispatch: %s violated on the transcription of the repaired code\n%s' % (res['violated'], '\n'.join(res['cex'][-30:])))
        table = [e for e in res['exports'] if e.get('encoded')]
        if not table:
            raise tlc.MachineryError('Dispatch exported no table')
        encoded = max(table, key=lambda e: len(e['encoded']))['encoded']
    from harness import replay_dispatch as rd
    jobs = []
    ks = [1.0, 0.5, 2.0] if tier == 'quick' else [1.0, 0.5, 2.0, 3.0, 0.25]
    cs = [0.0, 1.5] if tier == 'quick' else [0.0, 1.5, -2.0]
    n = 0
    for e in encoded:
        it = e['item']
        if it['x'] not in rd.ATOMS:
            continue
        for ai in range(len(rd.ATOMS[it['x']])):
            for fe in ('ro', 'dro'):
                for k in ks:
                    for c in cs:
                        for vec in ((True, False) if tier == 'thorough' else (True,)):
                            n += 1
                            jobs.append(dict(what='atom', item=it, ai=ai, fe=fe, k=k, c=c, vec=vec, sk=n))
            # the deterministic model classes themselves (lp.Model, socp.Model, gcp.Model: each layer's own st()/objective
            # code, constraints posted as lists and tuples); a layer that cannot encode an atom must refuse it loudly
            for fe in ('gcp', 'socp', 'lp'):
                for k in ks[:2]:
                    n += 1
                    jobs.append(dict(what='atom', item=it, ai=ai, fe=fe, k=k, c=cs[-1], vec=True, sk=n))
    for kind in ('KL', 'ExpCone', 'RSOCone', 'maxof', 'minof', 'maxof_obj', 'minof_obj'):
        for fe in ('ro', 'dro', 'gcp'):
            for sk in range(2 if tier == 'quick' else 4):
                jobs.append(dict(what='other', kind=kind, fe=fe, sk=sk))
    results = core.pmap('harness.replay_dispatch', 'replay', jobs, chunksize=4)
    bad = core.machinery_failures(results)
    if bad:
        raise tlc.MachineryError('replay_dispatch failed: %s\n%s' % (bad[0]['machinery_error'], bad[0].get('tb', '')))
    stats = dict(ok=0, unsolved=0, exception=0, active=0, inactive=0)
    per_atom = {}
    for job, r in zip(jobs, results):
        key = (job['what'], job.get('kind') or (job['item']['x'], job['item']['pos'], job['item']['summed'], job['ai']), job['fe'], job.get('k'), job.get('c'), job.get('vec'))
        rep.count(key=key)
        stats[r['status']] = stats.get(r['status'], 0) + 1
        if r.get('inconclusive'):
            rep.inconclusive += 1
        if r['status'] == 'ok' and 'active' in r:
            stats['active' if r['active'] else 'inactive'] += 1
        nm = r.get('atom', job.get('kind', '?'))
        per_atom[nm] = per_atom.get(nm, 0) + 1
        if r['status'] == 'exception' and r.get('exc', '').split(':')[0] in ('NameError', 'UnboundLocalError'):
            # not a refusal: the library tripped over its own undefined name while encoding an accepted item
            rep.violation(r['sig'].replace('unexpected-exception', 'internal-error'), dict(r, job={k: v for k, v in job.items()}))
            continue
        if r['status'] == 'exception':
            # a loud failure is not what C06 is about ("never SILENTLY dropped or replaced"): an exception at st()/min()
            # means the form is not accepted, one at formulation is reported by the C10 check (late rejection)
            d = rep.extra.setdefault('loud_failures_not_alarmed', {})
            d[r['sig']] = d.get(r['sig'], 0) + 1
            continue
        for s in (r.get('sig'), r.get('sig2')):
            if s:
                rep.violation(s, dict(r, job={k: v for k, v in job.items()}))
    rep.extra['dispatch'] = dict(stats=stats, cases_per_atom=per_atom, table_entries=len(encoded))
    for job, r in list(zip(jobs, results))[:3]:
        rep.sample(dict(suite='Dispatch', case={k: v for k, v in job.items()}, result={k: v for k, v in r.items() if k != 'job'}))
    if stats['ok'] < len(jobs) // 2:
        raise tlc.MachineryError('Dispatch: only %d of %d cases solved' % (stats['ok'], len(jobs)))
    if stats['active'] < (stats['active'] + stats['inactive']) // 2:
        raise tlc.MachineryError('Dispatch: most constraint cases are not active at the optimum (%s)' % stats)
    return jobs, results
