"""Suite: UserData.tla (C19): user arrays of every kind (dtype x memory layout x writeable) in every role, ro and dro; plus
the two-process clause: the same models formulated in two fresh interpreters with different PYTHONHASHSEED."""
import json
import os
import subprocess
import sys

from harness import tlc, core
from harness.tlc import tla

ROLES = ['obj', 'elemmul', 'matmul_left', 'matmul_right', 'rhs', 'bound', 'add_const', 'set_rhs', 'set_matrix', 'rand_coef', 'expt_rhs', 'prob_rhs', 'quad_matrix', 'quad_set']
DTYPES = ['float64', 'float32', 'float16', 'int64', 'int32', 'int8', 'uint8', 'bool', 'object']
LAYOUTS = ['contiguous', 'fortran', 'strided', 'reversed', 'transposed', 'broadcast']


def run(rep, tier, props):
    with tlc.Scratch() as sc:
        model = tlc.make_model('UserData', sc, constants=dict(Roles=tla(set(ROLES)), Dtypes=tla(set(DTYPES)), Layouts=tla(set(LAYOUTS)), Fronts=tla({'ro', 'dro'})),
                               invariants=['ArrayUntouched', 'KindAccepted', 'EveryRoleSomewhere', 'Export'])
        res = tlc.run_tlc(model, sc, workers=4, coverage=True, timeout=900)
        tlc.require_ok(res, 'UserData')
        rep.add_tlc('UserData[%d roles x %d dtypes x %d layouts x writeable x {ro,dro}]' % (len(ROLES), len(DTYPES), len(LAYOUTS)), res)
        cases = sorted(res['exports'], key=lambda c: json.dumps(c, sort_keys=True))
    if len(cases) < 1000:
        raise tlc.MachineryError('UserData: only %d cases' % len(cases))
    if tier == 'quick':
        import random
        rng = random.Random(rep.seed)
        rng.shuffle(cases)
        # every (role, front) with every dtype and every layout at least once, the rest sampled
        keep, seen = [], set()
        for c in cases:
            keys = [('d', c['role'], c['front'], c['dtype']), ('l', c['role'], c['front'], c['layout'], c['writeable'])]
            if c['dtype'] in ('float64', 'float32'):
                # the dtypes numerical libraries work on in place: each of them with every layout
                keys.append(('fl', c['role'], c['front'], c['dtype'], c['layout'], c['writeable']))
            if any(k not in seen for k in keys):
                keep.append(c)
                seen.update(keys)
        cases = keep
        rep.exhaustive = False
    jobs = [dict(tid=k, case=c) for k, c in enumerate(cases)]
    results = core.pmap('harness.replay_userdata', 'replay', jobs, chunksize=8)
    bad = core.machinery_failures(results)
    if bad:
        raise tlc.MachineryError('replay_userdata failed: %s\n%s' % (bad[0]['machinery_error'], bad[0].get('tb', '')))
    stats = dict(cases=len(jobs), identical_to_plain_copy=0, kind_rejected={}, by_dtype={}, by_layout={})
    for job, r in zip(jobs, results):
        c = job['case']
        rep.count(key=('UD', json.dumps(c, sort_keys=True)))
        tag = '%s:%s:%s:%s' % (c['role'], c['dtype'], c['layout'], 'rw' if c['writeable'] else 'ro')
        detail = dict(case=c, result=r)
        stats['by_dtype'][c['dtype']] = stats['by_dtype'].get(c['dtype'], 0) + 1
        stats['by_layout'][c['layout']] = stats['by_layout'].get(c['layout'], 0) + 1
        if not r['array_untouched']:
            _emit(rep, dict(sig='C19:user-array-modified:%s:%s' % (c['front'], tag), prop='C19', what='the bytes / flags of the supplied array changed', **detail), props)
        if not r['rng_untouched']:
            _emit(rep, dict(sig='C19:global-rng-consumed:%s' % c['front'], prop='C19', what='numpy global RNG state changed', **detail), props)
        if 'ref_exc' in r:
            raise tlc.MachineryError('UserData: the reference build with a plain float64 array raised: %s (%s)' % (r['ref_exc'], c))
        if 'exc' in r:
            if 'read-only' in r['exc'] or 'readonly' in r['exc'].lower():
                _emit(rep, dict(sig='C19:write-attempt-on-user-array:%s:%s' % (c['front'], tag), prop='C19',
                                what='rsome tried to write into the array supplied by the user: %s at %s' % (r['exc'], r.get('where')), **detail), props)
            else:
                k = '%s:%s:%s' % (c['dtype'], c['role'], r['exc'].split(':')[0])
                stats['kind_rejected'][k] = stats['kind_rejected'].get(k, 0) + 1
            continue
        st, ref = r['steps'], r['ref']
        if st['primal2'] != st['primal']:
            _emit(rep, dict(sig='C19:repeated-formulation-differs:%s:%s' % (c['front'], c['role']), prop='C19', what='do_math() after solve differs from do_math() before', **detail), props)
        diff = [k for k in ('primal', 'dual', 'solved') if st[k] != ref[k]]
        if diff:
            # recorded, not alarmed: the property promises determinism and untouched data, not that unsigned / exotic dtypes are
            # promoted before rsome negates them (NumPy's own unsigned arithmetic wraps around in the same way)
            k = '%s:%s' % (c['dtype'], c['role'])
            stats.setdefault('differs_from_float64_copy', {})[k] = stats.setdefault('differs_from_float64_copy', {}).get(k, 0) + 1
        else:
            stats['identical_to_plain_copy'] += 1
    # ---- two processes, different hash seeds
    sigs = []
    for hs in ('1', '2', '31337'):
        code = ("import sys, json; sys.path.insert(0, %r); sys.path.insert(1, %r); import warnings; warnings.filterwarnings('ignore');"
                "from harness import replay_userdata as R; print('SIGS' + json.dumps(R.two_process_signatures(dict(roles=%r)), sort_keys=True))"
                % (core.repo_path(), core.ROOT, ROLES))
        p = subprocess.run(['/venv/bin/python', '-c', code], env=dict(os.environ, PYTHONHASHSEED=hs), stdout=subprocess.PIPE, stderr=subprocess.PIPE, text=True, timeout=600)
        line = [l for l in p.stdout.splitlines() if l.startswith('SIGS')]
        if p.returncode != 0 or not line:
            raise tlc.MachineryError('UserData: two-process run failed (hash seed %s): %s' % (hs, p.stderr[-400:]))
        sigs.append(json.loads(line[0][4:]))
    for k in sorted(sigs[0]):
        vals = [json.dumps(s[k]) for s in sigs]
        rep.count(key=('UD2', k))
        if len(set(vals)) > 1:
            _emit(rep, dict(sig='C19:formulation-differs-between-processes:%s' % k, prop='C19', what='standard forms of the same model built in processes with PYTHONHASHSEED 1, 2, 31337: %s' % vals), props)
    stats['two_process_models'] = len(sigs[0])
    rep.traces_validated += len(jobs)
    rep.extra['userdata'] = stats
    for k, n in sorted(stats['kind_rejected'].items())[:12]:
        rep.note('array kind rejected loudly (recorded, not an alarm): %s x%d' % (k, n))
    for job in jobs[:2]:
        rep.sample(dict(suite='UserData', case=job['case']))
    for k, n in sorted(stats.get('differs_from_float64_copy', {}).items()):
        rep.note('standard form differs from the one of a float64 copy of the same numbers (recorded, not an alarm): %s x%d' % (k, n))
    if stats['identical_to_plain_copy'] < len(jobs) // 2:
        raise tlc.MachineryError('UserData: only %d of %d cases could be compared with the plain copy' % (stats['identical_to_plain_copy'], len(jobs)))
    return jobs, results


def _emit(rep, f, props):
    if f['prop'] in props:
        rep.violation(f['sig'], f)
    else:
        d = rep.extra.setdefault('other_property_findings', {})
        d[f['sig']] = d.get(f['sig'], 0) + 1
