"""C15 - equivalent ways of writing a model give the same optimum."""
from harness import core
from checks import suite_rewrite, suite_declorder


def main(tier):
    rep = core.Report('C15', tier, level='model_checking')
    rep.rule = ('Rewrite.tla: a presentation = a robust program of the RoSem family (1- and 2-row constraints incl. 2-row array constraints, six polytope '
                'sets, decision rules, integer/continuous decisions, min/max/minmax/maxmin) + one choice per element of how it is written (objective '
                'direct | negated opposite sense; order of declaring variables, objective and statements; per row a<=b | -b<=-a | b>=a; equality | two '
                'inequalities; array expression | element loop; positive rescaling 1, 2, 1/2, 3; decision box as Bounds on the array | per entry | linear '
                'rows | infinity norm | abs; set as list | arguments | tuple | generator | constraint+list | nested lists; front end ro | single-scenario '
                'dro with or without E()). TLC checks on every reachable presentation that the denotation computed from the PRESENTED text has the '
                'grid optimum of the program (exhaustively for words <= 3/4 on a feature-covering sample, on random words <= 3/5 over the whole '
                'family) and exports the walked orbits; every orbit member is rendered through rsome.ro / rsome.dro exactly as presented and solved; '
                'distinct = distinct (program, presentation, solver); every case is a real build+solve')
    rep.assumptions = ['TLC 1.8', 'RoSem.tla GridOpt / vertex lists (C01/C02 oracle) and harness/ro_catalogue.py (checked against the vertex lists each run)',
                       'solvers as oracles only for their own optimality: values compared at 2e-6 relative with a x10 margin, and a suspected '
                       'difference must be reproduced with a second solver interface',
                       'one solver per orbit (rotating HiGHS / OR-Tools / Gurobi); all sets polyhedral, so no conic solver is needed']
    suite_rewrite.run(rep, tier, props=('C15',))
    # every order of declaring the parts (random variables, decision rule, adaptations, expression objects, sets, rows) of one ro model
    suite_declorder.run(rep, tier, props=('C15',))
    return rep.finish()


def replay(path):
    from checks import replay_file
    return replay_file.run(path)
