"""Suite: IPCone.tla + LPSem.tla  (C07).

1. TLC model-checks the transcription of IPCone.to_soc/to_pot/split (one action per branch) for every
   weight vector within the constants and for the weight vectors the callers ('G' p-norm, 'T' power,
   'C' geometric mean) produce; invariants: NodesWellFormed, SingleOwner, TowerExact (in EVERY state of
   the recursion the emitted + pending cones multiply out to the user's exponents), PadExact,
   CallerExact, AuxAreAux (as AuxAreAuxOrKnown while the code has the flaw, see FLAGS).
2. TLC enumerates small mixed-integer programs (LPSem.tla) with their brute-force optimum and checks the
   oracle itself (OptWitness, SenseSymmetry, BinaryDomain, RowsOnlyTighten).
3. Everything exported is replayed into rsome (harness/replay_ipcone.py): structural translation
   validation of the towers with an exact semantic verdict, atom values against closed forms, exact
   values of the rational atoms, re-formulation, MILP optima on three solver interfaces.
"""
import json
import random

from harness import tlc, core
from harness.tlc import tla

# Transcription flags.  SplitAuxFixed=False is the code as written (lp.py:3272 `u = model.dvar()`):
# TLC then finds AuxAreAux violated and the replay ('reform' jobs) decides on the real code.  Set to
# True once split() allocates u with aux=True; the replay reports 'aux-flags' drift when the flag and
# the code are out of step.
FLAGS = dict(SplitAuxFixed=True)

IP_INVARIANTS = ['TypeOK', 'NodesWellFormed', 'SingleOwner', 'TowerExact', 'PadExact', 'SingleExact',
                 'CallerExact', 'AuxAreAuxOrKnown', 'Export']
IP_ACTIONS = ['AddWeight', 'StartGmean', 'StartPnormInt', 'StartPnormRat', 'StartPower', 'Single', 'ToPotPad',
              'ToPotExact', 'SplitEqual', 'SplitMax', 'SplitCum', 'Finish', 'RatAtom']
IP_CONSTS = {
    'quick': dict(MaxLen=4, MaxSum=16, MaxP=8, ExportMod=1),
    'thorough': dict(MaxLen=5, MaxSum=32, MaxP=12, ExportMod=7),
}
ARGS2 = [[3, 4], [-1, 3], [0, 2], [-3, -1]]       # numerators over ARGDEN
ARGDEN = 2
QRANGE = 2

LP_INVARIANTS = ['TypeOK', 'OptWitness', 'SenseSymmetry', 'BinaryDomain', 'Export']
LP_ACTIONS = ['DoDeclInt', 'DoDeclBin', 'DoSetObj', 'DoAddRow']
LP_FULL = dict(MaxVars=3, MaxRows=3, BoundHi=3, ObjLo=-2, ObjHi=2, CoefLo=-2, CoefHi=2, RhsLo=-2, RhsHi=6)
LP_CONFIGS = {
    # (name, constants, cap on replayed programs)
    'quick': [
        ('exhaustive-2var-1row', dict(MaxVars=2, MaxRows=1, BoundHi=1, ObjLo=-1, ObjHi=0, CoefLo=-1, CoefHi=0,
                                      RhsLo=-1, RhsHi=0, Fan=[0, 0, 0, 0], ThinInfeasible=1), 260),
        ('sampled-3var-3row', dict(LP_FULL, Fan=[2, 3, 2, 1], ThinInfeasible=4), 400),
    ],
    'thorough': [
        ('exhaustive-2var-1row', dict(MaxVars=2, MaxRows=1, BoundHi=1, ObjLo=-1, ObjHi=1, CoefLo=-1, CoefHi=1,
                                      RhsLo=0, RhsHi=1, Fan=[0, 0, 0, 0], ThinInfeasible=1), 12000),
        ('sampled-3var-3row', dict(LP_FULL, Fan=[4, 6, 3, 2], ThinInfeasible=4), 20000),
    ],
}

KS = [[1, 1], [1, 2], [2, 1], [3, 1]]
GARGS = {2: [[[3, 2], [2, 1]], [[0, 1], [-2, 1]]], 3: [[[-1, 1], [1, 2], [2, 1]]]}
TARGS = [[[3, 2]], [[-2, 1]], [[1, 2]], [[0, 1]]]
CARG = [[3, 2], [2, 1], [1, 2], [3, 1], [5, 4], [7, 4]]
EXP_ARGS = {
    'exp': [[[1, 2]], [[-1, 1]], [[2, 1]]], 'pexp': [[[1, 2]], [[-1, 1]], [[2, 1]]],
    'softplus': [[[1, 2]], [[-1, 1]], [[2, 1]]],
    'log': [[[3, 2]], [[1, 2]], [[3, 1]]], 'plog': [[[3, 2]], [[1, 2]], [[3, 1]]],
    'entropy': [[[1, 2], [3, 2]], [[1, 4], [3, 4]]],
    'pnorm-exc': [[[3, 2], [2, 1]], [[-1, 1], [1, 2]]], 'pnorm-exc-ab': [[[3, 2], [2, 1]], [[-1, 1], [1, 2]]],
}
KL_ARGS = [([[3, 10], [7, 10]], [[1, 2], [1, 2]]), ([[1, 4], [3, 4]], [[2, 3], [1, 3]])]


def _atom(rec):
    return dict(kind=rec['kind'], a=rec['a'], b=rec['b'], beta=rec['beta'])


def _value_jobs(recs, tier, rng):
    jobs = []
    towers = [r for r in recs if r['kind'] != 'Q']
    if tier == 'quick':
        sel = [r for r in towers if (r['kind'] == 'C' and sum(r['beta']) <= 8) or (r['kind'] != 'C' and r['a'] <= 5)]
    else:
        small = [r for r in towers if r['kind'] != 'C' or (len(r['beta']) <= 4 and sum(r['beta']) <= 16)]
        big = [r for r in towers if not (r['kind'] != 'C' or (len(r['beta']) <= 4 and sum(r['beta']) <= 16))]
        rng.shuffle(big)
        sel = small + big[:1500]
    for i, r in enumerate(sel):
        a = _atom(r)
        if r['kind'] in ('G', 'R'):
            for ai, arg in enumerate(GARGS[2] + GARGS[3]):
                for k in (KS if ai == 0 else [KS[0]]):
                    jobs.append(dict(kind='value', family='tower', atom=a, arg=arg, k=k, pos='con'))
            jobs.append(dict(kind='value', family='tower', atom=a, arg=GARGS[2][0], k=KS[0], pos='obj'))
            jobs.append(dict(kind='value', family='tower', atom=a, arg=GARGS[3][0], k=KS[2], pos='obj'))
            for k in (KS[0], KS[2]):
                jobs.append(dict(kind='value', family='free', atom=a, arg=[[1, 1], [2, 1]], k=k, pos='con'))
            jobs.append(dict(kind='value', family='free', atom=a, arg=[[3, 1], [-1, 1], [2, 1]], k=KS[0], pos='con'))
        elif r['kind'] == 'T':
            for ai, arg in enumerate(TARGS):
                for k in (KS if ai == 0 else [KS[0]]):
                    jobs.append(dict(kind='value', family='tower', atom=a, arg=arg, k=k, pos='con'))
            jobs.append(dict(kind='value', family='tower', atom=a, arg=TARGS[1], k=KS[2], pos='obj'))
            for k in (KS[0], KS[1]):
                jobs.append(dict(kind='value', family='free', atom=a, arg=[], k=k, pos='con'))
        else:
            n = len(r['beta'])
            jobs.append(dict(kind='value', family='tower', atom=a, arg=CARG[:n], k=KS[i % 4], pos='con'))
            if i % 5 == 0:
                jobs.append(dict(kind='value', family='tower', atom=a, arg=CARG[1:n + 1], k=KS[(i // 5) % 4], pos='obj'))
            if i % 3 == 0 and n >= 2:
                jobs.append(dict(kind='value', family='free', atom=a, arg=[], k=KS[(i // 3) % 4], pos='con'))
    for name, args in EXP_ARGS.items():
        for arg in args:
            for k in KS:
                for pos in ('con', 'obj'):
                    jobs.append(dict(kind='value', family='exp', atom=dict(name=name), arg=arg, k=k, pos=pos))
    for p, q in KL_ARGS:
        jobs.append(dict(kind='value', family='kldiv', atom=dict(name='kldiv'), arg=p, phat=q, k=KS[0], pos='con'))
    return jobs


def _rat_jobs(recs):
    jobs = []
    for r in recs:
        if r['kind'] != 'Q':
            continue
        q = r['rat']
        for ai, arg in enumerate(q['args']):
            for k in (KS if ai == 0 else [KS[ai % 4]]):
                jobs.append(dict(kind='rat', atom=q['atom'], q=q['q'], arg=arg, argden=q['argden'], num=q['num'][ai],
                                 den=q['den'], k=k, pos='con'))
        jobs.append(dict(kind='rat', atom=q['atom'], q=q['q'], arg=q['args'][0], argden=q['argden'], num=q['num'][0],
                         den=q['den'], k=KS[2], pos='obj'))
    return jobs


def _reform_jobs(recs, tier):
    jobs = []
    towers = [r for r in recs if r['kind'] != 'Q']
    pmax = 5 if tier == 'quick' else 9
    for r in towers:
        a = _atom(r)
        has_max = any(c['br'] == 'max' for c in r['cones'])
        if r['kind'] in ('G', 'R') and r['a'] <= pmax:
            arg = GARGS[2][0]
        elif r['kind'] == 'T' and r['a'] <= pmax:
            arg = TARGS[0]
        elif r['kind'] == 'C' and (r['beta'] in ([1, 1], [2, 2], [1, 2], [1, 1, 1], [1, 1, 1, 1], [3, 5, 1, 2], [2, 3, 3], [5], [1, 2, 1])
                                   or (tier == 'thorough' and sum(r['beta']) <= 6)):
            arg = CARG[:len(r['beta'])]
        else:
            continue
        for front in ('ro', 'socp'):
            jobs.append(dict(kind='reform', family='tower', atom=a, arg=arg, front=front, has_max=has_max))
    for name, args in EXP_ARGS.items():
        for front in ('ro', 'gcp'):
            jobs.append(dict(kind='reform', family='exp', atom=dict(name=name), arg=args[0], front=front))
    return jobs


def _args2_tla():
    return '{' + ', '.join('<<%d, %d>>' % tuple(a) for a in ARGS2) + '}'


def run(rep, tier, props):
    rng = random.Random(rep.seed)
    jobs = []
    with tlc.Scratch() as sc:
        # ------------------------------------------------------------------ IPCone.tla
        def ip_consts(consts):
            c = {k: tla(v) for k, v in consts.items()}
            c.update({k: tla(v) for k, v in FLAGS.items()})
            c.update(QRange=tla(QRANGE), Args2=_args2_tla(), ArgDen=tla(ARGDEN))
            return c

        def ip_run(consts, coverage, name, invariants=IP_INVARIANTS):
            model = tlc.make_model('IPCone', sc, constants=ip_consts(consts), invariants=invariants)
            res = tlc.run_tlc(model, sc, workers=12, coverage=coverage, timeout=3000)
            tlc.require_ok(res, name, allow_violation=True)
            return res

        res = ip_run(IP_CONSTS['quick'], True, 'IPCone quick constants')
        rep.add_tlc('IPCone[MaxLen=4,MaxSum=16,MaxP=8]', res)
        if res['violated']:
            raise tlc.MachineryError('IPCone: invariant %s violated on the transcription (FLAGS=%s)\n%s'
                                     % (res['violated'], FLAGS, '\n'.join(res['cex'][:80])))
        for act in IP_ACTIONS:
            if res['coverage'].get(act, [0])[0] <= 0:
                raise tlc.MachineryError('IPCone: action %s never taken (vacuous run)' % act)
        recs = res['exports']
        if tier == 'thorough':
            res2 = ip_run(IP_CONSTS['thorough'], False, 'IPCone thorough constants')
            rep.add_tlc('IPCone[MaxLen=5,MaxSum=32,MaxP=12]', res2,
                        note='exports: every weight vector with <5 entries, one in 7 of those with 5')
            if res2['violated']:
                raise tlc.MachineryError('IPCone (thorough): invariant %s violated\n%s'
                                         % (res2['violated'], '\n'.join(res2['cex'][:80])))
            recs = res2['exports']
        if not recs:
            raise tlc.MachineryError('IPCone exported nothing')
        # TLC prints in worker order: make the job list a function of the seed only
        recs = sorted(recs, key=lambda r: json.dumps(r, sort_keys=True))
        # the ideal AuxAreAux on the faithful transcription: TLC must find the flaw while it is in the code
        if not FLAGS['SplitAuxFixed']:
            small = dict(IP_CONSTS['quick'], MaxLen=2, MaxSum=4, MaxP=3)
            r3 = ip_run(small, False, 'IPCone AuxAreAux', invariants=['AuxAreAux'])
            rep.add_tlc('IPCone[AuxAreAux, code as written]', r3,
                        note='ideal invariant on the faithful transcription of split(): violated by design of the run; '
                             'the counterexample class (max branch) is replayed by the reform jobs')
            if r3['violated'] != 'AuxAreAux':
                raise tlc.MachineryError('AuxAreAux not violated although FLAGS say the code allocates a non-auxiliary variable')
            rep.extra['tlc_found_AuxAreAux_violation'] = True

        towers = [r for r in recs if r['kind'] != 'Q']
        if not all(r['idealOK']['tower'] for r in towers):
            raise tlc.MachineryError('exported tower with TowerExact false')
        brs = set()
        for r in towers:
            brs |= {c['br'] for c in r['cones']}
            brs.add('padded' if r['padded'] else 'exact')
            if r['n'] == 1:
                brs.add('single')
        if brs != {'equal', 'max', 'cum', 'padded', 'exact', 'single'}:
            raise tlc.MachineryError('tower classes missing in the export: %s' % sorted(brs))
        for i, r in enumerate(towers):
            jobs.append(dict(kind='struct', rec=r, front=('ro', 'socp')[i % 2]))
        jobs += _value_jobs(recs, tier, rng)
        jobs += _rat_jobs(recs)
        jobs += _reform_jobs(recs, tier)
        rep.extra['tower_parameters'] = len(towers)
        rep.extra['rational_atom_parameters'] = len(recs) - len(towers)

        # ------------------------------------------------------------------ LPSem.tla
        hashw = [rng.randrange(1, 997) for _ in range(48)]
        nmilp = 0
        for name, consts, cap in LP_CONFIGS[tier]:
            c = {k: tla(v) for k, v in consts.items()}
            c['HashW'] = tla(hashw)
            model = tlc.make_model('LPSem', sc, constants=c, invariants=LP_INVARIANTS,
                                   properties=['RowsOnlyTighten'], constraints=['Keep'])
            res = tlc.run_tlc(model, sc, workers=12, coverage=True, timeout=3000)
            tlc.require_ok(res, 'LPSem ' + name, allow_violation=True)
            rep.add_tlc('LPSem[%s]' % name, res)
            if res['violated']:
                raise tlc.MachineryError('LPSem %s: oracle self-check %s violated\n%s'
                                         % (name, res['violated'], '\n'.join(res['cex'][:60])))
            for act in LP_ACTIONS:
                # TLC labels the coverage line with the wrapper or with the operator it applies
                if res['coverage'].get(act, [0])[0] + res['coverage'].get(act[2:], [0])[0] <= 0:
                    raise tlc.MachineryError('LPSem %s: action %s never taken' % (name, act))
            progs = sorted(res['exports'], key=lambda r: json.dumps(r, sort_keys=True))
            if not progs:
                raise tlc.MachineryError('LPSem %s exported nothing' % name)
            if len(progs) > cap:
                # keep the rare classes, sample the rest
                idx = [i for i, p in enumerate(progs)
                       if p['binbound'] and p['grid']['status'] == 'optimal' and len(p['rows']) == 0][:40]
                rest = [i for i in range(len(progs)) if i not in set(idx)]
                rng.shuffle(rest)
                progs = [progs[i] for i in idx + rest[:cap - len(idx)]]
                rep.exhaustive = False
            for i, p in enumerate(progs):
                jobs.append(dict(kind='milp', rec=p, style=(nmilp + i) % 4))
            nmilp += len(progs)
        rep.extra['milp_programs'] = nmilp
        if rep.exhaustive is None:
            rep.exhaustive = False      # the 3-variable MILP family is a seeded pseudo-random subtree

    results = core.pmap('harness.replay_ipcone', 'replay', jobs, chunksize=8)
    bad = core.machinery_failures(results)
    if bad:
        raise tlc.MachineryError('replay_ipcone failed: %s\n%s' % (bad[0]['machinery_error'], bad[0].get('tb', '')))

    by_kind = {}
    status_count = {}
    drift_kinds = {}
    solver_unavailable = set()
    classes = set()
    for job, r in zip(jobs, results):
        rep.count(key=r['key'])
        k = r['jobkind']
        by_kind[k] = by_kind.get(k, 0) + 1
        st = r.get('status', 'ok')
        status_count[(k, st)] = status_count.get((k, st), 0) + 1
        if st == 'inconclusive':
            rep.inconclusive += 1
            inc = rep.extra.setdefault('inconclusive_cases', [])
            if len(inc) < 8:
                inc.append(dict(job={kk: vv for kk, vv in job.items() if kk != 'rec'}, want=r.get('want'),
                                got=r.get('got', r.get('shapes'))))
        for f in r['findings']:
            if f['prop'] in props:
                rep.violation(f['sig'], f)
            else:
                rep.extra.setdefault('other_property_findings', {}).setdefault(f['sig'], 0)
                rep.extra['other_property_findings'][f['sig']] += 1
        for d in r['drift']:
            drift_kinds[d['kind']] = drift_kinds.get(d['kind'], 0) + 1
            if drift_kinds[d['kind']] <= 2:
                rep.note('transcription drift (not an alarm): %s' % (str(d)[:300],))
        if k == 'milp':
            classes.add(('milp', 'feasible' if r['feasible'] else 'infeasible'))
            classes.add(('milp', 'binbound' if r['binbound'] else 'nobinbound'))
            for s, o in r['outcomes'].items():
                if o == 'unavailable':
                    solver_unavailable.add(s)
        elif k in ('value', 'rat', 'reform'):
            classes.add((k, r.get('cls')))
            for s, o in (r.get('got') or {}).items():
                if o == 'unavailable':
                    solver_unavailable.add(s)
    need = {('milp', 'feasible'), ('milp', 'infeasible'), ('milp', 'binbound'), ('milp', 'nobinbound'),
            ('value', 'soc'), ('value', 'exp'), ('rat', 'soc'), ('rat', 'lp'), ('reform', 'soc'), ('reform', 'exp')}
    if not need <= classes:
        raise tlc.MachineryError('replayed sample misses outcome classes: %s' % sorted(need - classes))
    if FLAGS['SplitAuxFixed'] is False and drift_kinds.get('aux-flags'):
        rep.note('the code no longer allocates non-auxiliary tower variables where the transcription does: '
                 'set FLAGS["SplitAuxFixed"] = True in checks/suite_ipcone.py')
    for s in sorted(solver_unavailable):
        rep.note('solver interface %s unavailable: reduced coverage' % s)
    rep.extra['replays_by_kind'] = by_kind
    rep.extra['replay_status'] = {'%s:%s' % k: v for k, v in sorted(status_count.items())}
    rep.extra['transcription_drift'] = drift_kinds
    # samples
    shown = set()
    for job, r in zip(jobs, results):
        k = job['kind']
        if k in shown:
            continue
        shown.add(k)
        if k == 'struct':
            rep.sample(dict(kind='tower', beta=job['rec']['beta'], expected_cones=job['rec']['cones'],
                            expected_padding=job['rec']['xbeta'], verdict=r['status']))
        elif k == 'milp':
            rep.sample(dict(kind='milp', program={kk: job['rec'][kk] for kk in ('vt', 'lb', 'ub', 'sense', 'c', 'rows')},
                            brute_force=job['rec']['grid'], reported=r['outcomes']))
        else:
            rep.sample(dict(kind=k, job={kk: vv for kk, vv in job.items() if kk != 'rec'}, want=r.get('want'),
                            got=r.get('got', r.get('shapes'))))
    return jobs, results
