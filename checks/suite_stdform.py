"""Suite: StdForm.tla  (C08: do_math(primal=False) is a true dual).

1. TLC (generator): every program of the family (bound pattern per column x rows x senses) with the
   invariant TranscriptionWeakDuality on the transcribed DualLP.
2. Replay: build through the API, take the REAL primal/dual standard forms, solve both.
3. TLC (validator, code -> spec): weak duality of the real pair on integer lattices (LP rows, bounds and
   second-order cones exactly), and conformance of the LP transcription (drift only).
4. Harness: value check primal + dual = 0 (float, solver tolerance).
"""
import json
import random

from harness import tlc, core
from harness.tlc import tla
from harness import replay_stdform

ALL_PATTERNS = list(range(1, 14))
ROW_COEFS = [(1, 1), (1, -1), (-1, 2), (2, 1), (0, 1), (-1, 0), (1, 0)]
OBJ_COEFS = [(1, 1), (1, -1), (-1, -2), (0, 1), (-1, 0)]


def configs(tier, rng):
    cfgs = []
    pats = ALL_PATTERNS[:]
    rng.shuffle(pats)
    groups = [pats[i:i + 4] for i in range(0, len(pats), 4)]
    if len(groups[-1]) < 3:
        groups[-1] += pats[:3 - len(groups[-1])]
    if tier == 'thorough':
        groups = groups + [rng.sample(ALL_PATTERNS, 5) for _ in range(4)]
    for gi, g in enumerate(groups):
        two_rows = tier == 'thorough' and gi < 4
        cfgs.append(dict(NC=2, Patterns=set(g), RowCoefs=set(rng.sample(ROW_COEFS, 3 if (tier == 'quick' or two_rows) else 5)),
                         ObjCoefs=set(rng.sample(OBJ_COEFS, 2 if tier == 'quick' else 3)), Rhs={-1, 1, 2} if (tier == 'quick' or two_rows) else {-2, -1, 0, 1, 3},
                         MaxRows=2 if two_rows else 1))
    return cfgs


def run(rep, tier, props):
    rng = random.Random(rep.seed)
    cap = {'quick': 700, 'thorough': 12000}[tier]
    from concurrent.futures import ThreadPoolExecutor
    with tlc.Scratch() as sc:
        cfgs = configs(tier, rng)

        def one(c):
            consts = {k: tla(v) for k, v in c.items()}
            consts.update(XL='2', YL='2', FixedRowFixed='TRUE', Results='{}')
            model = tlc.make_model('StdForm', sc, constants=consts, invariants=['TranscriptionWeakDuality', 'Export'])
            return tlc.run_tlc(model, sc, workers=2, coverage=False, timeout=3000)

        with ThreadPoolExecutor(max_workers=6) as ex:
            allres = list(ex.map(one, cfgs))
        decls = []
        for ci, (c, res) in enumerate(zip(cfgs, allres)):
            tlc.require_ok(res, 'StdForm generator %d' % ci, allow_violation=True)
            rep.add_tlc('StdForm.gen[patterns=%s,rows<=%d]' % (sorted(c['Patterns']), c['MaxRows']), res)
            if res['violated']:
                raise tlc.MachineryError('StdForm: %s violated on the transcription of the repaired code\n%s'
                                         % (res['violated'], '\n'.join(res['cex'][:40])))
            ex_ = sorted(res['exports'], key=lambda r: json.dumps(r['decl'], sort_keys=True))
            rng.shuffle(ex_)
            ex_.sort(key=lambda r: 0 if r['primalGrid'] else 1)      # lattice-feasible programs first
            n = cap // len(cfgs) + 1
            decls.extend(ex_[:n - n // 8] + ex_[len(ex_) - n // 8:])
        jobs = []
        cones = replay_stdform.CONES
        for k, d in enumerate(decls):
            cone = 'none' if k % 4 else cones[(k // 4) % len(cones)]
            if cone == 'none':
                solver, second = ('def', 'ort', 'eco', 'grb')[k % 4], 'def'
            elif cone in replay_stdform.SOC_CONES:
                solver, second = ('eco', 'grb')[(k // 4) % 2], ('grb', 'eco')[(k // 4) % 2]
            elif cone in ('ro-box', 'ro-norm1', 'dro-box'):
                solver, second = ('def', 'ort', 'eco', 'grb')[(k // 4) % 4], 'def'
            else:
                solver, second = 'eco', None
            jobs.append(dict(tid=k, decl=d['decl'], cone=cone, solver=solver, second=second, variant=k % 6,
                             sense='min' if k % 5 else 'max', primalGrid=d['primalGrid']))
        results = core.pmap('harness.replay_stdform', 'replay', jobs, chunksize=8)
        bad = core.machinery_failures(results)
        if bad:
            raise tlc.MachineryError('replay_stdform failed: %s\n%s' % (bad[0]['machinery_error'], bad[0].get('tb', '')))
        # ---- validator
        items, idx = [], []
        for job, r in zip(jobs, results):
            if r.get('status') == 'exception' or r['P'] is None or r['D'] is None or r['xmat']:
                continue
            nx, ny = len(r['P']['lb']), len(r['D']['lb'])
            xl = 2 if 5 ** nx <= 40000 else 1
            yl = 2 if 5 ** ny <= 40000 else 1
            if 3 ** nx > 200000 or 3 ** ny > 200000:
                continue
            items.append(dict(tid=len(items) + 1, P=r['P'], D=r['D'], xl=xl, yl=yl))
            idx.append(job['tid'])
        verdicts = {}
        if items:
            consts = dict(NC='2', Patterns='{}', RowCoefs='{}', ObjCoefs='{}', Rhs='{}', MaxRows='0', XL='2', YL='2', FixedRowFixed='TRUE',
                          Results='{' + ', '.join(tla(it) for it in items) + '}')
            model = tlc.make_model('StdForm', sc, constants=consts, invariants=['Validate'])
            res = tlc.run_tlc(model, sc, workers=12, coverage=False, timeout=3000)
            tlc.require_ok(res, 'StdForm validator')
            rep.add_tlc('StdForm.validate', res)
            if len(res['exports']) != len(items):
                raise tlc.MachineryError('StdForm validator: %d verdicts for %d items (log %s)' % (len(res['exports']), len(items), res['log']))
            rep.traces_validated += len(items)
            for v in res['exports']:
                verdicts[idx[v['tid'] - 1]] = v
    stats = dict(solved_pairs=0, primal_unsolved=0, exception=0, lattice_checked=len(verdicts), cones={}, patterns={}, drift=0)
    for job, r in zip(jobs, results):
        rep.count(key=('S', json.dumps(job['decl'], sort_keys=True), job['cone'], job['solver'], job['sense']))
        pats = '-'.join(map(str, job['decl']['pats']))
        ctag = job['cone']
        detail = dict(decl=job['decl'], cone=job['cone'], solver=job['solver'], sense=job['sense'],
                      patterns={k: replay_stdform.PATTERN[k] for k in job['decl']['pats']}, result={k: v for k, v in r.items() if k not in ('P', 'D')})
        if r.get('status') == 'exception':
            stats['exception'] += 1
            _emit(rep, dict(sig='C08:unexpected-exception:%s:%s:%s' % (r['phase'], r['exc'].split(':')[0], ctag), prop='C08', what=r['exc'], **detail), props)
            continue
        stats['cones'][ctag] = stats['cones'].get(ctag, 0) + 1
        for side, ok_ in sorted(r.get('bounds_sane', {}).items()):
            if not ok_:
                # a variable whose lower bound is +inf / upper bound is -inf / lb > ub: some interfaces ignore infinite bounds of
                # either sign, others report infeasibility - whatever they do, this is not the bound vector of a dual program
                _emit(rep, dict(sig='C08:malformed-bounds:%s:%s' % (side, ctag), prop='C08', what='the %s standard form has an empty or ill-formed bound interval on a variable' % side, **detail), props)
        for ir in r.get('interface_raised', []):
            _emit(rep, dict(sig='C11:' + ir, prop='C11', what='a solver interface raised instead of reporting that no solution is available', **detail), props)
        for k in job['decl']['pats']:
            stats['patterns'][k] = stats['patterns'].get(k, 0) + 1
        v = verdicts.get(job['tid'])
        if v is not None:
            if not v['weak']:
                _emit(rep, dict(sig='C08:weak-duality-violated:%s:pats%s' % (ctag, _patclass(job)), prop='C08',
                                what='a lattice point of the real dual has a value above a lattice point of the real primal (TLC, exact)', P=r['P'], D=r['D'], **detail), props)
            if not v['transcription']:
                stats['drift'] += 1
        p, d = r['pval'], r['dval']
        tol = (5e-4 if job['cone'] in ('exp', 'log', 'norm2+exp') else 2e-5 if job['solver'] == 'eco' or job['cone'] != 'none' else 2e-6)
        if p is None or abs(p) > 1e7:      # infeasible / unbounded primal (a solver may report a huge "optimum")
            stats['primal_unsolved'] += 1
            continue
        if (r.get('pxmax') or 0) > 1e4:
            # an "optimal" point with components beyond 1e4 in a family whose data are single digits: the primal is unbounded
            # along an exponential direction (e.g. min -x0, exp(x0) <= x1 + 4, x1 free above) and ECOS stopped on its tolerances
            stats['primal_unsolved'] += 1
            stats['primal_unbounded_looking'] = stats.get('primal_unbounded_looking', 0) + 1
            continue
        inexact = any('close' in (st_ or '').lower() or 'inaccurate' in (st_ or '').lower() for st_ in (r.get('pstatus'), r.get('dstatus')))
        if inexact:
            # a reduced-accuracy status of the solver is not an optimal value: use the second solver's pair when there is one
            if r.get('pval2') is not None and r.get('dval2') is not None:
                p, d = r['pval2'], r['dval2']
            else:
                rep.inconclusive += 1
                stats['inexact_status'] = stats.get('inexact_status', 0) + 1
                continue
        if d is None:
            d2, p2 = r.get('dval2'), r.get('pval2')
            if job.get('second') and d2 is not None:
                rep.inconclusive += 1    # one solver failed on the dual, the other did not: numerical, not structural
                continue
            ds = (r.get('dstatus') or '').lower()
            if ds.startswith('interface-raised'):
                rep.inconclusive += 1
                continue
            if job['solver'] == 'eco' and not job.get('second') and not ('infeasible' in ds or 'unbounded' in ds):
                # exponential-cone duals can only be solved by ECOS here; "numerical problems" / "close to optimal" /
                # iteration limits are the solver giving up on a degenerate dual, not a certificate of a wrong dual
                rep.inconclusive += 1
                stats['exp_dual_numerical'] = stats.get('exp_dual_numerical', 0) + 1
                continue
            _emit(rep, dict(sig='C08:dual-unsolvable:%s:pats%s' % (ctag, _patclass(job)), prop='C08',
                            what='primal solved to optimality (%.6g) but the dual program could not be solved' % p, **detail), props)
            continue
        p3, d3 = r.get('pval3'), r.get('dval3')
        if p3 is not None and d3 is not None and abs(p3) < 1e6:
            stats['extended_pairs'] = stats.get('extended_pairs', 0) + 1
            if abs(p3 + d3) > 10 * tol * (1 + abs(p3)):
                _emit(rep, dict(sig='C08:dual-after-extension-is-not-the-dual:%s' % ctag, prop='C08',
                                what='after adding a constraint to a model whose dual had been produced: primal optimum %.8g, optimum of the dual returned now %.8g (dual object reused: %s)'
                                     % (p3, d3, r.get('dual_object_reused')), **detail), props)
        stats['solved_pairs'] += 1
        gap = p + d
        if abs(gap) > 10 * tol * (1 + abs(p)):
            _emit(rep, dict(sig='C08:primal-plus-dual-nonzero:%s:pats%s' % (ctag, _patclass(job)), prop='C08',
                            what='primal optimum %.8g, dual optimum %.8g, sum %.3g' % (p, d, gap), **detail), props)
        elif abs(gap) > tol * (1 + abs(p)):
            rep.inconclusive += 1
    rep.extra.setdefault('stdform', {}).update(stats)
    for job in jobs[:3]:
        rep.sample(dict(suite='StdForm', decl=job['decl'], cone=job['cone'], solver=job['solver']))
    if stats['solved_pairs'] < len(jobs) // 5:
        raise tlc.MachineryError('StdForm: only %d of %d primal/dual pairs solved' % (stats['solved_pairs'], len(jobs)))
    missing = [k for k in ALL_PATTERNS if k not in stats['patterns']]
    if missing:
        raise tlc.MachineryError('StdForm: bound patterns never exercised: %s' % missing)
    return jobs, results


def _patclass(job):
    return '+'.join(str(k) for k in sorted(set(job['decl']['pats'])))


def _emit(rep, f, props):
    if f['prop'] in props:
        rep.violation(f['sig'], f)
    else:
        d = rep.extra.setdefault('other_property_findings', {})
        d[f['sig']] = d.get(f['sig'], 0) + 1
