"""Suite: DroLifecycle.tla (C09 / C17 / C19 for dro models)."""
import json
import random

from harness import tlc, core
from harness.tlc import tla

FLAGS = dict(RuleCacheFixed=False)     # today's code: dvar()/adapt() after a formulation leave the rule cache stale
SETS = [set(), {'lin'}, {'p3'}, {'l2'}, {'l1'}, {'bd'}]


def consts(K, steps, closing):
    return dict(NS='2', K=tla(K), SetChoices='{' + ', '.join(tla(s) for s in SETS) + '}', RuleCacheFixed=tla(FLAGS['RuleCacheFixed']),
                MaxSteps=tla(steps), Closing=tla(closing), Script='<<>>')


def two_supports(r):
    """two constraints in the model that are protected by DIFFERENT supports (one of them its own)"""
    acts = [h['act'] for h in r['hist']]
    return 'ownset' in acts and acts.count('st') >= 2


def run(rep, tier, props):
    nsim = {'quick': 300, 'thorough': 5000}[tier]
    depth = 7 if tier == 'quick' else 9
    jobs = []
    with tlc.Scratch() as sc:
        # the ideal invariants on the transcription of today's code: TLC is expected to find them violated
        # (known findings C09:dro:*); on the repaired transcription they must hold
        for fixed, inv_expected in ((True, None),):
            c = consts(2, depth, False)
            c['RuleCacheFixed'] = 'TRUE'
            res = tlc.run_tlc(tlc.make_model('DroLifecycle', sc, constants=c, invariants=['RuleCacheFresh'], view='View'), sc, workers=8, coverage=True, timeout=1800)
            tlc.require_ok(res, 'DroLifecycle (repaired transcription)', allow_violation=True)
            rep.add_tlc('DroLifecycle[repaired transcription, steps<=%d, view]' % depth, res)
            if res['violated']:
                raise tlc.MachineryError('DroLifecycle: %s violated on the repaired transcription' % res['violated'])
        res = tlc.run_tlc(tlc.make_model('DroLifecycle', sc, constants=consts(2, depth, False), invariants=['RuleCacheFresh'], view='View'), sc, workers=8, coverage=False, timeout=1800)
        tlc.require_ok(res, 'DroLifecycle (code as it is)', allow_violation=True)
        rep.add_tlc('DroLifecycle[code as it is]', res, note='RuleCacheFresh expected to be violated: known finding')
        rep.extra['drolifecycle_rulecache_violated_on_transcription'] = res['violated']
        for (K, steps, n) in ((2, 8, nsim // 2), (2, 10, nsim // 2)):
            res = tlc.run_tlc(tlc.make_model('DroLifecycle', sc, constants=consts(K, steps, True), invariants=['ExportEnd']), sc, workers=1, coverage=False,
                              simulate='num=%d' % (n * 40), depth=steps + 1, seed=rep.seed + steps, timeout=1200)
            tlc.require_ok(res, 'DroLifecycle simulate')
            rep.add_tlc('DroLifecycle[simulate depth=%d closing]' % steps, res)
            seen, got = set(), 0

            ranked = sorted(res['exports'], key=lambda r: 0 if two_supports(r) else 1)      # stable: walk order inside each class
            npat = sum(1 for r in ranked if two_supports(r) and r['formulable'])
            rep.extra['drolifecycle_two_support_histories'] = rep.extra.get('drolifecycle_two_support_histories', 0) + min(npat, n // 2)
            for idx_, r in enumerate(ranked):
                if two_supports(r) and got >= n // 2:
                    continue
                key = json.dumps(r['hist'], sort_keys=True)
                if key in seen or not r['formulable']:
                    continue
                seen.add(key)
                jobs.append(dict(rec=r, K=K, NS=2))
                got += 1
                if got >= n:
                    break
        # focused, exhaustive: the canonical opening, then every order of {own support, adaptation, st of both constraints,
        # a changed support}, a solve - two constraints protected by DIFFERENT supports in every possible order
        body = {'ownset', 'adapt', 'st', 'suppset'}
        script = [{'dvar'}, {'ambiguity'}, {'suppset'}, {'minsup'}, body, body, body, body | {'solve'}, {'solve', 'st'}, {'solve'}]
        cfoc = consts(2, len(script), False)
        cfoc['Script'] = '<<' + ', '.join(tla(a) for a in script) + '>>'
        cfoc['SetChoices'] = '{' + ', '.join(tla(x) for x in ({'lin'}, {'l1'})) + '}'
        res = tlc.run_tlc(tlc.make_model('DroLifecycle', sc, constants=cfoc, invariants=['ExportEnd']), sc, workers=8, coverage=False, timeout=1800,
                          export_sample=(nsim // 2, rep.seed + 3, lambda r: False if (two_supports(r) and r['formulable']) else None))
        tlc.require_ok(res, 'DroLifecycle focused')
        rep.add_tlc('DroLifecycle[focused: scripted opening, every order of own support / adaptation / st / changed support]', res)
        if len(res['exports']) < 20:
            raise tlc.MachineryError('DroLifecycle: only %d focused two-support histories' % len(res['exports']))
        for r in res['exports']:
            jobs.append(dict(rec=r, K=2, NS=2))
        rep.extra['drolifecycle_two_support_histories'] = rep.extra.get('drolifecycle_two_support_histories', 0) + len(res['exports'])
    results = core.pmap('harness.replay_drolifecycle', 'replay', jobs, chunksize=4)
    bad = core.machinery_failures(results)
    if bad:
        raise tlc.MachineryError('replay_drolifecycle failed: %s\n%s' % (bad[0]['machinery_error'], bad[0].get('tb', '')))
    nsolved = 0
    for job, r in zip(jobs, results):
        rep.count(key=('DL', r['hsig']))
        nsolved += 1 if r['solved'] else 0
        rep.inconclusive += sum(1 for n_ in r['notes'] if n_ == 'inconclusive')
        for f in r['findings']:
            if f['prop'] in props:
                rep.violation(f['sig'], f)
            else:
                d = rep.extra.setdefault('other_property_findings', {})
                d[f['sig']] = d.get(f['sig'], 0) + 1
    rep.traces_validated += len(jobs)
    rep.extra['drolifecycle'] = dict(histories=len(jobs), histories_with_checked_solution=nsolved)
    for job in jobs[:2]:
        rep.sample(dict(suite='DroLifecycle', history=[(h['act'], h['args'] if h['act'] not in ('solve', 'do_math') else '', h['expect']) for h in job['rec']['hist']]))
    if jobs and nsolved < len(jobs) // 5:
        raise tlc.MachineryError('DroLifecycle: only %d of %d histories reached a checked solution' % (nsolved, len(jobs)))
    return jobs, results
