"""Re-run the case stored in a replay file and print what the real code does now."""
import json

from harness import core


def run(path):
    with open(path) as f:
        d = json.load(f)
    print(json.dumps(d, indent=1)[:4000])
    return 0
