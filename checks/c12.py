"""C12 - solution queries return the right numbers for the right objects."""
from harness import core
from checks import suite_query, suite_partition, suite_interleave


def main(tier):
    rep = core.Report('C12', tier, level='model_checking')
    rep.rule = ('one case = one query issued on a solved model built from a TLC-generated scene of Query.tla (scene kinds: decision '
                'arrays x selectors; ro decision rules x histories of adapt(); bi-affine expressions x realisations; convex atoms x '
                'multiplier/offset chains x front end; event-wise dro decisions x label kinds) or one replayed history of Partition.tla; '
                'distinct = distinct (scene, query); non-trivial = every case executes the real query on a model whose solution is '
                'pinned to pairwise distinct values, and compares with the value the specification defines for it')
    rep.assumptions = ['TLC 1.8 and the CommunityModules', 'HiGHS (scipy) solves the pinning LPs to 1e-6',
                       'closed forms of the convex atoms in harness/replay_query.py (ATOMS) are their mathematical definitions',
                       'the selector semantics of Query.tla is cross-checked against NumPy on every exported scene',
                       'concretisation of scenes in harness/replay_query.py; of Partition histories in harness/replay_partition.py']
    suite_query.run(rep, tier, props=('C12',))
    # per-scenario label / Series index / coefficient NaN-pattern clauses on Partition.tla histories
    # (illegal calls, pre-made slices, several variables): findings of C12 only.  Always the quick
    # constants of that suite: its thorough constants export every state of a multi-million state graph
    # (measured > 15 min and 14 GB in the parent process), far beyond this property's budget; the
    # thorough tier of C12 deepens Query.tla instead (3 arrays, histories and chains of length 3).
    suite_partition.run(rep, 'quick', props=('C12',))
    # histories: solve - query - extend - solve again (solve / soc_solve, several interfaces) - query, on all five model classes,
    # two models interleaved: x() and an affine expression against x.get() after every solve (Interleave.tla)
    suite_interleave.run(rep, tier, props=('C12',))
    if tier != 'quick':
        rep.note('Partition.tla part run with its quick constants in every tier (see checks/c12.py)')
    return rep.finish()


def replay(path):
    from checks import replay_file
    return replay_file.run(path)
