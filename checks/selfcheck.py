"""setup_cmd: nothing to build; verify the tools and parse every specification."""
import glob
import os
import subprocess
import sys

from harness import tlc


def main():
    ok = True
    for path in sorted(glob.glob(os.path.join(tlc.SPEC_DIR, '*.tla'))):
        mod = os.path.basename(path)[:-4]
        good, out = tlc.sany(mod)
        print('SANY %-18s %s' % (mod, 'ok' if good else 'FAILED'))
        if not good:
            print(out[-2000:])
            ok = False
    p = subprocess.run(['/venv/bin/python', '-c', 'import numpy, scipy, pandas, ortools, ecos, gurobipy; print("python deps ok")'])
    ok = ok and p.returncode == 0
    os.makedirs(os.path.join(os.path.dirname(tlc.SPEC_DIR), 'evidence'), exist_ok=True)
    os.makedirs(os.path.join(os.path.dirname(tlc.SPEC_DIR), 'replays'), exist_ok=True)
    return 0 if ok else 2
