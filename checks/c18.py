"""C18 - soc_solve approximates exponential cones accurately and changes nothing else."""
import json

from harness import core
from checks import suite_socapprox


def main(tier):
    rep = core.Report('C18', tier, level='model_checking')
    rep.rule = ('one case = one run of the real code: (a) every final state of SocApprox.tla within the constants (layout of '
                'linear / SOC / 1-3 exponential-cone constraints x degree) is replayed into GCProg.to_socp and compared exactly '
                'with the program TLC computed; (b) the same layouts are built as real models through ro / dro / gcp with the '
                'atoms exp, log, pexp, plog, expcone, entropy, softplus, kldiv, transformed, solved by soc_solve, re-solved, and '
                'the recorded structures are judged by TLC; (c) one soc_solve on a fresh model per (front end, atom, pinned '
                'exponent in [-4,4], scale, position among SOC constraints, degree, SOC interface) compared with the closed-form '
                'optimum. distinct = distinct descriptor; non-trivial = every case calls the real to_socp / soc_solve on a '
                'program containing at least one exponential cone')
    rep.assumptions = ['TLC 1.8 and the CommunityModules (Json)',
                       'ECOS and Gurobi (restricted licence) solve the SOC programs; a result with a reduced-accuracy status '
                       '(ECOS "Close to optimal") is judged only when a second solver confirms it',
                       'closed-form optima of the pinned programs (cross-checked in every case with the exact exponential-cone '
                       'solve by ECOS, tolerance 5e-3)',
                       'concretisation of layouts in checks/suite_socapprox.py:model_desc and harness/replay_socapprox.py',
                       'default cut-offs (-30, 60)']
    suite_socapprox.run(rep, tier, props=('C18',))
    return rep.finish()


def replay(path):
    """Re-run the stored case on the current tree and print what the real code does now."""
    with open(path) as f:
        d = json.load(f)
    job = d.get('first', {}).get('job')
    print(json.dumps({k: d[k] for k in ('property', 'signature', 'count', 'tier', 'repo') if k in d}, indent=1))
    if not job or job.get('kind') == 'abstract' and 'rec' not in job:
        print(json.dumps(d.get('first'), indent=1, default=str)[:4000])
        return 0
    res = core.pmap('harness.replay_socapprox', 'replay', [job], workers=1)
    bad = core.machinery_failures(res)
    if bad:
        print(bad[0]['machinery_error'])
        return 2
    sigs = sorted({f['sig'] for f in res[0]['findings']})
    print('findings now: %s' % (sigs or 'none'))
    for f in res[0]['findings'][:3]:
        print(json.dumps({k: v for k, v in f.items() if k != 'job'}, indent=1, default=str)[:2000])
    return 1 if d.get('signature') in sigs else 0
