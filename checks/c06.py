"""C06 - every accepted constraint and the objective are enforced as written."""
from harness import core
from checks import suite_dispatch


def main(tier):
    rep = core.Report('C06', tier, level='model_checking')
    rep.rule = ('TLC enumerates the routing table (16 convex xtypes + 6 other constraint classes) x (constraint, objective) x (plain, summed) of '
                'the lp/socp/gcp layers; every entry is replayed with every atom of the xtype x front end (ro, dro) x scaling x offset: a boxed '
                'model in which the item is active; the user expression is evaluated with NumPy at the returned point; distinct = distinct '
                '(entry, atom, front end, decoration)')
    rep.assumptions = ['TLC 1.8', 'NumPy closed forms of the atoms in harness/replay_dispatch.py', 'solver tolerances LP 1e-6, SOC 2e-5, exp 5e-4 (x10 margin)']
    suite_dispatch.run(rep, tier, props=('C06',))
    # the pinned-argument chains of Curvature.tla report their C06 findings (summed atoms, dropped objectives) here
    from checks import suite_curvature
    suite_curvature.run(rep, tier, props=('C06',))
    return rep.finish()


def replay(path):
    from checks import replay_file
    return replay_file.run(path)
