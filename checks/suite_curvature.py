"""Suite: Curvature.tla  (C10; sum()-related and 'N'-objective observables belong to C06).

1. TLC checks the ideal invariants (SignTracksCurvature, OffsetTracksMeaning, AcceptIffConvex =
   NoUnsoundAccept + NoOverReject, TimelyReject, MeaningPreserved, BilinearRaises) on the implementation-shaped
   transcription, exhaustively over all chains up to the configured length (history excluded from the
   fingerprint), each invariant in the form  Inv \\/ Known_k  for the defects that are not repaired (FIXED below).
2. TLC is run again with the bare invariants: every violation it reports on the transcription is recorded
   (the counterexample classes are the Known_k predicates) and must be confirmed or refuted by the replay.
3. TLC exports terminal states: the complete tree of chains up to the export length (history in the state)
   and, for longer chains, the states visited by `-simulate`.
4. Every exported terminal state is replayed on every real atom of its class (harness/replay_curvature.py).
"""
# ------------------------------------------------------------------------------------------------------------
# THE ONE SWITCH.  Names of the C10 defect classes whose repair is in the tree under test (/repo by default).
# Empty = unrepaired tree.  After a `fix:` commit in /repo add the name of the class it repairs:
#   'lateobj' 'pwcheck' 'pwzero' 'zerodiv' 'dropersp' 'perspcs' 'pwconst'      (described below)
# The list is passed to Curvature.tla as the constant `Fixed`: for a listed name the spec uses the transcription of
# the repaired code and its Known_<name> exception of the ideal invariants is switched off.
# VERIF_C10_FIXED=a,b,... (environment) overrides the list, to try a patch in a scratch tree given by VERIF_REPO.
FIXED = ['pwcheck', 'dropersp', 'perspcs', 'lateobj']
# ------------------------------------------------------------------------------------------------------------
import collections
import os
import random

from harness import tlc, core
from harness.tlc import tla

# Defect classes known to the transcription (Known_k predicates of Curvature.tla) and where they live:
#   lateobj   wrong-curvature objective is stored by min()/max() and refused only by do_math()
#             (ro.py:119-179, dro.py:231-346, lp.py:427-487; the test is lp.py:2524-2528 via `vars[0] - sign*obj >= 0`)
#   pwcheck   DecAffine.__le__/__ge__ return the pieces of a (Exp)PiecewiseConvex without testing its sign
#             (lp.py:4335-4340, 4363-4368; also reached by the dro objective epigraph dro.py:429)
#   pwzero    0 * PiecewiseConvex sets sign = 0 and every later `piece + other*self.sign` drops the operand
#             (lp.py:2630, 2651-2656)
#   zerodiv   cone encodings divide affine_out by the multiplier: 0 * atom raises ZeroDivisionError in do_math()
#             (gcp.py:114,127,157,167,177,189,196,203,219; socp.py:142)
#   dropersp  dro.Model.do_math does not route a DecPCvxConstr objective (dro.py:436-438)
#   perspcs   dro.Model.ro_to_roc reshapes a numeric perspective scale (dro.py:575)
#   pwconst   a numeric piece compared with a number is a Python bool inside PWConstr.pieces (lp.py:2668, 2678)
#   sum       C06: Convex.sum records sum_axis which nothing reads; PerspConvex.sum loses affine_scale (lp.py:2537-2543)
FIXABLE = ['lateobj', 'pwcheck', 'pwzero', 'zerodiv', 'dropersp', 'perspcs', 'pwconst']


def active_fixed():
    """FIXED (or the environment override), validated."""
    names = FIXED
    if os.environ.get('VERIF_C10_FIXED') is not None:
        names = [n for n in os.environ['VERIF_C10_FIXED'].split(',') if n]
    unknown = sorted(set(names) - set(FIXABLE))
    if unknown:
        raise tlc.MachineryError('unknown name(s) in FIXED / VERIF_C10_FIXED: %s (known: %s)' % (unknown, FIXABLE))
    return set(names)


CLASSES = ['cvx_lin', 'cvx_sq', 'ccv_sq', 'ccv_lin', 'cvx_div', 'ccv_div', 'cvx_div_sum', 'ccv_div_sum',
           'pcvx', 'pccv', 'pcvx_cs', 'pccv_cs', 'pwmax', 'pwmin', 'pwmax_c', 'pwmin_c', 'epwmax', 'epwmin']
SCALARS = [(-2, 1), (-1, 1), (0, 1), (1, 2), (1, 1), (2, 1)]

INVARIANTS = ['TypeOK', 'SignTracksCurvature', 'OffsetTracksMeaning', 'NoUnsoundAccept', 'NoOverReject',
              'TimelyReject', 'MeaningPreserved', 'BilinearRaises', 'BilinearLegalAccepted']
RAW = ['RawNoUnsoundAccept', 'RawNoOverReject', 'RawTimelyReject', 'RawMeaningPreserved', 'RawOffsetTracksMeaning']
KNOWN_NAMES = ['lateobj', 'pwcheck', 'pwzero', 'zerodiv', 'dropersp', 'pwconst', 'perspcs', 'sum']
ACTIONS = ['DoNeg', 'DoMulL', 'DoMulR', 'DoAddR', 'DoAddL', 'DoSub', 'DoRSub', 'DoSum', 'DoLeR', 'DoGeR', 'DoLeL',
           'DoGeL', 'DoEqR', 'DoEqL', 'DoAsMin', 'DoAsMax', 'DoProduct']
OPS = ['LeR', 'GeR', 'LeL', 'GeL', 'EqR', 'EqL', 'AsMin', 'AsMax', 'Product']

TIERS = {
    # check: exhaustive model checking (no history in the fingerprint); tree: exported tree of chains;
    # sim: -simulate (traces per worker, chain length, shortest exported chain); cap: replayed simulated states
    'quick':    dict(check=3, raw=2, tree=1, sim=dict(num=150, maxlen=3, minlen=2), cap=9000),
    'thorough': dict(check=5, raw=3, tree=2, sim=dict(num=1500, maxlen=5, minlen=3), cap=60000),
}


def consts(maxlen, mode, minlen=0, fixed=None):
    fixed = active_fixed() if fixed is None else fixed
    return dict(MaxLen=str(maxlen), MinLen=str(minlen), S=str(2 ** maxlen), NVec='2',
                FrontEnds=tla({'ro', 'dro'}), ClassNames=tla(set(CLASSES)),
                Scalars='{' + ', '.join('<<%d, %d>>' % k for k in SCALARS) + '}',
                Fixed=tla(set(fixed)) if fixed else '{}', ExportMode=tla(mode))


def _last_state(cex):
    txt = ' '.join(' '.join(cex).split())
    k = txt.rfind('State ')
    return txt[k:k + 900] if k >= 0 else txt[:900]


def _rec_key(r):
    from harness.replay_curvature import chain_sig
    return (r['fe'], r['cls'], chain_sig(r['hist']) if r['op'] != 'Product' else repr(sorted(r['hist'][0].items())),
            r['op'], r['o'])


def run(rep, tier, props):
    from harness import replay_curvature as rc      # pure-python part only (rsome is imported in the workers)
    cfg = TIERS[tier]
    fixed_now = active_fixed()
    rng = random.Random(rep.seed)
    recs = {}
    with tlc.Scratch() as sc:
        # ---------------------------------------------------------------- 1. exhaustive check
        model = tlc.make_model('Curvature', sc, constants=consts(cfg['check'], 'none'), invariants=INVARIANTS,
                               view='NoHistView')
        res = tlc.run_tlc(model, sc, workers=12, coverage=False, timeout=1500)
        tlc.require_ok(res, 'Curvature exhaustive', allow_violation=True)
        rep.add_tlc('Curvature[check, chains<=%d, view without history]' % cfg['check'], res)
        if res['violated']:
            raise tlc.MachineryError('Curvature: invariant %s violated on the transcription although every known defect '
                                     'has its named exception (spec and FIXED out of step)\n%s'
                                     % (res['violated'], '\n'.join(res['cex'][:60])))
        # ---------------------------------------------------------------- 2. bare invariants
        raw = {}
        for inv in RAW:
            model = tlc.make_model('Curvature', sc, constants=consts(cfg['raw'], 'none'), invariants=[inv],
                                   view='NoHistView')
            r = tlc.run_tlc(model, sc, workers=4, coverage=False, timeout=600)
            tlc.require_ok(r, 'Curvature ' + inv, allow_violation=True)
            raw[inv] = dict(violated=bool(r['violated']), states=r['distinct'],
                            counterexample_last_state=_last_state(r['cex']) if r['violated'] else None)
            rep.add_tlc('Curvature[bare %s, chains<=%d]' % (inv, cfg['raw']), r,
                        note='bare invariant (no Known_k): a violation is a defect predicted from the transcription')
        rep.extra['tlc_bare_invariants'] = raw
        # ---------------------------------------------------------------- 3a. tree of chains
        model = tlc.make_model('Curvature', sc, constants=consts(cfg['tree'], 'terminals'),
                               invariants=INVARIANTS + ['Export'])
        res = tlc.run_tlc(model, sc, workers=12, coverage=True, timeout=1500)
        tlc.require_ok(res, 'Curvature tree', allow_violation=True)
        rep.add_tlc('Curvature[tree, chains<=%d, every terminal exported]' % cfg['tree'], res)
        if res['violated']:
            raise tlc.MachineryError('Curvature tree: %s violated\n%s' % (res['violated'], '\n'.join(res['cex'][:60])))
        for a in ACTIONS:
            if res['coverage'].get(a, [0, 0])[0] <= 0:
                raise tlc.MachineryError('Curvature: action %s never taken (vacuous)' % a)
        if not res['exports']:
            raise tlc.MachineryError('Curvature tree exported nothing')
        tree = res['exports']
        for r in tree:
            recs[_rec_key(r)] = r
        n_tree = len(recs)
        # ---------------------------------------------------------------- 3b. long chains by simulation
        sim = cfg['sim']
        model = tlc.make_model('Curvature', sc, constants=consts(sim['maxlen'], 'chains', minlen=sim['minlen']),
                               invariants=INVARIANTS + ['Export'])
        res = tlc.run_tlc(model, sc, workers=12, simulate='num=%d' % sim['num'], depth=sim['maxlen'] + 3,
                          seed=rep.seed + 1, timeout=900)
        tlc.require_ok(res, 'Curvature simulate', allow_violation=True)
        rep.add_tlc('Curvature[simulate, chains %d..%d]' % (sim['minlen'], sim['maxlen']), res,
                    note='states = states checked by -simulate')
        if res['violated']:
            raise tlc.MachineryError('Curvature simulate: %s violated\n%s' % (res['violated'], '\n'.join(res['cex'][:60])))
        simrecs = {}
        for r in res['exports']:
            k = _rec_key(r)
            if k not in recs:
                simrecs[k] = r
    keys = sorted(simrecs)
    rng.shuffle(keys)
    # keep every simulated state that carries a Known_k tag class not yet seen often, then fill up
    for k in keys[:cfg['cap']]:
        recs[k] = simrecs[k]
    rep.exhaustive = False
    rep.extra['exported_tree_states'] = n_tree
    rep.extra['exported_simulated_states'] = len(simrecs)
    rep.extra['replayed_states'] = len(recs)

    # -------------------------------------------------------------------- 4. replay
    jobs = []
    for i, k in enumerate(sorted(recs)):
        r = recs[k]
        if r['op'] == 'Product':
            for variant in ('plain', 'affine'):
                jobs.append(dict(rec=r, atoms=['-'], variant=variant))
            continue
        atoms = rc.atoms_of(r['cls'])
        if not atoms:
            raise tlc.MachineryError('no real atom for class %s' % r['cls'])
        if r['fe'] == 'ro':
            variants = ['static']
        elif len(r['hist']) <= 1:
            variants = ['static', 'evt']
        else:
            variants = [('static', 'evt')[i % 2]]
        for v in variants:
            jobs.append(dict(rec=r, atoms=atoms, variant=v))
    rng.shuffle(jobs)            # spread solves evenly over the workers
    results = core.pmap('harness.replay_curvature', 'replay', jobs, chunksize=64)
    bad = core.machinery_failures(results)
    if bad:
        raise tlc.MachineryError('replay_curvature failed: %s\n%s' % (bad[0]['machinery_error'], bad[0].get('tb', '')))

    seen_ops = collections.Counter()
    seen_acts = collections.Counter()
    out_of_range = 0
    stages = collections.Counter()
    ideal = collections.Counter()
    fams = collections.Counter()
    solved = 0
    ndrift = 0
    drift_kinds = collections.Counter()
    notes = collections.Counter()
    note_example = {}
    known_states = collections.Counter()
    known_confirmed = collections.Counter()
    other = rep.extra.setdefault('other_property_findings', {})
    for job, rs in zip(jobs, results):
        r = job['rec']
        for x in rs:
            rep.count(key=(r['fe'], job['variant'], x['atom'], _rec_key(r)))
            seen_ops[r['op']] += 1
            for h in r['hist']:
                seen_acts[h['act']] += 1
            out_of_range += x.get('out_of_range', 0)
            stages[x['stage']] += 1
            fams[(r['fe'], r['fam'])] += 1
            ideal['dontcare' if x['dont_care'] else ('accept' if x['accept'] else 'reject')] += 1
            solved += 1 if x['solved'] else 0
            rep.inconclusive += x['inconclusive']
            for kn in r['known']:
                known_states[kn] += 1
                if x['findings']:
                    known_confirmed[kn] += 1
            for f in x['findings']:
                # a 'meaning' finding (the compiled constraint / objective is not the one written, e.g. a lost multiplier) is
                # also C06's business: an accepted item silently replaced by another one
                if f['prop'] in props or ('C06' in props and ':meaning:' in f['sig']):
                    rep.violation(f['sig'], f)
                else:
                    other[f['sig']] = other.get(f['sig'], 0) + 1
            for n in x['notes']:
                notes[n['sig']] += 1
                note_example.setdefault(n['sig'], n)
            if x['drift']:
                ndrift += 1
                d0 = x['drift'][0]
                drift_kinds['%s:%s:%s->%s' % (d0.get('kind'), x['atom'], d0.get('want'), d0.get('got'))] += 1
                if ndrift <= 3:
                    rep.note('transcription drift (not an alarm): %s' % (x['drift'][0],))
    # vacuity of the replayed sample
    for op in OPS:
        if seen_ops[op] == 0:
            raise tlc.MachineryError('no replayed case for terminal %s' % op)
    for act in ('Neg', 'MulL', 'MulR', 'AddR', 'AddL', 'Sub', 'RSub', 'Sum', 'Product'):
        if seen_acts[act] == 0:
            raise tlc.MachineryError('no replayed case uses %s' % act)
    for cls in ('accept', 'reject'):
        if ideal[cls] == 0:
            raise tlc.MachineryError('no replayed case with ideal verdict %s' % cls)
    if solved == 0 or stages['ok'] == 0 or stages['op'] == 0:
        raise tlc.MachineryError('replay did not reach both outcomes (stages %s, solved %d)' % (dict(stages), solved))
    for fam in [('ro', 'Convex'), ('ro', 'Persp'), ('ro', 'Piecewise'), ('dro', 'DecConvex'), ('dro', 'DecPersp'),
                ('dro', 'Piecewise'), ('dro', 'ExpPiecewise')]:
        if fams[fam] == 0:
            raise tlc.MachineryError('family %s/%s not replayed' % fam)

    # defects predicted from the transcription (Known_k) versus the real code
    pred = {}
    for kn in KNOWN_NAMES:
        pred[kn] = dict(listed_as_repaired=kn in fixed_now, states_replayed=known_states[kn],
                        cases_with_finding=known_confirmed[kn])
        if kn not in fixed_now and known_states[kn] > 0 and known_confirmed[kn] == 0:
            rep.note('spec lists defect %r as unrepaired but no replayed state tagged with it deviates from the ideal: '
                     'the transcription is out of step with the code (not an alarm)' % kn)
    rep.extra['predicted_defect_classes'] = pred
    for sig, n in sorted(notes.items()):
        ex = note_example[sig]
        rep.note('over-rejection (weaker clause, not an alarm) %s: %d case(s), e.g. %s on %s/%s -> %s'
                 % (sig, n, ex['written'], ex['fe'], ex['atom'], ex.get('exception')))
    rep.extra['curvature_cases'] = sum(len(rs) for rs in results)
    rep.extra['curvature_solved'] = solved
    rep.extra['curvature_stage_counts'] = dict(stages)
    rep.extra['curvature_ideal_counts'] = dict(ideal)
    rep.extra['curvature_terminal_counts'] = dict(seen_ops)
    rep.extra['curvature_chain_action_counts'] = dict(seen_acts)
    rep.extra['curvature_value_out_of_box'] = out_of_range
    rep.extra['curvature_transcription_drift'] = ndrift
    rep.extra['curvature_drift_kinds'] = dict(drift_kinds)
    rep.extra['curvature_over_rejections'] = dict(notes)
    rep.extra['fixed_flags'] = sorted(fixed_now)
    shown = 0
    for job, rs in zip(jobs, results):
        r = job['rec']
        if r['op'] != 'Product' and len(r['hist']) >= 2 and shown < 4:
            rep.sample(dict(suite='Curvature', front_end=r['fe'], variant=job['variant'], family=r['fam'],
                            atoms=job['atoms'], written=rc.written(r['hist'], r['op'], r['o']),
                            ideal='accept' if r['ideal']['accept'] else 'reject',
                            meaning=dict(K=r['ghost']['K'] / r['S'], const=r['ghost']['c'] / r['S'], T=r['ghost']['t'] / r['S']),
                            transcription=r['code']['stage'], observed=[x['stage'] for x in rs]))
            shown += 1
    return jobs, results
