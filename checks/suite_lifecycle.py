"""Suite: Lifecycle.tla  (C09, C17, C19).

1. TLC checks NoSetLeak, CacheCoherent, SolveUsesCurrent, MisuseIsolated, Model2Isolated exhaustively on
   the state graph (histories folded by a VIEW) for every interleaving within the constants.
2. TLC -simulate exports random complete histories (with the expected outcome of every step and the
   user's declaration at every solve); quick also replays all short histories exhaustively.
3. The histories are executed on real rsome.ro models; values are compared with the from-scratch
   single-constraint build of the DECLARED sets.
"""
import json
import random

from harness import tlc, core
from harness.tlc import tla

ALL_LISTS = ['lin', 'pws', 'cvx', 'ip', 'other', 'bounds']
SETS_QUICK = [set(), {'lin'}, {'p3'}, {'l2'}, {'l1'}, {'bd'}, {'ex'}, {'xb'}, {'lin', 'p3'}]   # one item kind per list of the support model
SETS_THOROUGH = SETS_QUICK + [{'l1', 'l2'}, {'p3', 'bd'}, {'ex', 'lin'}]
INVS = ['NoSetLeak', 'SolutionCurrent', 'SolveUsesCurrent', 'CacheCoherent', 'DualCurrent']
PROPS = ['MisuseIsolated', 'Model2Isolated']


def consts(K, sets, steps, m2=True, closing=False, late=True, fail=True):
    return dict(WithFail=tla(fail), WithLate=tla(late), K=tla(K), SetChoices='{' + ', '.join(tla(s) for s in sets) + '}', ResetLists=tla(set(ALL_LISTS)),
                MaxSteps=tla(steps), WithModel2=tla(m2), Closing=tla(closing))


def run(rep, tier, props):
    rng = random.Random(rep.seed)
    sets = SETS_QUICK if tier == 'quick' else SETS_THOROUGH
    depth = 6 if tier == 'quick' else 8
    nsim = {'quick': 700, 'thorough': 12000}[tier]
    jobs = []
    with tlc.Scratch() as sc:
        # (1) exhaustive invariants on the folded state graph
        model = tlc.make_model('Lifecycle', sc, constants=consts(2, sets, depth, fail=False), invariants=INVS, properties=PROPS, view='View')
        res = tlc.run_tlc(model, sc, workers=12, coverage=True, timeout=3000)
        tlc.require_ok(res, 'Lifecycle exhaustive', allow_violation=True)
        rep.add_tlc('Lifecycle[K=2,|sets|=%d,steps<=%d,view]' % (len(sets), depth), res)
        if res['violated']:
            raise tlc.MachineryError('Lifecycle: %s violated on the transcription of the repaired code\n%s' % (res['violated'], '\n'.join(res['cex'][:60])))
        for a in ('ForAll', 'St', 'SetObj', 'DoMath', 'Solve', 'M2St', 'M2Solve', 'Misuse'):
            if res['coverage'].get(a, [0, 0])[1] == 0:
                raise tlc.MachineryError('Lifecycle: action %s never taken' % a)
        # (2a) short histories, exhaustively (no view: every history is a state)
        short = 4 if tier == 'thorough' else 3
        model = tlc.make_model('Lifecycle', sc, constants=consts(2, sets[:4], short), invariants=INVS + ['ExportEnd'])
        res = tlc.run_tlc(model, sc, workers=12, coverage=False, timeout=3000)
        tlc.require_ok(res, 'Lifecycle short histories')
        rep.add_tlc('Lifecycle[histories of length %d, exhaustive]' % short, res)
        ex = sorted(res['exports'], key=lambda r: json.dumps(r['hist'], sort_keys=True))
        rng.shuffle(ex)
        interesting = [r for r in ex if any(h['act'] in ('solve', 'soc_solve') and h['expect'] == 'ok' for h in r['hist'])]
        misuse = [r for r in ex if any(h['act'] == 'misuse' for h in r['hist'])]
        take = interesting[:nsim // 3] + misuse[:nsim // 6]
        for r in take:
            jobs.append(dict(rec=r, K=2))
        # (2c) focused histories, exhaustively to depth 5 on a small alphabet (two sets, one model, no late variable): the
        #      multi-step patterns random walks rarely produce - a dual requested before AND after a change; a successful
        #      solve, the contradictory row, a failed solve, a read of the results
        def pattern(r):
            h = r['hist']
            acts = [x['act'] for x in h]
            duals = [i for i, x in enumerate(h) if x['act'] == 'do_math_dual' and x['expect'] == 'ok']
            p1 = len(duals) >= 2 and any(a in ('st', 'forall') for a in acts[duals[0] + 1:duals[-1]])
            oks = [i for i, x in enumerate(h) if x['act'] in ('solve', 'soc_solve') and x['expect'] == 'ok']
            fails = [i for i, x in enumerate(h) if x['act'] in ('solve', 'soc_solve') and x['expect'] == 'fail']
            p2 = bool(oks) and bool(fails) and oks[0] < fails[-1] and 'read' in acts[fails[-1]:]
            return 2 if p2 else 1 if p1 else 0
        model = tlc.make_model('Lifecycle', sc, constants=consts(2, [{'lin'}, {'ex'}], 5, m2=False, late=False), invariants=INVS + ['ExportEnd'])
        res = tlc.run_tlc(model, sc, workers=12, coverage=False, timeout=3000, export_sample=(nsim // 4, rep.seed + 77, lambda r: {0: None, 1: False, 2: True}[pattern(r)]))
        tlc.require_ok(res, 'Lifecycle focused histories')
        rep.add_tlc('Lifecycle[focused histories of length 5, exhaustive, dual-after-change / fail-after-success patterns]', res)
        foc = [r for r in res['exports'] if pattern(r)]
        rep.extra['lifecycle_focused_fail_then_read'] = sum(1 for r in foc if pattern(r) == 2)
        if len(foc) < 20 or rep.extra['lifecycle_focused_fail_then_read'] < 5:
            raise tlc.MachineryError('Lifecycle: only %d focused histories' % len(foc))
        for r in foc:
            jobs.append(dict(rec=r, K=2))
        rep.extra['lifecycle_focused'] = len(foc)
        # (2b) long histories by simulation
        for (K, steps, n, m2) in ((2, 7, nsim // 3, False), (2, 9, nsim // 3, True), (3, 10, nsim // 3, False)):
            model = tlc.make_model('Lifecycle', sc, constants=consts(K, sets, steps, m2=m2, closing=True), invariants=INVS + ['ExportEnd'])
            res = tlc.run_tlc(model, sc, workers=1, coverage=False, simulate='num=%d' % (n * 2), depth=steps + 1, seed=rep.seed + K, timeout=1200)
            tlc.require_ok(res, 'Lifecycle simulate K=%d' % K)
            rep.add_tlc('Lifecycle[simulate K=%d depth=%d model2=%s closing]' % (K, steps, m2), res)
            seen = set()
            got = 0
            for r in res['exports']:
                key = json.dumps(r['hist'], sort_keys=True)
                if key in seen:
                    continue
                seen.add(key)
                nsolve = sum(1 for h in r['hist'] if h['act'] in ('solve', 'soc_solve') and h['expect'] == 'ok')
                if nsolve == 0 and got % 4:
                    continue
                jobs.append(dict(rec=r, K=K))
                got += 1
                if got >= n:
                    break
    results = core.pmap('harness.replay_lifecycle', 'replay', jobs, chunksize=4)
    bad = core.machinery_failures(results)
    if bad:
        raise tlc.MachineryError('replay_lifecycle failed: %s\n%s' % (bad[0]['machinery_error'], bad[0].get('tb', '')))
    nsolved = 0
    for job, r in zip(jobs, results):
        rep.count(key=('L', job['K'], r['hsig']))
        nsolved += 1 if r['solved'] else 0
        rep.inconclusive += sum(1 for n in r['notes'] if n == 'inconclusive')
        for f in r['findings']:
            if f['prop'] in props:
                rep.violation(f['sig'], f)
            else:
                d = rep.extra.setdefault('other_property_findings', {})
                d[f['sig']] = d.get(f['sig'], 0) + 1
    rep.traces_validated += len(jobs)
    rep.extra['lifecycle'] = dict(histories=len(jobs), histories_with_checked_solution=nsolved)
    for job in jobs[:2] + jobs[-1:]:
        rep.sample(dict(suite='Lifecycle', history=[(h['act'], h['args'], h['expect']) for h in job['rec']['hist']]))
    if nsolved < len(jobs) // 5:
        raise tlc.MachineryError('Lifecycle: only %d of %d histories reached a checked solution' % (nsolved, len(jobs)))
    return jobs, results
