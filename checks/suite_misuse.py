"""Suite: Misuse.tla (C17): misuse kind x victim front end x bystander front end x timing, all five model classes."""
import json

from harness import tlc, core
from harness.tlc import tla
from harness.replay_misuse import OPT

FRONTS = ['lp', 'socp', 'gcp', 'ro', 'dro']
KINDS = ['st_foreign_lin', 'st_foreign_bound', 'st_foreign_abs', 'st_foreign_norm', 'mix_vars', 'obj_foreign', 'obj_redefine_min', 'obj_redefine_max',
         'obj_nonscalar', 'get_unsolved', 'varget_unsolved', 'get_after_fail', 'varget_after_fail', 'st_not_a_constraint',
         'forall_foreign_set', 'st_foreign_robust', 'ambiguity_after_constraints',
         'robobj_redefine_lo', 'robobj_redefine_hi', 'robobj_nonscalar_lo', 'robobj_nonscalar_hi', 'robobj_foreign_set_lo', 'robobj_foreign_set_hi', 'st_foreign_maxof', 'st_foreign_minof', 'st_foreign_Emaxof',
         'concat_foreign_first', 'concat_foreign_last', 'rstack_foreign', 'vec_foreign', 'sumsqr_two_foreign']


def run(rep, tier, props):
    with tlc.Scratch() as sc:
        model = tlc.make_model('Misuse', sc, constants=dict(Fronts=tla(set(FRONTS)), Kinds=tla(set(KINDS))),
                               invariants=['MisuseRaises', 'EveryKindApplies', 'EveryFrontBothRoles', 'Export'])
        res = tlc.run_tlc(model, sc, workers=4, coverage=True, timeout=600)
        tlc.require_ok(res, 'Misuse')
        rep.add_tlc('Misuse[5 fronts x 5 fronts x %d kinds x timing]' % len(KINDS), res)
        cases = res['exports']
    if len(cases) < 300:
        raise tlc.MachineryError('Misuse: only %d cases' % len(cases))
    jobs = [dict(tid=k, case=c) for k, c in enumerate(sorted(cases, key=lambda c: json.dumps(c, sort_keys=True)))]
    results = core.pmap('harness.replay_misuse', 'replay', jobs, chunksize=8)
    bad = core.machinery_failures(results)
    if bad:
        raise tlc.MachineryError('replay_misuse failed: %s\n%s' % (bad[0]['machinery_error'], bad[0].get('tb', '')))
    stats = dict(cases=len(jobs), raised=0, accepted=0, by_kind={})
    for job, r in zip(jobs, results):
        c = job['case']
        rep.count(key=('MU', c['kind'], c['f'], c['g'], c['when']))
        detail = dict(case=c, result=r)
        stats['by_kind'][c['kind']] = stats['by_kind'].get(c['kind'], 0) + 1
        if r['misuse'] == 'accepted':
            stats['accepted'] += 1
            _emit(rep, dict(sig='C17:misuse-accepted:%s:%s' % (c['kind'], c['f'] if c['kind'] not in ('st_foreign_lin', 'st_foreign_bound', 'st_foreign_abs', 'st_foreign_norm', 'mix_vars', 'obj_foreign', 'st_foreign_robust', 'forall_foreign_set', 'robobj_foreign_set_lo', 'robobj_foreign_set_hi', 'st_foreign_maxof', 'st_foreign_minof', 'st_foreign_Emaxof', 'concat_foreign_first', 'concat_foreign_last', 'rstack_foreign', 'vec_foreign', 'sumsqr_two_foreign') else c['f'] + '<-' + c['g']),
                            prop='C17', what='the misuse did not raise', **detail), props)
        else:
            stats['raised'] += 1
            if r['misuse'].startswith('raised-late'):
                stats['rejected_only_at_formulation'] = stats.get('rejected_only_at_formulation', 0) + 1
        # isolation
        fail_first = c['kind'] in ('get_after_fail', 'varget_after_fail')
        wa = None if fail_first else OPT[1.0]
        for key, want in (('a', wa), ('b', OPT[2.0])):
            got = r[key]
            if isinstance(got, str):
                _emit(rep, dict(sig='C17:model-broken-after-misuse:%s:%s:%s' % (c['kind'], key, c['f' if key == 'a' else 'g']), prop='C17',
                                what='solving model %s after the (refused) misuse raised: %s' % (key, got), **detail), props)
            elif want is None:
                if got is not None:
                    _emit(rep, dict(sig='C17:infeasible-model-solved:%s' % c['f'], prop='C17', what='a contradictory model reports %r' % got, **detail), props)
            elif got is None or abs(got - want) > 1e-6:
                _emit(rep, dict(sig='C17:result-changed-by-misuse:%s:%s:%s' % (c['kind'], key, c['f' if key == 'a' else 'g']), prop='C17',
                                what='model %s reports %r after the misuse, %r without it' % (key, got, want), **detail), props)
    rep.traces_validated += len(jobs)
    rep.extra['misuse_matrix'] = stats
    for job in jobs[:2]:
        rep.sample(dict(suite='Misuse', case=job['case']))
    return jobs, results


def _emit(rep, f, props):
    if f['prop'] in props:
        rep.violation(f['sig'], f)
    else:
        d = rep.extra.setdefault('other_property_findings', {})
        d[f['sig']] = d.get(f['sig'], 0) + 1
