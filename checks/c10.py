"""C10 - only convex uses of convex/concave expressions are accepted."""
from harness import core
from checks import suite_curvature, suite_declorder


def main(tier):
    rep = core.Report('C10', tier, level='model_checking')
    rep.rule = ('every terminal state of Curvature.tla (a chain of dunder calls on an atom class followed by a comparison '
                'with the operand on either side, an equality, or use as min/max objective; plus every ordered pair of '
                'operand kinds for * and @) is replayed on every real atom of the class in the ro front end and in the dro '
                'front end (static and event-wise decisions); one case = (front end, variant, atom, chain, terminal, operand); '
                'distinct = distinct such tuples; non-trivial = every case builds the chain on the real atom and hands it to a '
                'real model; accepted uses additionally solve a pinned model whose optimum is compared with the closed-form '
                'value of the written relation')
    rep.assumptions = ['TLC 1.8 and the CommunityModules',
                       'float closed forms of the atoms in harness/replay_curvature.py (abs, norms, powers, exp, log, '
                       'entropy, softplus, gmean, perspectives, maxof/minof and their expectation on two pinned scenarios)',
                       'HiGHS solves the pinned LPs to 1e-6, ECOS the pinned SOC programs to 1e-5 and exp-cone programs to 5e-4; '
                       'a value deviation counts only beyond 10x the tolerance, otherwise inconclusive',
                       'scalars are dyadic (-2,-1,0,1/2,1,2), operands the constant 1 and one free scalar variable']
    suite_curvature.run(rep, tier, props=('C10',))
    # a decision rule times a random variable must never be compiled: z*y on a not-yet-adapted rule is legal, the adapt() that
    # would turn it into rule x random must raise (DeclOrder.tla: adapt after use, every placement of the early use)
    suite_declorder.run(rep, tier, props=('C10',))
    return rep.finish()


def replay(path):
    from checks import replay_file
    return replay_file.run(path)
