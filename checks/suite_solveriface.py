"""Suite: SolverIface.tla  (C11: all solver interfaces solve the same program and agree)."""
import json
import random

from harness import tlc, core
from harness.tlc import tla

ROW_COEFS = [(1, 1), (1, -1), (-1, 2), (2, 1), (0, 1), (-1, 0), (1, 0), (2, -3)]
OBJ_COEFS = [(1, 1), (1, -1), (-1, -2), (0, 1), (-1, 0), (-2, 1)]
SC = 1000


def configs(tier, rng):
    pats = list(range(1, 16))
    rng.shuffle(pats)
    groups = [pats[i:i + 5] for i in range(0, 15, 5)]
    cfgs = []
    for g in groups:
        cfgs.append(dict(NC=2, Patterns=set(g), VTypes={'C', 'I', 'B'}, RowCoefs=set(rng.sample(ROW_COEFS, 3 if tier == 'quick' else 6)) | {(0, 0)},     # always a row whose terms all vanish: 0 <= rhs / 0 == rhs
                        
                         ObjCoefs=set(rng.sample(OBJ_COEFS, 2 if tier == 'quick' else 5)), Rhs={-1, 1, 2} if tier == 'quick' else {-2, -1, 0, 1, 3},
                         MaxRows=1 if tier == 'quick' else 2))
    return cfgs


def ifaces_for(vt, cone, k, bounded):
    integer = any(v != 'C' for v in vt)
    if cone == 'exp':
        return ['eco']
    if cone in ('norm2', 'square') or cone.startswith('ro-'):
        return ['grb', 'eco'] if not integer else ['grb']
    # ECOS' branch-and-bound (mi_max_iters=1e8 in eco_solver.py) does not return on infeasible or unbounded integer
    # programs (observed: x binary with x <= -1; 2*x0 - 3*x1 == -1 with x0 == 0): a hang cannot be judged, so the
    # ECOS interface is exercised on continuous programs only
    order = ['def', 'ort', 'eco', 'grb'] if not integer else ['def', 'ort', 'grb']
    return order[k % len(order):] + order[:k % len(order)]


def run(rep, tier, props):
    rng = random.Random(rep.seed)
    cap = {'quick': 500, 'thorough': 8000}[tier]
    from concurrent.futures import ThreadPoolExecutor
    with tlc.Scratch() as sc:
        cfgs = configs(tier, rng)

        def one(c):
            consts = {k: tla(v) for k, v in c.items()}
            consts.update(Results='{}', SC='1')
            return tlc.run_tlc(tlc.make_model('SolverIface', sc, constants=consts, invariants=['Export']), sc, workers=2, coverage=False, timeout=3000)
        with ThreadPoolExecutor(max_workers=6) as ex:
            allres = list(ex.map(one, cfgs))
        decls = []
        for ci, (c, res) in enumerate(zip(cfgs, allres)):
            tlc.require_ok(res, 'SolverIface generator %d' % ci)
            rep.add_tlc('SolverIface.gen[patterns=%s]' % sorted(c['Patterns']), res)
            ex_ = sorted(res['exports'], key=lambda r: json.dumps(r['decl'], sort_keys=True))
            rng.shuffle(ex_)
            mixed = [r for r in ex_ if any(v != 'C' for v in r['decl']['vt'])]
            cont = [r for r in ex_ if all(v == 'C' for v in r['decl']['vt'])]
            n = cap // len(cfgs)
            decls.extend(mixed[:2 * n // 3] + cont[:n // 3])
        jobs = []
        cones = ['none', 'none', 'none', 'norm2', 'none', 'square', 'none', 'exp', 'none', 'ro-sumsqr', 'none', 'ro-quad', 'none', 'ro-norm2r2', 'none', 'ro-square']
        for k, d in enumerate(decls):
            cone = cones[k % len(cones)]
            if cone == 'exp' and any(v != 'C' for v in d['decl']['vt']):
                cone = 'none'
            jobs.append(dict(tid=k, decl=d['decl'], cone=cone, ifaces=ifaces_for(d['decl']['vt'], cone, k, d['exact']), variant=k % 4,
                             exact=d['exact'] and cone == 'none', feasible=d['feasible'], opt=d['opt']))
        results = core.pmap('harness.replay_solveriface', 'replay', jobs, chunksize=4)
        bad = core.machinery_failures(results)
        if bad:
            raise tlc.MachineryError('replay_solveriface failed: %s\n%s' % (bad[0]['machinery_error'], bad[0].get('tb', '')))
        items, idx = [], []
        skipped = 0
        for job, r in zip(jobs, results):
            if r.get('status') == 'exception' or r['P'] is None:
                continue
            P = r['P']
            for ri, run_ in enumerate(r['runs']):
                if run_['status'] != 'ok' or run_.get('xlen_mismatch'):
                    continue
                x = run_['x']
                lim = 30 if P['q'] else 2000
                if max(abs(v) for v in x) > lim:
                    skipped += 1
                    continue
                eco = run_['iface'] == 'eco'
                base = 3 if not eco else 6
                rtol = [int(base + 0.6 * sum(abs(a) for a in row)) for row in P['A']]
                items.append(dict(tid=len(items) + 1, P=P, x=[int(round(v * SC)) for v in x], obj=int(round(run_['objval'] * SC)), tol=base,
                                  rtol=rtol, ctol=base * 4, otol=int(base + 0.6 * sum(abs(c) for c in P['c']))))
                idx.append((job['tid'], ri))
        verdicts = {}
        if items:
            consts = dict(NC='2', Patterns='{}', VTypes='{}', RowCoefs='{}', ObjCoefs='{}', Rhs='{}', MaxRows='0', SC=tla(SC),
                          Results='{' + ', '.join(tla(it) for it in items) + '}')
            res = tlc.run_tlc(tlc.make_model('SolverIface', sc, constants=consts, invariants=['Validate']), sc, workers=12, coverage=False, timeout=3000)
            tlc.require_ok(res, 'SolverIface validator')
            rep.add_tlc('SolverIface.validate[scale=%d]' % SC, res)
            if len(res['exports']) != len(items):
                raise tlc.MachineryError('SolverIface validator: %d verdicts for %d items (log %s)' % (len(res['exports']), len(items), res['log']))
            rep.traces_validated += len(items)
            for v in res['exports']:
                verdicts[idx[v['tid'] - 1]] = v
    stats = dict(programs=len(jobs), runs=0, ok=0, fail=0, raised=0, validated=len(verdicts), skipped_large=skipped, exact_checked=0, by_iface={})
    for job, r in zip(jobs, results):
        d = job['decl']
        cls = ('milp' if any(v != 'C' for v in d['vt']) else 'lp') + (':' + job['cone'] if job['cone'] != 'none' else '')
        detail = dict(decl=d, cone=job['cone'], patterns={k: None for k in d['pats']}, result={k: v for k, v in r.items() if k != 'P'})
        if r.get('status') == 'exception':
            rep.count(key=('I', json.dumps(d, sort_keys=True), job['cone'], 'exception'))
            _emit(rep, dict(sig='C11:unexpected-exception:%s:%s' % (r['phase'].split(':')[0], r['exc'].split(':')[0]), prop='C11', what=r['exc'], **detail), props)
            continue
        if not r['formula_unchanged']:
            _emit(rep, dict(sig='C19:formula-changed-by-solving:%s' % cls, prop='C19', what='do_math() differs (or is another object) after solving through the interfaces', **detail), props)
            _emit(rep, dict(sig='C11:formula-changed-by-solving:%s' % cls, prop='C11', what='the compiled program was modified by a solver interface', **detail), props)
        oks, fails = [], []
        for ri, run_ in enumerate(r['runs']):
            rep.count(key=('I', json.dumps(d, sort_keys=True), job['cone'], run_['iface']))
            stats['runs'] += 1
            stats[run_['status']] = stats.get(run_['status'], 0) + 1
            stats['by_iface'][run_['iface']] = stats['by_iface'].get(run_['iface'], 0) + 1
            tag = '%s:%s' % (run_['iface'], cls)
            if run_['status'] == 'raised':
                # name the trigger: an equality row all of whose terms vanish (0 == rhs) is a specific, separately listed input
                trig = ':vanishing-equality-row' if any(rw['sense'] == 1 and not any(rw['coef']) for rw in d['rows']) else ''
                _emit(rep, dict(sig='C11:interface-raised:%s:%s%s' % (tag, run_['exc'].split(':')[0], trig), prop='C11', what='solve() raised %s' % run_['exc'], **detail), props)
                continue
            if run_['status'] == 'ok':
                oks.append(run_)
                if run_.get('xlen_mismatch'):
                    _emit(rep, dict(sig='C11:solution-length:%s' % tag, prop='C11', what='solution vector length differs from the number of columns', **detail), props)
                if abs(run_['get'] - run_['objval']) > 1e-9 * (1 + abs(run_['objval'])):
                    _emit(rep, dict(sig='C12:model-get-differs-from-objval:%s' % tag, prop='C12', what='min model: get() != objval', **detail), props)
                v = verdicts.get((job['tid'], ri))
                if v is not None:
                    for clause in ('bounds', 'rows', 'integral', 'cones', 'obj'):
                        if not v[clause]:
                            _emit(rep, dict(sig='C11:solution-violates-program:%s:%s' % (clause, tag), prop='C11',
                                            what='returned vector violates the compiled program (%s; TLC, exact up to rounding)' % clause, run=run_, **detail), props)
            else:
                if run_['iface'] == 'def' and run_.get('solver_status') == '0':
                    # SciPy/HiGHS said "optimal" (status 0) and handed back NaN entries: rsome reports no solution, which is the safe
                    # reading of an unusable answer of the external solver - not a disagreement between interfaces
                    stats['scipy_status0_without_solution'] = stats.get('scipy_status0_without_solution', 0) + 1
                    rep.inconclusive += 1
                    continue
                fails.append(run_)
                if not run_.get('x_is_none') or run_.get('get') != 'raised' or run_.get('xget') != 'raised':
                    _emit(rep, dict(sig='C11:failure-not-reported-as-no-solution:%s' % tag, prop='C11',
                                    what='after a failed solve: x is None=%s, model.get() %s, x.get() %s' % (run_.get('x_is_none'), run_.get('get'), run_.get('xget')), **detail), props)
        conic = job['cone'] != 'none'
        if oks and fails:
            numerical = conic and all(('numerical' in (f.get('solver_status') or '').lower() or 'close' in (f.get('solver_status') or '').lower()
                                       or 'maximum' in (f.get('solver_status') or '').lower()) for f in fails)
            if numerical:
                rep.inconclusive += 1
            else:
                _emit(rep, dict(sig='C11:interfaces-disagree-on-solvability:%s:%s-vs-%s' % (cls, '+'.join(sorted(o['iface'] for o in oks)), '+'.join(sorted(f['iface'] for f in fails))),
                                prop='C11', what='some interfaces report an optimum, others none', **detail), props)
        if len(oks) > 1:
            vals = [o['objval'] for o in oks]
            tol = (2e-4 if conic else 2e-6) * (1 + abs(vals[0]))
            if max(vals) - min(vals) > 10 * tol:
                lo = min(oks, key=lambda o: o['objval'])['iface']
                hi = max(oks, key=lambda o: o['objval'])['iface']
                _emit(rep, dict(sig='C11:optimal-values-differ:%s:%s-below-%s' % (cls, lo, hi), prop='C11', what='optimal values %s' % {o['iface']: o['objval'] for o in oks}, **detail), props)
            elif max(vals) - min(vals) > tol:
                rep.inconclusive += 1
        if job['exact']:
            stats['exact_checked'] += 1
            if job['feasible']:
                for o in oks:
                    if abs(o['objval'] - job['opt']) > 1e-6 * (1 + abs(job['opt'])):
                        _emit(rep, dict(sig='C11:optimum-differs-from-brute-force:%s:%s' % (o['iface'], cls), prop='C11',
                                        what='%s reports %g, exhaustive enumeration by TLC gives %g' % (o['iface'], o['objval'], job['opt']), **detail), props)
                for f in fails:
                    _emit(rep, dict(sig='C11:feasible-integer-program-not-solved:%s:%s' % (f['iface'], cls), prop='C11', what='TLC optimum %g, interface reports no solution (%s)' % (job['opt'], f.get('solver_status')), **detail), props)
            else:
                for o in oks:
                    _emit(rep, dict(sig='C11:infeasible-integer-program-solved:%s:%s' % (o['iface'], cls), prop='C11', what='TLC: no feasible point; interface reports %g' % o['objval'], **detail), props)
    # ---- MILPs with a weak LP relaxation (number partitioning, 13 binaries): every interface incl. ECOS' branch-and-bound
    wjobs = [dict(tid=k, a=[rng.randint(20, 99) for _ in range(13)], ifaces=['def', 'ort', 'grb', 'eco']) for k in range(3 if tier == 'quick' else 12)]
    wres = core.pmap('harness.replay_solveriface', 'replay_weak_relaxation', wjobs, chunksize=1)
    bad = core.machinery_failures(wres)
    if bad:
        raise tlc.MachineryError('replay_weak_relaxation failed: %s\n%s' % (bad[0]['machinery_error'], bad[0].get('tb', '')))
    stats['weak_relaxation_runs'] = 0
    for job, r in zip(wjobs, wres):
        for run_ in r['runs']:
            rep.count(key=('IW', tuple(job['a']), run_['iface']))
            stats['weak_relaxation_runs'] += 1
            detail = dict(weights=job['a'], brute_force_optimum=r['brute'], run=run_)
            if run_['status'] == 'raised':
                _emit(rep, dict(sig='C11:interface-raised:%s:milp:weak-relaxation' % run_['iface'], prop='C11', what='solve() raised %s' % run_['exc'], **detail), props)
            elif run_['status'] == 'fail':
                _emit(rep, dict(sig='C11:feasible-integer-program-not-solved:%s:milp:weak-relaxation' % run_['iface'], prop='C11',
                                what='brute-force optimum %g, interface reports no solution (%s)' % (r['brute'], run_.get('solver_status')), **detail), props)
            elif abs(run_['objval'] - r['brute']) > 1e-5 or abs(run_['at_x'] - run_['objval']) > 1e-5 or run_['integral'] > 1e-6:
                _emit(rep, dict(sig='C11:optimum-differs-from-brute-force:%s:milp:weak-relaxation' % run_['iface'], prop='C11',
                                what='%s reports %g as optimal (status %s; |a.x - b| at the returned x = %g), exhaustive enumeration gives %g'
                                     % (run_['iface'], run_['objval'], run_.get('solver_status'), run_['at_x'], r['brute']), **detail), props)
    rep.extra['solveriface'] = stats
    for job in jobs[:3]:
        rep.sample(dict(suite='SolverIface', decl=job['decl'], cone=job['cone'], interfaces=job['ifaces']))
    if stats['ok'] < stats['runs'] // 4 or stats['fail'] == 0:
        raise tlc.MachineryError('SolverIface: vacuous outcome classes %s' % stats)
    return jobs, results


def _emit(rep, f, props):
    if f['prop'] in props:
        rep.violation(f['sig'], f)
    else:
        d = rep.extra.setdefault('other_property_findings', {})
        d[f['sig']] = d.get(f['sig'], 0) + 1
