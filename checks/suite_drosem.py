"""Suite: DroSem.tla  (C03 safety over the ambiguity set, C04 exactness; non-anticipativity clause of C13).

1. TLC (generator) enumerates dro programs with the finite family of member distributions and, on the
   sub-family without expectation information, the exact optimum over the integer decision grid.
2. Each program is built through rsome.dro and solved.
3. The returned decisions go back to TLC (validator): rows at every support vertex, objective and
   E-constraints under every member distribution (exact rational membership), one rule per event.
4. Float oracle outside TLC: primal moment LP (worst-case expectation at the returned solution) and a
   cutting-plane loop for the true optimum under the declared adaptation.
"""
import json
import random

from harness import tlc, core
from harness.tlc import tla

XB = 3


def configs(tier, rng):
    cfgs = []
    base = dict(NSs={1, 2, 3}, IntChoices={True, False}, EConChoices={0, 11, 12})
    if tier == 'quick':
        cfgs.append(dict(base, SuppKinds={1, 7, 4}, ProbKinds={1, 2, 4}, ExptKinds={0}, Forms={'B'}, PieceSets={rng.choice([1, 2, 3, 4, 5]), 6}, Parts={0}, Affs={'a0'}, EConChoices={0, 11}))
        cfgs.append(dict(base, SuppKinds={3, 5, 6}, ProbKinds={3, 5}, ExptKinds={1, 2, 3, 4, 5, 6}, Forms={'B'}, PieceSets={rng.choice([1, 2, 3, 4, 5]), 7}, Parts={0}, Affs={'a0'}, EConChoices={0, 12}, IntChoices={False}))
        cfgs.append(dict(base, SuppKinds={8, 7, 4}, ProbKinds={1, 2, 5}, ExptKinds={0, 1, 3}, Forms={'A'}, PieceSets={1, rng.choice([2, 3, 4])}, Parts={0, 1, 2}, Affs={'a0', 'a1', 'a12'}, EConChoices={0}, IntChoices={False}))
        cfgs.append(dict(base, SuppKinds={1, 5, 6}, ProbKinds={1, 3, 4}, ExptKinds={0, 2, 4, 5}, Forms={'A'}, PieceSets={rng.choice([1, 5]), 3}, Parts={0, 1, 2}, Affs={'a0', 'a12'}, EConChoices={0, 11}, IntChoices={False}))
    else:
        allk = dict(SuppKinds={1, 2, 3, 4, 5, 6, 7, 8}, ProbKinds={1, 2, 3, 4, 5}, PieceSets={1, 2, 3, 4, 5, 6, 7})
        cfgs.append(dict(base, **allk, ExptKinds={0}, Forms={'B'}, Parts={0}, Affs={'a0'}))
        cfgs.append(dict(base, **allk, ExptKinds={1, 2, 3, 4, 5, 6}, Forms={'B'}, Parts={0}, Affs={'a0'}, IntChoices={False}))
        cfgs.append(dict(base, **allk, ExptKinds={0, 1, 2, 3, 4, 5, 6}, Forms={'A'}, Parts={0, 1, 2}, Affs={'a0', 'a1', 'a12'}, IntChoices={False}, EConChoices={0, 11}))
    return cfgs


def gen_constants(c):
    d = {k: tla(v) for k, v in c.items()}
    d.update(XB=tla(XB), Results='{}', SC='1')
    return d


def scaled(v, scale):
    return int(round(v * scale))


def run(rep, tier, props):
    rng = random.Random(rep.seed)
    cap = {'quick': 350, 'thorough': 5000}[tier]
    from concurrent.futures import ThreadPoolExecutor
    with tlc.Scratch() as sc:
        cfgs = configs(tier, rng)

        def one(c):
            model = tlc.make_model('DroSem', sc, constants=gen_constants(c), invariants=['Export'])
            return tlc.run_tlc(model, sc, workers=2, coverage=False, timeout=3000)
        with ThreadPoolExecutor(max_workers=6) as ex:
            allres = list(ex.map(one, cfgs))
        recs = []
        for ci, (c, res) in enumerate(zip(cfgs, allres)):
            tlc.require_ok(res, 'DroSem generator %d' % ci)
            rep.add_tlc('DroSem.gen[forms=%s,expt=%s]' % (sorted(c['Forms']), sorted(c['ExptKinds'])), res)
            if not res['exports']:
                raise tlc.MachineryError('DroSem generator %d exported nothing' % ci)
            ex_ = sorted(res['exports'], key=lambda r: json.dumps(r['prog'], sort_keys=True))
            rng.shuffle(ex_)
            recs.extend(ex_[:cap])
        jobs = []
        for k, rec in enumerate(recs):
            conic = rec['prog']['supp'] == 4 or rec['prog']['prob'] == 5   # 1-norm sets are LP-representable: any solver
            solver = ('def', 'ort', 'grb')[k % 3] if rec['prog']['xint'] else ('def', 'ort', 'eco', 'grb')[k % 4]
            if rec['prog']['supp'] == 7:
                solver = 'eco'        # exponential-cone support: the only capable interface
            jobs.append(dict(tid=k, rec=rec, XB=XB, solver=solver, variant=k % 6))
        results = core.pmap('harness.replay_drosem', 'replay', jobs, chunksize=4)
        bad = core.machinery_failures(results)
        if bad:
            raise tlc.MachineryError('replay_drosem failed: %s\n%s' % (bad[0]['machinery_error'], bad[0].get('tb', '')))
        scale, tolu = 10000, 8
        items, idx = [], []
        for job, r in zip(jobs, results):
            if r['status'] == 'exception':
                continue
            rec = job['rec']
            ns = rec['prog']['ns']
            if r['status'] == 'ok':
                it = dict(prog=rec['prog'], status='ok', x=scaled(r['x'], scale), obj=scaled(r['obj'], scale),
                          ys=[[scaled(v, scale) for v in y] for y in r['ys']], tol=tolu if rec['prog']['supp'] != 7 else 60)
            else:
                it = dict(prog=rec['prog'], status='fail', x=0, obj=0, ys=[[0, 0, 0]] * ns, tol=tolu)
            it.update(exact=rec['exact'], gridFeasible=rec['gridFeasible'], gridOptDen=rec['gridOptDen'])
            items.append(it)
            idx.append(job['tid'])
        verdicts = {}
        if items:
            consts = dict(NSs='{}', SuppKinds='{}', ProbKinds='{}', ExptKinds='{}', Forms='{}', PieceSets='{}', EConChoices='{}', Parts='{}',
                          Affs='{}', IntChoices='{}', XB=tla(XB), SC=tla(scale),
                          Results='{' + ', '.join(tla(dict(it, tid=k + 1)) for k, it in enumerate(items)) + '}')
            model = tlc.make_model('DroSem', sc, constants=consts, invariants=['Validate'])
            res = tlc.run_tlc(model, sc, workers=12, coverage=False, timeout=3000)
            tlc.require_ok(res, 'DroSem validator')
            rep.add_tlc('DroSem.validate[scale=%d]' % scale, res)
            if len(res['exports']) != len(items):
                raise tlc.MachineryError('DroSem validator: %d verdicts for %d results (log %s)' % (len(res['exports']), len(items), res['log']))
            rep.traces_validated += len(items)
            for v in res['exports']:
                verdicts[idx[v['tid'] - 1]] = v
    stats = dict(ok=0, fail=0, exception=0, oracle_ok=0, oracle_other={}, formA=0, with_expt=0)
    for job, r in zip(jobs, results):
        rec = job['rec']
        p = rec['prog']
        rep.count(key=('D', json.dumps(p, sort_keys=True), job['solver'], job['variant'] % 2))
        tag = 'supp%d:prob%d:expt%d:form%s:part%d:%s' % (p['supp'], p['prob'], p['expt'], p['form'], p['part'], p['aff'])
        detail = dict(program=p, solver=job['solver'], variant=job['variant'], result=r, pieces=[rec['piece1'], rec['piece2']], econ=rec['econ'],
                      verts=rec['verts'], pverts=rec['pverts'], expts=rec['expts'])
        stats['formA'] += p['form'] == 'A'
        stats['with_expt'] += p['expt'] != 0
        if r['status'] == 'exception':
            stats['exception'] += 1
            _emit(rep, dict(sig='C03:unexpected-exception:%s:%s:form%s' % (r['phase'], r['exc'].split(':')[0], p['form']), prop='C03', what=r['exc'], **detail), props)
            continue
        stats[r['status']] += 1
        v = verdicts[job['tid']]
        cls = 'expt%d:form%s' % (p['expt'], p['form'])
        if not v['rows']:
            _emit(rep, dict(sig='C03:row-violated-at-support-vertex:' + tag, prop='C03', what='a constraint written without E is violated at a vertex of a scenario support (TLC PostRows)', **detail), props)
        if not v['obj']:
            _emit(rep, dict(sig='C03:member-distribution-beats-optimum:' + tag, prop='C03', what='expected objective under a member distribution exceeds the reported optimum (TLC PostObj)', **detail), props)
        if not v['econ']:
            _emit(rep, dict(sig='C03:E-constraint-violated-by-member:' + tag, prop='C03', what='an E-constraint is violated under a member distribution (TLC PostECon)', **detail), props)
        if not v['nonanticip']:
            _emit(rep, dict(sig='C13:dro-rule-differs-within-event-or-undeclared-dependency:' + tag, prop='C13', what='PostNonAnticip', **detail), props)
        if not v['tight']:
            _emit(rep, dict(sig='C04:worse-than-grid-decision:' + tag, prop='C04', what='reported optimum is worse than the exact value of an integer decision (TLC PostTight)', **detail), props)
        if not v['exact']:
            _emit(rep, dict(sig='C04:integer-optimum-differs:' + tag, prop='C04', what='integer model: reported optimum below the exact grid optimum (TLC PostExact)', **detail), props)
        if not v['status'] and not (p['supp'] == 7 and not any(w in (r.get('solver_status') or '').lower() for w in ('infeasible', 'unbounded'))):
            _emit(rep, dict(sig='C04:feasible-model-not-solved:' + tag, prop='C04', what='a feasible grid decision exists but no solution was reported', **detail), props)
        # float oracle
        tol = 5e-4 if p['supp'] == 7 else (5e-5 if job['solver'] == 'eco' else 5e-6)
        if r['status'] == 'ok' and r.get('wce') is not None:
            d = r['wce'] - r['obj']
            if d > 10 * tol * (1 + abs(r['obj'])):
                _emit(rep, dict(sig='C03:worst-case-expectation-exceeds-optimum:' + tag, prop='C03',
                                what='moment LP: worst-case expectation at the returned solution is %.6g, reported optimum %.6g' % (r['wce'], r['obj']), **detail), props)
            elif d > tol * (1 + abs(r['obj'])):
                rep.inconclusive += 1
            if r.get('wce_econ') is not None and r['wce_econ'] > 10 * tol * 10:
                _emit(rep, dict(sig='C03:E-constraint-worst-case-positive:' + tag, prop='C03', what='moment LP: sup E(h) = %.6g > 0 at the returned solution' % r['wce_econ'], **detail), props)
        opt = r.get('opt') or {}
        if opt.get('status') == 'ok':
            stats['oracle_ok'] += 1
            if r['status'] == 'ok':
                d = r['obj'] - opt['val']
                if abs(d) > 10 * tol * (1 + abs(opt['val'])):
                    if d > 0:
                        _emit(rep, dict(sig='C04:optimum-above-true-infsup:' + tag, prop='C04', what='reported optimum %.6g, true optimum under the declared adaptation %.6g' % (r['obj'], opt['val']), **detail), props)
                    else:
                        _emit(rep, dict(sig='C03:optimum-below-true-infsup:' + tag, prop='C03', what='reported optimum %.6g is below the true inf-sup %.6g' % (r['obj'], opt['val']), **detail), props)
                elif abs(d) > tol * (1 + abs(opt['val'])):
                    rep.inconclusive += 1
            else:
                ss = (r.get('solver_status') or '').lower()
                if p['supp'] == 7 and not ('infeasible' in ss or 'unbounded' in ss):
                    # exponential-cone supports can only be solved by ECOS here; "numerical problems" / "close to optimal" /
                    # iteration limits on these degenerate cones are the solver giving up, not a verdict about the model
                    rep.inconclusive += 1
                    stats['ecos_gave_up'] = stats.get('ecos_gave_up', 0) + 1
                else:
                    _emit(rep, dict(sig='C04:feasible-model-not-solved:' + tag + ':' + job['solver'], prop='C04', what='the model has optimum %.6g but rsome reported no solution (%s)' % (opt['val'], r.get('solver_status')), **detail), props)
        else:
            st = opt.get('status', 'none')
            stats['oracle_other'][st] = stats['oracle_other'].get(st, 0) + 1
            if st == 'infeasible' and r['status'] == 'ok':
                _emit(rep, dict(sig='C03:infeasible-model-solved:' + tag, prop='C03', what='oracle: no decision satisfies the model, rsome reports an optimum', **detail), props)
    rep.extra.setdefault('drosem', {}).update(stats)
    for job in jobs[:3]:
        rep.sample(dict(suite='DroSem', program=job['rec']['prog'], members=job['rec']['nmembers'], solver=job['solver']))
    if stats['ok'] < len(jobs) // 3:
        raise tlc.MachineryError('DroSem: only %d of %d programs solved' % (stats['ok'], len(jobs)))
    return jobs, results


def _emit(rep, f, props):
    if f['prop'] in props:
        rep.violation(f['sig'], f)
    else:
        d = rep.extra.setdefault('other_property_findings', {})
        d[f['sig']] = d.get(f['sig'], 0) + 1
