"""Suite: DroSem.tla  (C03 safety over the ambiguity set, C04 exactness; non-anticipativity clause of C13).

1. TLC (generator) enumerates dro programs with the finite family of member distributions and, on the
   sub-family without expectation information, the exact optimum over the integer decision grid.
2. Each program is built through rsome.dro and solved.
3. The returned decisions go back to TLC (validator): rows at every support vertex, objective and
   E-constraints under every member distribution (exact rational membership), one rule per event.
4. Float oracle outside TLC: primal moment LP (worst-case expectation at the returned solution) and a
   cutting-plane loop for the true optimum under the declared adaptation.
5. Lifted supports with auxiliary random variables (mean absolute deviation, Wasserstein-style 1/inf/2-norm), expectation
   sets on the auxiliary variable, decisions adapting to it, KL / 2-norm probability sets: TLC members carry two atoms
   per scenario; the oracle works on the vertices + extreme rays of the lifted polyhedra (harness/liftpoly.py, verified
   in every run) and sandwiches the non-polyhedral sets (inner description for C03, outer for C04).
6. Conic expectation sets || E z - mu || <= r (1-, inf-, 2-norm; members exact in TLC, 2-norm disc sandwiched between polygons
   in the moment LP), rows with their OWN support through constraint.forall(second ambiguity set | list of support
   constraints) (TLC checks the rows on that support, the oracle puts the row cuts there), and the piecewise objective
   WITHOUT expectation minsup(maxof(..)) (form C: worst case over all supports; exact grid optimum from TLC).
"""
import json
import random

from harness import tlc, core, liftpoly
from harness.tlc import tla

XB = 3
# the kinds added for lifted / non-polyhedral sets, conic expectation sets, rows with their own support (forall), piecewise objective without E
NEW = dict(supp=(9, 10, 11, 12), prob=(6, 7, 8, 9), expt=(7, 8, 9, 10, 11, 12, 13, 14, 15), aff=('au', 'a12u'), rsupp=(1, 2, 3, 4, 8), form=('C',))


def configs(tier, rng):
    cfgs = []
    base = dict(NSs={1, 2, 3}, IntChoices={True, False}, EConChoices={0, 11, 12}, RowSupps={0})
    if tier == 'quick':
        cfgs.append(dict(base, SuppKinds={1, 7, 4}, ProbKinds={1, 2, 4}, ExptKinds={0}, Forms={'B'}, PieceSets={rng.choice([1, 2, 3, 4, 5]), 6}, Parts={0}, Affs={'a0'}, EConChoices={0, 11, 108, 111}))
        cfgs.append(dict(base, SuppKinds={3, 5, 6}, ProbKinds={3, 5}, ExptKinds={1, 2, 3, 4, 5, 6}, Forms={'B'}, PieceSets={rng.choice([1, 2, 3, 4, 5]), 7}, Parts={0}, Affs={'a0'}, EConChoices={0, 12}, IntChoices={False}))
        cfgs.append(dict(base, SuppKinds={8, 7, 4}, ProbKinds={1, 2, 5}, ExptKinds={0, 1, 3}, Forms={'A'}, PieceSets={1, rng.choice([2, 3, 4])}, Parts={0, 1, 2}, Affs={'a0', 'a1', 'a12'}, EConChoices={0}, IntChoices={False}))
        cfgs.append(dict(base, SuppKinds={1, 5, 6}, ProbKinds={1, 3, 4}, ExptKinds={0, 2, 4, 5}, Forms={'A'}, PieceSets={rng.choice([1, 5]), 3}, Parts={0, 1, 2}, Affs={'a0', 'a12'}, EConChoices={0, 11}, IntChoices={False}))
        # lifted supports (LP-representable), expectation information on the auxiliary variable, rules adapting to it
        cfgs.append(dict(base, NSs={2, 3}, SuppKinds={9, 10, 11}, ProbKinds={1, rng.choice([2, 3, 4, 5])}, ExptKinds={7, 8, 9, 10, 11}, Forms={'A', 'B'},
                         PieceSets={rng.choice([1, 2]), rng.choice([3, 4, 5])}, Parts={0, 1}, Affs={'a0', 'a12', 'au', 'a12u'}, EConChoices={0, rng.choice([11, 12])},
                         cap=150, tag='lifted'))
        # cone programs: 2-norm Wasserstein supports, KL / 2-norm probability sets (sandwiched by the oracle)
        cfgs.append(dict(base, NSs={2, 3}, SuppKinds={12, rng.choice([2, 8]), rng.choice([9, 10, 11])}, ProbKinds={1, 6, 7, 8, 9}, ExptKinds={0, rng.choice([7, 8]), rng.choice([9, 10, 11])},
                         Forms={'A', 'B'}, PieceSets={rng.choice([1, 2, 3]), rng.choice([4, 5, 6])}, Parts={0, rng.choice([1, 2])}, Affs={'a0', 'a12', rng.choice(['au', 'a12u'])},
                         EConChoices={0, 11}, IntChoices={False}, cap=150, tag='conic'))
        # rows with their own support (forall: second ambiguity set / list of constraints), conic expectation sets
        cfgs.append(dict(base, NSs={2, 3}, SuppKinds={rng.choice([2, 8]), 3, 4}, ProbKinds={1, rng.choice([2, 4, 5, 7])}, ExptKinds={0, rng.choice([12, 13]), rng.choice([14, 15])}, Forms={'A'},
                         PieceSets={rng.choice([1, 2, 3]), rng.choice([4, 5, 6, 7])}, Parts={0, 1}, Affs={'a0', 'a12'}, EConChoices={0}, IntChoices={False},
                         RowSupps={0, 1, 2, 3, 4, 8}, cap=120, tag='rows'))
        # piecewise objective without expectation (form C) next to E(maxof) under conic expectation sets
        cfgs.append(dict(base, NSs={2, 3}, SuppKinds={1, 3, 4, rng.choice([2, 5, 6, 8]), rng.choice([9, 10, 11])}, ProbKinds={1, rng.choice([2, 3, 4, 5]), rng.choice([6, 8])}, ExptKinds={0, 12, 13, 14, 15},
                         Forms={'B', 'C'}, PieceSets={rng.choice([1, 2, 3, 4]), rng.choice([5, 6, 7])}, Parts={0}, Affs={'a0'}, EConChoices={0, rng.choice([11, 12])},
                         cap=120, tag='formC'))
    else:
        allk = dict(SuppKinds={1, 2, 3, 4, 5, 6, 7, 8}, ProbKinds={1, 2, 3, 4, 5}, PieceSets={1, 2, 3, 4, 5, 6, 7})
        cfgs.append(dict(base, **allk, ExptKinds={0}, Forms={'B'}, Parts={0}, Affs={'a0'}))
        cfgs.append(dict(base, **allk, ExptKinds={1, 2, 3, 4, 5, 6}, Forms={'B'}, Parts={0}, Affs={'a0'}, IntChoices={False}))
        cfgs.append(dict(base, **allk, ExptKinds={0, 1, 2, 3, 4, 5, 6}, Forms={'A'}, Parts={0, 1, 2}, Affs={'a0', 'a1', 'a12'}, IntChoices={False}, EConChoices={0, 11}))
        # new kinds x forms x partitions (split by form / scenario count: TLC builds the program set in one thread)
        allp = {1, 2, 3, 4, 5, 6, 7}
        for ns in (2, 3):
            cfgs.append(dict(base, NSs={ns}, SuppKinds={9, 10, 11}, ProbKinds={1, 2, 3, 4, 5}, ExptKinds={0, 2, 5, 7, 8, 9, 10, 11}, Forms={'A'}, PieceSets=allp, Parts={0, 1, 2},
                             Affs={'a0', 'a1', 'a12', 'au', 'a12u'}, EConChoices={0, 11}, IntChoices={False}, cap=900, tag='lifted'))
            cfgs.append(dict(base, NSs={ns}, SuppKinds={2, 5, 9, 10, 11, 12}, ProbKinds={1, 6, 7, 8, 9}, ExptKinds={0, 1, 4, 7, 8, 9, 10, 11}, Forms={'A'}, PieceSets=allp, Parts={0, 1, 2},
                             Affs={'a0', 'a1', 'a12', 'au', 'a12u'}, EConChoices={0, 11}, IntChoices={False}, cap=900, tag='conic'))
        cfgs.append(dict(base, NSs={2, 3}, SuppKinds={9, 10, 11}, ProbKinds={1, 2, 3, 4, 5}, ExptKinds={0, 2, 5, 7, 8, 9, 10, 11}, Forms={'B'}, PieceSets=allp, Parts={0}, Affs={'a0'},
                         cap=900, tag='lifted'))
        cfgs.append(dict(base, NSs={2, 3}, SuppKinds={2, 5, 9, 10, 11, 12}, ProbKinds={1, 6, 7, 8, 9}, ExptKinds={0, 1, 4, 7, 8, 9, 10, 11}, Forms={'B'}, PieceSets=allp, Parts={0}, Affs={'a0'},
                         IntChoices={False}, cap=900, tag='conic'))
        for ns in (2, 3):
            cfgs.append(dict(base, NSs={ns}, SuppKinds={2, 3, 4, 8}, ProbKinds={1, 2, 5, 7}, ExptKinds={0, 5, 12, 13, 14, 15}, Forms={'A'}, PieceSets={1, 3, 4, 6}, Parts={0, 1, 2},
                             Affs={'a0', 'a1', 'a12'}, EConChoices={0, 11}, IntChoices={False}, RowSupps={0, 1, 2, 3, 4, 8}, cap=900, tag='rows'))
        for form in ('B', 'C'):
            cfgs.append(dict(base, NSs={2, 3}, SuppKinds={1, 2, 3, 4, 5, 6, 7, 8, 9, 10, 11, 12}, ProbKinds={1, 2, 4, 6, 7}, ExptKinds={0, 2, 5, 7, 12, 13, 14, 15}, Forms={form},
                             PieceSets={1, 2, 4, 5, 6, 7}, Parts={0}, Affs={'a0'}, cap=900, tag='formC'))
    return cfgs


def is_new(p):
    return p['supp'] in NEW['supp'] or p['prob'] in NEW['prob'] or p['expt'] in (14, 15)


def soc_program(p):
    return p['supp'] == 12 or p['prob'] in (7, 9) or p['expt'] in (14, 15)


def stratified(recs, cap, rng):
    """A sample of `cap` programs in which every value of every program field that occurs in recs occurs (several times
    where possible): first up to 4 programs per (field, value), then the head of the (already shuffled) list."""
    chosen, seen = [], set()

    def take(r):
        k = json.dumps(r['prog'], sort_keys=True)
        if k not in seen:
            seen.add(k)
            chosen.append(r)
    for f in ('supp', 'prob', 'expt', 'aff', 'form', 'part', 'ns', 'rsupp'):
        vals = sorted({r['prog'][f] for r in recs}, key=str)
        for v in vals:
            n = 0
            for r in recs:
                if r['prog'][f] == v:
                    take(r)
                    n += 1
                    if n >= 4:
                        break
    for r in recs:
        if len(chosen) >= cap:
            break
        take(r)
    return chosen


def check_catalogues(recs, rep):
    """The three descriptions of the new sets must say the same thing: TLC atoms / probability points (DroSem.tla), the
    oracle's half-spaces, vertices, rays and polygons (liftpoly), the defining formulas (liftpoly.true_member /
    prob_member, which repeat what replay_drosem.build declares).  Any disagreement is a machinery error."""
    import numpy as np
    nrng = np.random.default_rng(rep.seed)
    done, out = set(), []
    try:
        for rec in recs:
            p = rec['prog']
            if p['supp'] in liftpoly.LIFTED:
                if rec['nu'] != liftpoly.nu_of(p['supp']):
                    raise AssertionError('NU differs between DroSem.tla and liftpoly for kind %d' % p['supp'])
                for s in range(p['ns']):
                    key = ('supp', p['supp'], s)
                    if key in done:
                        continue
                    done.add(key)
                    out.append(liftpoly.selftest_lifted(p['supp'], s, rec['centres'], nrng))
                    inner, outer = liftpoly.lifted(p['supp'], s, rec['centres'])
                    for a in rec['verts'][s]:
                        a = np.array(a, dtype=float)
                        if len(a) != 2 + rec['nu'] or not liftpoly.true_member(p['supp'], s, rec['centres'], a):
                            raise AssertionError('TLC atom %r of kind %d scenario %d is not in the declared support' % (a, p['supp'], s + 1))
                        if np.any(outer['A'] @ a > outer['b'] + 1e-9):
                            raise AssertionError('TLC atom %r of kind %d scenario %d is outside the oracle polyhedron' % (a, p['supp'], s + 1))
            elif rec['nu'] != 0:
                raise AssertionError('NU differs between DroSem.tla and liftpoly for kind %d' % p['supp'])
            if p['prob'] in liftpoly.PROBSETS:
                key = ('prob', p['prob'], p['ns'])
                if key not in done:
                    done.add(key)
                    out.append(liftpoly.selftest_prob(p['prob'], p['ns'], nrng, pverts=[[w / 60.0 for w in v] for v in rec['pverts']]))
    except AssertionError as e:
        raise tlc.MachineryError('DroSem catalogue check failed: %s' % (e,))
    rep.extra.setdefault('drosem', {})['catalogue_checks'] = len(out)
    return out


def float_tol(p, solver):
    """Relative tolerance of the solver on this program class (a violation needs 10x)."""
    if p['supp'] == 7 or p['prob'] in (6, 8) or solver == 'soc-grb':
        return 5e-4                      # exponential cones (ECOS / SOC approximation)
    if solver == 'eco':
        return 5e-5
    if soc_program(p):
        return 1e-5                      # second-order cones (Gurobi)
    return 5e-6


def gen_constants(c):
    d = {k: tla(v) for k, v in c.items() if k not in ('cap', 'tag')}
    d.update(XB=tla(XB), Results='{}', SC='1')
    return d


def scaled(v, scale):
    return int(round(v * scale))


def run(rep, tier, props):
    rng = random.Random(rep.seed)
    cap = {'quick': 350, 'thorough': 5000}[tier]
    from concurrent.futures import ThreadPoolExecutor
    with tlc.Scratch() as sc:
        cfgs = configs(tier, rng)

        def one(c):
            model = tlc.make_model('DroSem', sc, constants=gen_constants(c), invariants=['Export'])
            return tlc.run_tlc(model, sc, workers=2, coverage=False, timeout=3000)
        with ThreadPoolExecutor(max_workers=8) as ex:
            allres = list(ex.map(one, cfgs))
        recs = []
        for ci, (c, res) in enumerate(zip(cfgs, allres)):
            tlc.require_ok(res, 'DroSem generator %d' % ci)
            rep.add_tlc('DroSem.gen[forms=%s,expt=%s]' % (sorted(c['Forms']), sorted(c['ExptKinds'])), res)
            if not res['exports']:
                raise tlc.MachineryError('DroSem generator %d exported nothing' % ci)
            ex_ = sorted(res['exports'], key=lambda r: json.dumps(r['prog'], sort_keys=True))
            rng.shuffle(ex_)
            recs.extend(stratified(ex_, c['cap'], rng) if 'cap' in c else ex_[:cap])
        geom = check_catalogues(recs, rep)
        jobs = []
        for k, rec in enumerate(recs):
            conic = rec['prog']['supp'] == 4 or rec['prog']['prob'] == 5   # 1-norm sets are LP-representable: any solver
            solver = ('def', 'ort', 'grb')[k % 3] if rec['prog']['xint'] else ('def', 'ort', 'eco', 'grb')[k % 4]
            if rec['prog']['supp'] == 7 or rec['prog']['prob'] in (6, 8):
                solver = 'eco'        # exponential-cone support / KL divergence: the only capable interface
            elif soc_program(rec['prog']):
                solver = ('eco', 'grb')[k % 2]     # second-order cones
            variant = k % 6
            # a sub-event given as a LIST of labels only bites when the labels are not the positions: every other such program
            # gets the 1-based integer labels (variant 3), where a label taken for a position names another scenario
            if rec['prog']['ns'] == 3 and any(len(ex['ev']) == 2 for ex in rec['expts']) and k % 2 == 0:
                variant = 3
            jobs.append(dict(tid=k, rec=rec, XB=XB, solver=solver, variant=variant))
        results = core.pmap('harness.replay_drosem', 'replay', jobs, chunksize=4)
        bad = core.machinery_failures(results)
        if bad:
            raise tlc.MachineryError('replay_drosem failed: %s\n%s' % (bad[0]['machinery_error'], bad[0].get('tb', '')))
        scale, tolu = 10000, 8
        items, idx = [], []
        too_big = set()
        for job, r in zip(jobs, results):
            if r['status'] == 'exception':
                continue
            rec = job['rec']
            ns = rec['prog']['ns']
            if r['status'] == 'ok':
                big = max([abs(r['obj']), abs(r['x'])] + [abs(v) for y in r['ys'] for v in y])
                if big > 80:              # 4 * DEN * scale * value * coordinate must stay below 2^31 inside TLC
                    too_big.add(job['tid'])
                    continue
                tu = tolu if rec['prog']['supp'] != 7 else 60
                if is_new(rec['prog']):
                    tu = max(tu, int(10 * float_tol(rec['prog'], r['solver']) * (1 + abs(r['obj'])) * scale) + 1)
                it = dict(prog=rec['prog'], status='ok', x=scaled(r['x'], scale), obj=scaled(r['obj'], scale),
                          ys=[[scaled(v, scale) for v in y] for y in r['ys']], tol=tu)
            else:
                it = dict(prog=rec['prog'], status='fail', x=0, obj=0, ys=[[0, 0, 0, 0, 0]] * ns, tol=tolu)
            it.update(exact=rec['exact'], gridFeasible=rec['gridFeasible'], gridOptDen=rec['gridOptDen'])
            items.append(it)
            idx.append(job['tid'])
        verdicts = {}
        if items:
            # TLC evaluates the invariant on initial states in ONE thread: split the results over several TLC processes
            # (dealt round-robin after sorting by the size of the member family, so that the chunks cost about the same)
            def cost(k):
                pr = items[k]['prog']
                return (pr['supp'] in NEW['supp']) * (10 ** pr['ns']) + 1
            order = sorted(range(len(items)), key=lambda k: (-cost(k), k))
            nch = min(8, max(1, len(items) // 40))
            chunks = [order[c::nch] for c in range(nch)]
            models = []
            for ch in chunks:
                consts = dict(NSs='{}', SuppKinds='{}', ProbKinds='{}', ExptKinds='{}', Forms='{}', PieceSets='{}', EConChoices='{}', Parts='{}',
                              Affs='{}', IntChoices='{}', RowSupps='{}', XB=tla(XB), SC=tla(scale),
                              Results='{' + ', '.join(tla(dict(items[k], tid=k + 1)) for k in ch) + '}')
                models.append(tlc.make_model('DroSem', sc, constants=consts, invariants=['Validate']))
            with ThreadPoolExecutor(max_workers=nch) as ex:
                vres = list(ex.map(lambda mdl: tlc.run_tlc(mdl, sc, workers=2, coverage=False, timeout=3000), models))
            nver = 0
            for ci, res in enumerate(vres):
                tlc.require_ok(res, 'DroSem validator %d' % ci)
                rep.add_tlc('DroSem.validate[scale=%d,chunk=%d/%d]' % (scale, ci + 1, nch), res)
                nver += len(res['exports'])
                for v in res['exports']:
                    verdicts[idx[v['tid'] - 1]] = v
            if nver != len(items) or len(verdicts) != len(items):
                raise tlc.MachineryError('DroSem validator: %d verdicts for %d results (log %s)' % (nver, len(items), vres[0]['log']))
            rep.traces_validated += len(items)
    stats = dict(ok=0, fail=0, exception=0, oracle_ok=0, oracle_other={}, formA=0, with_expt=0, members_checked=0, not_validated_by_tlc_magnitude=len(too_big),
                 lifted_programs=0, lifted_solved=0, kl_programs=0, kl_solved=0, norm2_programs=0, norm2_solved=0, two_atom_member_programs=0,
                 soc_fallback=0, sandwich_programs=0)
    solved_kinds = {f: {} for f in NEW}
    for job, r in zip(jobs, results):
        rec = job['rec']
        p = rec['prog']
        rep.count(key=('D', json.dumps(p, sort_keys=True), job['solver'], job['variant'] % 2))
        okr = r['status'] == 'ok'
        if p['supp'] in NEW['supp']:
            stats['lifted_programs'] += 1; stats['lifted_solved'] += okr
        if p['prob'] in (6, 8):
            stats['kl_programs'] += 1; stats['kl_solved'] += okr
        if p['prob'] in (7, 9):
            stats['norm2_programs'] += 1; stats['norm2_solved'] += okr
        stats['soc_fallback'] += r.get('solver') == 'soc-grb'
        stats['sandwich_programs'] += bool(r.get('sandwich'))
        if okr:
            for f in NEW:
                if p[f] in NEW[f]:
                    d = solved_kinds[f].setdefault(p[f], {})
                    d[p['form']] = d.get(p['form'], 0) + 1
        tag = 'supp%d:prob%d:expt%d:form%s:part%d:%s' % (p['supp'], p['prob'], p['expt'], p['form'], p['part'], p['aff'])
        if p['rsupp']:
            tag += ':rows%d' % p['rsupp']
        detail = dict(program=p, solver=job['solver'], variant=job['variant'], result=r, pieces=[rec['piece1'], rec['piece2']], econ=rec['econ'],
                      verts=rec['verts'], pverts=rec['pverts'], expts=rec['expts'], row_support=rec['rverts'])
        stats['formA'] += p['form'] == 'A'
        stats['with_expt'] += p['expt'] != 0
        if r['status'] == 'exception':
            stats['exception'] += 1
            _emit(rep, dict(sig='C03:unexpected-exception:%s:%s:form%s' % (r['phase'], r['exc'].split(':')[0], p['form']), prop='C03', what=r['exc'], **detail), props)
            continue
        stats[r['status']] += 1
        if job['tid'] in too_big:
            rep.inconclusive += 1
            v = dict(rows=True, obj=True, econ=True, nonanticip=True, tight=True, exact=True, status=True, nmem=0)
        else:
            v = verdicts[job['tid']]
        stats['members_checked'] += v['nmem']
        if okr and p['supp'] in NEW['supp'] and v['nmem'] > 0:
            stats['two_atom_member_programs'] += 1
        gave_up = (r['status'] == 'fail' and job['solver'] in ('eco', 'grb') and (is_new(p) or p['supp'] == 7)
                   and not any(w in (r.get('solver_status') or '').lower() for w in ('infeasible', 'unbounded'))
                   and (r.get('solver_status') or '') not in ('3', '4', '5'))          # Gurobi: 3 infeasible, 4 inf-or-unbd, 5 unbounded
        if not v['rows']:
            _emit(rep, dict(sig='C03:row-violated-at-support-vertex:' + tag, prop='C03', what='a constraint written without E is violated at a vertex of a scenario support (TLC PostRows)', **detail), props)
        if not v['obj']:
            _emit(rep, dict(sig='C03:member-distribution-beats-optimum:' + tag, prop='C03', what='expected objective under a member distribution exceeds the reported optimum (TLC PostObj)', **detail), props)
        if not v['econ']:
            _emit(rep, dict(sig='C03:E-constraint-violated-by-member:' + tag, prop='C03', what='an E-constraint is violated under a member distribution (TLC PostECon)', **detail), props)
        if not v['nonanticip']:
            _emit(rep, dict(sig='C13:dro-rule-differs-within-event-or-undeclared-dependency:' + tag, prop='C13', what='PostNonAnticip', **detail), props)
        if not v['tight']:
            _emit(rep, dict(sig='C04:worse-than-grid-decision:' + tag, prop='C04', what='reported optimum is worse than the exact value of an integer decision (TLC PostTight)', **detail), props)
        if not v['exact']:
            _emit(rep, dict(sig='C04:integer-optimum-differs:' + tag, prop='C04', what='integer model: reported optimum below the exact grid optimum (TLC PostExact)', **detail), props)
        if not v['status'] and not gave_up:
            _emit(rep, dict(sig='C04:feasible-model-not-solved:' + tag, prop='C04', what='a feasible grid decision exists but no solution was reported', **detail), props)
        # float oracle
        tol = float_tol(p, r.get('solver', job['solver']))
        if r['status'] == 'ok' and r.get('wce') is not None:
            d = r['wce'] - r['obj']
            if d > 10 * tol * (1 + abs(r['obj'])):
                _emit(rep, dict(sig='C03:worst-case-expectation-exceeds-optimum:' + tag, prop='C03',
                                what='moment LP: worst-case expectation at the returned solution is %.6g, reported optimum %.6g' % (r['wce'], r['obj']), **detail), props)
            elif d > tol * (1 + abs(r['obj'])):
                rep.inconclusive += 1
            if r.get('wce_econ') is not None and r['wce_econ'] > 10 * tol * 10:
                _emit(rep, dict(sig='C03:E-constraint-worst-case-positive:' + tag, prop='C03', what='moment LP: sup E(h) = %.6g > 0 at the returned solution' % r['wce_econ'], **detail), props)
        # opt: optimum over the inner description of the declared sets (<= true inf-sup), opt_hi: over the outer one
        # (>= true inf-sup); one and the same object for polyhedral programs
        opt = r.get('opt') or {}
        opt_hi = r.get('opt_hi') or opt
        st_lo, st_hi = opt.get('status', 'none'), opt_hi.get('status', 'none')
        if st_lo == 'ok' and st_hi == 'ok':
            stats['oracle_ok'] += 1
            lo, hi = opt['val'], opt_hi['val']
            if hi < lo - 1e-6 * (1 + abs(lo)):
                raise tlc.MachineryError('DroSem oracle: outer optimum %.9g below inner optimum %.9g for %s' % (hi, lo, json.dumps(p)))
            if r['status'] == 'ok':
                over, under = r['obj'] - hi, lo - r['obj']
                if over > 10 * tol * (1 + abs(hi)):
                    _emit(rep, dict(sig='C04:optimum-above-true-infsup:' + tag, prop='C04', what='reported optimum %.6g, true optimum under the declared adaptation %s%.6g' % (r['obj'], '<= ' if r.get('sandwich') else '', hi), **detail), props)
                elif under > 10 * tol * (1 + abs(lo)):
                    _emit(rep, dict(sig='C03:optimum-below-true-infsup:' + tag, prop='C03', what='reported optimum %.6g is below the true inf-sup %s%.6g' % (r['obj'], '>= ' if r.get('sandwich') else '', lo), **detail), props)
                elif max(over, under) > tol * (1 + abs(lo)):
                    rep.inconclusive += 1
            else:
                if gave_up:
                    # cone programs can only be solved by ECOS (exponential cones) / ECOS and time-limited Gurobi here; "numerical
                    # problems" / "close to optimal" / iteration or time limits on these degenerate cones are the solver giving
                    # up, not a verdict about the model
                    rep.inconclusive += 1
                    stats['ecos_gave_up'] = stats.get('ecos_gave_up', 0) + 1
                else:
                    _emit(rep, dict(sig='C04:feasible-model-not-solved:' + tag + ':' + job['solver'], prop='C04', what='the model has optimum %.6g but rsome reported no solution (%s)' % (lo, r.get('solver_status')), **detail), props)
        elif st_lo != st_hi:
            # the inner and the outer description disagree about feasibility: the declared set is in between - no verdict
            rep.inconclusive += 1
            stats['oracle_other']['sandwich-undecided'] = stats['oracle_other'].get('sandwich-undecided', 0) + 1
        else:
            st = st_lo
            stats['oracle_other'][st] = stats['oracle_other'].get(st, 0) + 1
            if st == 'infeasible' and r['status'] == 'ok':
                _emit(rep, dict(sig='C03:infeasible-model-solved:' + tag, prop='C03', what='oracle: no decision satisfies the model, rsome reports an optimum', **detail), props)
            elif st != 'infeasible':
                rep.inconclusive += 1
    # vacuity: every new kind that was generated was also solved by the library (both forms where generated)
    generated = {f: {} for f in NEW}
    for job in jobs:
        p = job['rec']['prog']
        for f in NEW:
            if p[f] in NEW[f]:
                generated[f].setdefault(p[f], set()).add(p['form'])
    # (a library that cannot solve a kind at all shows up as findings above - only a run without findings can be vacuous)
    any_finding = bool(rep.violations or rep.known_hits or rep.extra.get('other_property_findings'))
    for f in NEW:
        for kind in NEW[f]:
            if kind not in generated[f]:
                raise tlc.MachineryError('DroSem: no program with %s kind %s was generated' % (f, kind))
            for form in generated[f][kind]:
                if not solved_kinds[f].get(kind, {}).get(form):
                    if any_finding:
                        rep.note('%s kind %s was never solved in form %s (see findings)' % (f, kind, form))
                    else:
                        raise tlc.MachineryError('DroSem: %s kind %s was never solved in form %s' % (f, kind, form))
    stats['new_kinds_solved'] = {f: {str(k): v for k, v in sorted(solved_kinds[f].items(), key=lambda kv: str(kv[0]))} for f in NEW}
    if not stats['two_atom_member_programs'] and not any_finding:
        raise tlc.MachineryError('DroSem: no lifted program was validated against member distributions')
    rep.extra.setdefault('drosem', {}).update(stats)
    for job in jobs[:3]:
        rep.sample(dict(suite='DroSem', program=job['rec']['prog'], members=job['rec']['nmembers'], solver=job['solver']))
    shown = set()
    for job, r in zip(jobs, results):          # one written-out case per class of new set
        p = job['rec']['prog']
        cls = 'lifted' if p['supp'] in NEW['supp'] and p['prob'] not in NEW['prob'] else ('kl' if p['prob'] in (6, 8) else ('norm2' if p['prob'] in (7, 9) else None))
        if cls and cls not in shown and r['status'] == 'ok' and job['tid'] in verdicts:
            shown.add(cls)
            rep.sample(dict(suite='DroSem', new_set=cls, program=p, solver=r.get('solver'), reported=r['obj'], worst_case_inner=r.get('wce'),
                            optimum_inner=(r.get('opt') or {}).get('val'), optimum_outer=(r.get('opt_hi') or {}).get('val'),
                            members_checked_by_tlc=verdicts[job['tid']]['nmem']))
    rep.assumptions.append('lifted supports: worst-case distributions of piecewise-affine integrands live on vertices and extreme rays of the lifted '
                           'polyhedra (enumerated by harness/liftpoly.py, checked in every run against an LP and a dense sample of the declared set)')
    rep.assumptions.append('2-norm Wasserstein supports and KL / 2-norm probability sets are sandwiched: inner description (worst case, lower optimum) '
                           'and outer description (upper optimum); TLC members for these kinds are verified inner points (necessary condition); '
                           'ECOS 5e-4 relative (x10 margin), non-certificate ECOS / time-limited Gurobi failures are inconclusive')
    if stats['ok'] < len(jobs) // 3:
        raise tlc.MachineryError('DroSem: only %d of %d programs solved' % (stats['ok'], len(jobs)))
    return jobs, results


def _emit(rep, f, props):
    if f['prop'] in props:
        rep.violation(f['sig'], f)
    else:
        d = rep.extra.setdefault('other_property_findings', {})
        d[f['sig']] = d.get(f['sig'], 0) + 1
