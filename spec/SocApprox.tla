----------------------------- MODULE SocApprox -----------------------------
(***************************************************************************)
(* Second-order-cone approximation of exponential cones, transcribed from  *)
(*   gcp.py  GCProg.to_socp (528-639)                                      *)
(* as called by gcp.Model.soc_solve (382), ro.Model.soc_solve (440) and    *)
(* dro.Model.soc_solve (808) on the CACHED formula returned by do_math().  *)
(*                                                                         *)
(* A program is a record                                                   *)
(*   [ncols, nrows, lin, const, sense, vtype, ub, lb, obj, qmat, xmat]     *)
(* with 0-based row / column numbers exactly as in the code, lin a set of  *)
(* <<row, col, value>>, every number a rational <<num, den>> in lowest     *)
(* terms (<<1,0>> = +inf, <<-1,0>> = -inf, den = -1: an opaque, rank       *)
(* encoded float of a recorded program), qmat a list of index lists (head  *)
(* first), xmat a list of triples <<i0,i1,i2>> meaning                     *)
(*   x[i2] * exp(x[i0] / x[i2]) <= x[i1]   (eco_solver.py:63-69).          *)
(*                                                                         *)
(* The state machine is implementation shaped: Call binds the locals       *)
(* (`qmat = self.qmat` is an ALIAS of the input's list object unless        *)
(* QmatFixed), ApproxCone(j) is one pass of `for xm in self.xmat`, Return   *)
(* builds the result.  `cached` is the input program as the model's cache  *)
(* holds it, `orig` the ghost copy of its value at the time of the call.   *)
(*                                                                         *)
(* Two modes.  Generator (NRec = 0): Init picks a layout of                *)
(* linear / SOC / exponential-cone constraints and a degree, the abstract  *)
(* program Compile(layout) is transformed, the expected result is          *)
(* exported for replay into the real to_socp.  Validation (NRec > 0):      *)
(* Init picks one structure recorded from the real code; the same          *)
(* actions run on the recorded input and the verdict on the recorded       *)
(* output is exported.                                                     *)
(*                                                                         *)
(* Properties (C18): InputUntouched, PrefixPreserved, NoExpLeft,           *)
(* BlockShape, TaylorOrder4.                                               *)
(***************************************************************************)
EXTENDS Naturals, Integers, Sequences, FiniteSets, TLC, SequencesExt, FiniteSetsExt, Json

CONSTANTS Degrees,    \* set of degrees L (soc_solve(degree=L))
          MaxSoc,     \* generator: at most this many SOC constraints in a layout
          MaxExp,     \* generator: 1..MaxExp exponential-cone constraints
          MaxLin,     \* generator: at most this many plain linear constraints
          CutLo,      \* cuts = (CutLo, CutHi); code default (-30, 60)
          CutHi,
          QmatFixed,  \* FALSE: `qmat = self.qmat; qmat += ...` (code as it stands)
                      \* TRUE : the cone list is copied before it is extended
          RecDir,     \* validation mode: directory holding rec_<i>.json = [P, L, Q, Pafter] recorded
                      \* from the real code, i \in 1..NRec; "" in generator mode
          NRec        \* number of recorded structures (0: generator mode)

VARIABLES tid,      \* 0 in generator mode, index of the recorded structure in validation mode
          layout,   \* generator: sequence of "lin" | "soc" | "exp"
          L,        \* degree
          cached,   \* the input program object (deep value), as held by the model cache
          orig,     \* ghost: value of the input program when to_socp was called
          work,     \* the locals linear,const,sense,ub,lb,obj,vtype,qmat of to_socp
          qref,     \* 0: not bound; 1: local qmat IS cached.qmat (same list object); 2: own list
          k,        \* number of exponential cones processed
          pc,       \* "call" | "loop" | "done"
          result    \* the returned program

vars == <<tid, layout, L, cached, orig, work, qref, k, pc, result>>

-----------------------------------------------------------------------------
(* rationals *)
Abs(x) == IF x < 0 THEN -x ELSE x
RECURSIVE GCD(_, _)
GCD(a, b) == IF b = 0 THEN a ELSE GCD(b, a % b)
Rat(n, d) == IF n = 0 THEN <<0, 1>> ELSE LET g == GCD(Abs(n), d) IN <<n \div g, d \div g>>
RatAdd(a, b) == Rat(a[1] * b[2] + b[1] * a[2], a[2] * b[2])
RatMul(a, b) == Rat(a[1] * b[1], a[2] * b[2])
RI(n) == <<n, 1>>
Zero == <<0, 1>>
One == <<1, 1>>
MinusOne == <<-1, 1>>
Half == <<1, 2>>
NegHalf == <<-1, 2>>
Inf == <<1, 0>>
NegInf == <<-1, 0>>

Rep(x, n) == [i \in 1..n |-> x]
Rng(s) == {s[i] : i \in 1..Len(s)}

-----------------------------------------------------------------------------
(* the block appended per exponential cone: gcp.py:530-606 *)

NumVars(l) == 1 + 4 + l + 3                 \* t, x0 x1, alpha0 alpha1, v_0..v_{l-1}, f g h
NumCols(l) == NumVars(l) + (3 + l) * 3      \* plus three columns per second-order cone
RowCount(l) == 1 + 2 + 1 + 3 + 3 * (3 + l)
NumCones(l) == 3 + l

\* block-relative column numbers
T == 0
X0 == 1
X1 == 2
A0 == 3
A1 == 4
F == 5
G == 6
H == 7
V(d) == 8 + d

\* cone q (0-based) of a block: rows 7+3q.., columns NumVars+3q..; B is the "other" rotated-cone
\* variable, Mid the entries of the middle row
ConeB(l, q) == IF q = 0 THEN F ELSE IF q = 1 THEN G ELSE IF q = 2 THEN H
               ELSE IF q = l + 2 THEN T ELSE V(q - 2)
ConeMid(l, q) == IF q = 0 THEN {<<X1, Rat(1, 2^l)>>}
                 ELSE IF q = 1 THEN {<<X1, Rat(1, 2^l)>>, <<A1, One>>}
                 ELSE IF q = 2 THEN {<<G, One>>}
                 ELSE {<<V(q - 3), One>>}
ConeRows(l, q) ==
    LET r == 7 + 3 * q
        c == NumVars(l) + 3 * q
        b == ConeB(l, q) IN
    {<<r, A1, Half>>, <<r, b, NegHalf>>, <<r, c, MinusOne>>}
    \cup {<<r + 1, m[1], m[2]>> : m \in ConeMid(l, q)} \cup {<<r + 1, c + 1, MinusOne>>}
    \cup {<<r + 2, A1, NegHalf>>, <<r + 2, b, NegHalf>>, <<r + 2, c + 2, One>>}

MoreLinear(l) ==
    {<<0, T, One>>,
     <<1, X0, One>>, <<1, X1, One>>,
     <<2, A0, One>>, <<2, A1, One>>,
     <<3, X1, Rat(20, 24 * 2^l)>>, <<3, A1, Rat(23, 24)>>, <<3, F, Rat(1, 4)>>, <<3, H, Rat(1, 24)>>,
     <<3, V(0), MinusOne>>,
     <<4, X0, One>>, <<4, A0, RI(-CutLo)>>,
     <<5, X1, One>>, <<5, A1, RI(-CutHi)>>,
     <<6, X1, MinusOne>>, <<6, A1, RI(CutLo)>>}
    \cup UNION {ConeRows(l, q) : q \in 0..(l + 2)}

MoreSense(l) == <<0, 1, 1, 0, 0, 0, 0>> \o [i \in 1..(3 * (3 + l)) |-> IF i % 3 = 0 THEN 0 ELSE 1]
MoreLbZero(l) == {A0, A1, F, G, H} \cup {V(d) : d \in 0..(l - 1)}
                 \cup {NumVars(l) + 3 * d + 2 : d \in 0..(l + 2)}
MoreLb(l) == [c \in 1..NumCols(l) |-> IF (c - 1) \in MoreLbZero(l) THEN Zero ELSE NegInf]
ConeIdx(l, w, q) == <<w + NumVars(l) + 3 * q + 2, w + NumVars(l) + 3 * q + 1, w + NumVars(l) + 3 * q>>

(* one pass of the loop gcp.py:620-636 on the locals wk for the cone xm = <<i0, i1, i2>> *)
Step(wk, xm, l) ==
    LET w == wk.ncols
        r0 == wk.nrows IN
    [ncols |-> w + NumCols(l),
     nrows |-> r0 + RowCount(l),
     lin   |-> wk.lin
               \cup {<<r0, xm[2], MinusOne>>, <<r0 + 1, xm[1], MinusOne>>, <<r0 + 2, xm[3], MinusOne>>}
               \cup {<<r0 + e[1], w + e[2], e[3]>> : e \in MoreLinear(l)},
     const |-> wk.const \o Rep(Zero, RowCount(l)),
     sense |-> wk.sense \o MoreSense(l),
     vtype |-> wk.vtype \o Rep("C", NumCols(l)),
     ub    |-> wk.ub \o Rep(Inf, NumCols(l)),
     lb    |-> wk.lb \o MoreLb(l),
     obj   |-> wk.obj \o Rep(Zero, NumCols(l)),
     qmat  |-> wk.qmat \o [q \in 1..NumCones(l) |-> ConeIdx(l, w, q - 1)],
     xmat  |-> wk.xmat]

-----------------------------------------------------------------------------
(* generator: abstract programs.  Column 0 is the epigraph variable t0, columns 1, 2 the user's
   x1 (bounded by [-4, 4]) and x2 (integer in [0, 3]); every constraint of the layout brings its
   own rows and, for cones, three fresh columns. *)

Kinds == {"lin", "soc", "exp"}
Count(s, kd) == Cardinality({i \in 1..Len(s) : s[i] = kd})
Layouts == {s \in UNION {[1..n -> Kinds] : n \in 1..(MaxSoc + MaxExp + MaxLin)} :
                /\ Count(s, "exp") \in 1..MaxExp
                /\ Count(s, "soc") <= MaxSoc
                /\ Count(s, "lin") <= MaxLin}

Base == [ncols |-> 3, nrows |-> 0, lin |-> {}, const |-> <<>>, sense |-> <<>>,
         vtype |-> <<"C", "C", "I">>,
         ub |-> <<Inf, RI(4), RI(3)>>, lb |-> <<NegInf, RI(-4), Zero>>,
         obj |-> <<One, Zero, Zero>>, qmat |-> <<>>, xmat |-> <<>>]

AddItem(p, kind, pos) ==
    LET r == p.nrows
        c == p.ncols IN
    IF kind = "lin" THEN
        [p EXCEPT !.nrows = r + 1,
                  !.lin = @ \cup {<<r, 1, One>>, <<r, 2, RI(2)>>},
                  !.const = Append(@, RI(pos)), !.sense = Append(@, 0)]
    ELSE IF kind = "soc" THEN
        [p EXCEPT !.ncols = c + 3, !.nrows = r + 3,
                  !.lin = @ \cup {<<r, c, One>>,
                                  <<r + 1, c + 1, One>>, <<r + 1, 1, MinusOne>>,
                                  <<r + 2, c + 2, One>>, <<r + 2, 2, MinusOne>>},
                  !.const = @ \o <<RI(4 + pos), Zero, Zero>>, !.sense = @ \o <<1, 1, 1>>,
                  !.vtype = @ \o <<"C", "C", "C">>, !.ub = @ \o <<Inf, Inf, Inf>>,
                  !.lb = @ \o <<Zero, NegInf, NegInf>>, !.obj = @ \o <<Zero, Zero, Zero>>,
                  !.qmat = Append(@, <<c, c + 1, c + 2>>)]
    ELSE
        LET tri == IF pos % 2 = 1 THEN <<c, c + 1, c + 2>> ELSE <<c + 2, c, c + 1>> IN
        [p EXCEPT !.ncols = c + 3, !.nrows = r + 3,
                  !.lin = @ \cup {<<r, tri[1], One>>, <<r, 1, MinusOne>>,
                                  <<r + 1, tri[2], One>>, <<r + 1, 0, MinusOne>>,
                                  <<r + 2, tri[3], One>>},
                  !.const = @ \o <<Zero, Zero, One>>, !.sense = @ \o <<1, 0, 1>>,
                  !.vtype = @ \o <<"C", "C", "C">>, !.ub = @ \o <<Inf, Inf, Inf>>,
                  !.lb = @ \o <<NegInf, NegInf, NegInf>>, !.obj = @ \o <<Zero, Zero, Zero>>,
                  !.xmat = Append(@, tri)]

RECURSIVE CompileFrom(_, _, _)
CompileFrom(p, lay, pos) == IF pos > Len(lay) THEN p
                            ELSE CompileFrom(AddItem(p, lay[pos], pos), lay, pos + 1)
Compile(lay) == CompileFrom(Base, lay, 1)

\* a recorded structure (one small file each: TLC re-reads the file on every reference) and its
\* programs, which arrive from JSON with lin as a list
Rec(i) == JsonDeserialize(RecDir \o "/rec_" \o ToString(i) \o ".json")
OfRec(p) == [p EXCEPT !.lin = Rng(p.lin)]

-----------------------------------------------------------------------------
Nil == [ncols |-> 0]

Init ==
    /\ \/ /\ NRec = 0
          /\ tid = 0
          /\ \E lay \in Layouts, l \in Degrees :
                /\ layout = lay /\ L = l /\ cached = Compile(lay)
       \/ /\ NRec > 0
          /\ \E i \in 1..NRec :
                LET r == Rec(i) IN
                /\ tid = i /\ layout = <<>> /\ L = r.L /\ cached = OfRec(r.P)
    /\ orig = cached
    /\ work = Nil /\ result = Nil
    /\ qref = 0 /\ k = 0 /\ pc = "call"

(* gcp.py:608-619: `qmat = self.qmat` binds the SAME list object; the arrays are rebound by
   np.concatenate / vert_comb in the loop and never written in place *)
Call ==
    /\ pc = "call"
    /\ work' = cached
    /\ qref' = IF QmatFixed THEN 2 ELSE 1
    /\ pc' = "loop"
    /\ UNCHANGED <<tid, layout, L, cached, orig, k, result>>

(* gcp.py:620-636, the j-th exponential cone; `qmat += [...]` extends the list object in place *)
ApproxCone(j) ==
    /\ pc = "loop" /\ k = j - 1 /\ j <= Len(work.xmat)
    /\ work' = Step(work, work.xmat[j], L)
    /\ cached' = IF qref = 1 THEN [cached EXCEPT !.qmat = work'.qmat] ELSE cached
    /\ k' = j
    /\ UNCHANGED <<tid, layout, L, orig, qref, pc, result>>

(* gcp.py:639: GCProg(linear, const, sense, vtype, ub, lb, qmat, [], lmi, obj) *)
Return ==
    /\ pc = "loop" /\ k = Len(work.xmat)
    /\ result' = [work EXCEPT !.xmat = <<>>]
    /\ pc' = "done"
    /\ UNCHANGED <<tid, layout, L, cached, orig, work, qref, k>>

DoCall == Call
DoApproxCone == \E j \in 1..(Len(orig.xmat)) : ApproxCone(j)
DoReturn == Return
Next == DoCall \/ DoApproxCone \/ DoReturn
Spec == Init /\ [][Next]_vars

-----------------------------------------------------------------------------
(* Properties.  Each is an operator on (input P, current/returned program C) so that the same
   text judges the transcription and a structure recorded from the real code. *)

Cur == IF pc = "done" THEN result ELSE work

WellFormed(C) ==
    /\ Len(C.const) = C.nrows /\ Len(C.sense) = C.nrows
    /\ Len(C.vtype) = C.ncols /\ Len(C.ub) = C.ncols /\ Len(C.lb) = C.ncols /\ Len(C.obj) = C.ncols
    /\ \A e \in C.lin : e[1] \in 0..(C.nrows - 1) /\ e[2] \in 0..(C.ncols - 1)
    /\ Cardinality({<<e[1], e[2]>> : e \in C.lin}) = Cardinality(C.lin)   \* one value per cell
    /\ \A i \in 1..Len(C.qmat) : \A n \in 1..Len(C.qmat[i]) : C.qmat[i][n] \in 0..(C.ncols - 1)
    /\ \A i \in 1..Len(C.sense) : C.sense[i] \in {0, 1}

\* rows, columns, bounds, types, objective and SOC list of P are an unchanged prefix of C
PrefixFields(P, C) ==
    [size   |-> C.ncols >= P.ncols /\ C.nrows >= P.nrows /\ Len(C.qmat) >= Len(P.qmat),
     linear |-> {e \in C.lin : e[1] < P.nrows} = P.lin,
     const  |-> C.nrows >= P.nrows /\ SubSeq(C.const, 1, P.nrows) = P.const,
     sense  |-> C.nrows >= P.nrows /\ SubSeq(C.sense, 1, P.nrows) = P.sense,
     vtype  |-> C.ncols >= P.ncols /\ SubSeq(C.vtype, 1, P.ncols) = P.vtype,
     ub     |-> C.ncols >= P.ncols /\ SubSeq(C.ub, 1, P.ncols) = P.ub,
     lb     |-> C.ncols >= P.ncols /\ SubSeq(C.lb, 1, P.ncols) = P.lb,
     obj    |-> /\ C.ncols >= P.ncols /\ SubSeq(C.obj, 1, P.ncols) = P.obj
                /\ \A i \in (P.ncols + 1)..C.ncols : C.obj[i] = Zero,
     qmat   |-> Len(C.qmat) >= Len(P.qmat) /\ SubSeq(C.qmat, 1, Len(P.qmat)) = P.qmat]
PrefixOf(P, C) == LET f == PrefixFields(P, C) IN \A n \in DOMAIN f : f[n]

\* nothing else changes: the appended rows mention columns of P only where P had an exponential
\* cone, the appended cones live on appended columns, the appended columns are continuous
OnlyConesLinked(P, C) ==
    LET conecols == UNION {Rng(P.xmat[i]) : i \in 1..Len(P.xmat)} IN
    /\ \A e \in C.lin : (e[1] >= P.nrows /\ e[2] < P.ncols) => e[2] \in conecols
    /\ \A i \in (Len(P.qmat) + 1)..Len(C.qmat) : \A n \in 1..Len(C.qmat[i]) : C.qmat[i][n] >= P.ncols
    /\ \A i \in (P.ncols + 1)..C.ncols : C.vtype[i] = "C"

\* the documented sizes, per processed cone: 8+L variables and 3(3+L) cone columns, 7+3(3+L) rows,
\* 3+L cones whose index lists point inside their own block; blocks are disjoint
BlockShapeOf(P, C, l, done) ==
    /\ C.ncols = P.ncols + done * NumCols(l)
    /\ C.nrows = P.nrows + done * RowCount(l)
    /\ Len(C.qmat) = Len(P.qmat) + done * NumCones(l)
    /\ NumCols(l) = (8 + l) + 3 * (3 + l)
    /\ \A j \in 1..done :
          LET w == P.ncols + (j - 1) * NumCols(l)
              r0 == P.nrows + (j - 1) * RowCount(l)
              xm == P.xmat[j]
              cones == [q \in 1..NumCones(l) |-> C.qmat[Len(P.qmat) + (j - 1) * NumCones(l) + q]] IN
          /\ \A q \in 1..NumCones(l) :
                /\ Len(cones[q]) = 3
                /\ Rng(cones[q]) \subseteq (w + NumVars(l))..(w + NumCols(l) - 1)
                /\ C.lb[cones[q][1] + 1] = Zero                 \* the head of a cone is non-negative
          /\ Cardinality(UNION {Rng(cones[q]) : q \in 1..NumCones(l)}) = 3 * NumCones(l)
          /\ \A e \in C.lin : (e[1] >= r0 /\ e[1] < r0 + RowCount(l)) =>
                \/ e[2] \in w..(w + NumCols(l) - 1)
                \/ e[2] \in Rng(xm)
          \* the three link rows: y >= t, x0 + x1 = x, alpha0 + alpha1 = z
          /\ {e \in C.lin : e[1] \in r0..(r0 + 2) /\ e[2] < w} =
                {<<r0, xm[2], MinusOne>>, <<r0 + 1, xm[1], MinusOne>>, <<r0 + 2, xm[3], MinusOne>>}
          /\ SubSeq(C.sense, r0 + 1, r0 + RowCount(l)) = MoreSense(l)
          /\ SubSeq(C.lb, w + 1, w + NumCols(l)) = MoreLb(l)
          /\ \A i \in (w + 1)..(w + NumCols(l)) : C.ub[i] = Inf /\ C.vtype[i] = "C" /\ C.obj[i] = Zero
          /\ \A i \in (r0 + 1)..(r0 + RowCount(l)) : C.const[i] = Zero

TypeOK == /\ pc \in {"call", "loop", "done"}
          /\ qref \in 0..2
          /\ k \in 0..Len(orig.xmat)
          /\ pc # "call" => WellFormed(Cur)

\* C18: the program handed to to_socp (the model's cached formula) is not changed by the call
InputUntouched == cached = orig

\* C18: all other constraints, bounds and variable types are carried over unchanged
PrefixPreserved == pc # "call" => (PrefixOf(orig, Cur) /\ OnlyConesLinked(orig, Cur))

\* C18: every exponential cone is replaced, none is left, none is processed twice
NoExpLeft == pc = "done" => (result.xmat = <<>> /\ k = Len(orig.xmat))

BlockShape == pc # "call" => BlockShapeOf(orig, Cur, L, k)

(* Why the approximation is accurate: with y = x1 / (2^L * alpha1) row 3 of a block reads
     v0 / alpha1 >= a_alpha + (a_x * 2^L) y + a_f y^2 + a_h (y + 1)^4
   (f >= y^2, g >= (y+1)^2, h >= g^2 per unit alpha1), which must be the Taylor polynomial of
   exp of order 4, sum_k y^k / k!; the L cones that follow square it L times. *)
Coef(l, r, c) == LET S == {e \in MoreLinear(l) : e[1] = r /\ e[2] = c} IN
                 IF S = {} THEN Zero ELSE (CHOOSE e \in S : TRUE)[3]
TaylorCoef24(l) ==
    LET ax == RatMul(Coef(l, 3, X1), RI(2^l))
        aa == Coef(l, 3, A1)
        af == Coef(l, 3, F)
        ah == Coef(l, 3, H)
        m  == RI(24) IN
    <<RatMul(m, RatAdd(aa, ah)),
      RatMul(m, RatAdd(ax, RatMul(RI(4), ah))),
      RatMul(m, RatAdd(af, RatMul(RI(6), ah))),
      RatMul(m, RatMul(RI(4), ah)),
      RatMul(m, ah)>>
Squarings(l) == Cardinality({q \in 3..(l + 2) : ConeMid(l, q) = {<<IF q = 3 THEN V(0) ELSE ConeB(l, q - 1), One>>}})
TaylorOrder4 == /\ TaylorCoef24(L) = <<RI(24), RI(24), RI(12), RI(4), RI(1)>>
                /\ Coef(L, 3, V(0)) = MinusOne
                /\ Squarings(L) = L
                /\ ConeB(L, L + 2) = T

-----------------------------------------------------------------------------
(* Export *)

SortedSeq(S) == SetToSortSeq(S, <)

GenRec ==
    [layout |-> layout, L |-> L, aliased |-> (qref = 1),
     P |-> orig, Q |-> result, Pafter |-> cached,
     idealOK |-> [input |-> InputUntouched, prefix |-> PrefixPreserved, noexp |-> NoExpLeft],
     pattern |-> [numvars |-> NumVars(L), numcols |-> NumCols(L), rowcount |-> RowCount(L),
                  numcones |-> NumCones(L), sense |-> MoreSense(L), lbzero |-> SortedSeq(MoreLbZero(L))],
     approx |-> [coef24 |-> TaylorCoef24(L), scale |-> 2^L, squarings |-> Squarings(L)]]

Export == (pc = "done" /\ tid = 0) => PrintT(ToJson(GenRec))

(* verdict on a structure recorded from the real code: Q against the transcription's result
   (exact) and against the ideal (prefix / links / no exponential cone left / input untouched) *)
ValRec ==
    LET R == Rec(tid)
        P == OfRec(R.P)
        Q == OfRec(R.Q)
        A == OfRec(R.Pafter)
        fields == {"ncols", "nrows", "lin", "const", "sense", "vtype", "ub", "lb", "obj", "qmat", "xmat"} IN
    [tid |-> tid, L |-> L,
     exact |-> Q = result,
     diff |-> SetToSeq({n \in fields : Q[n] # result[n]}),
     wellformed |-> WellFormed(Q),
     prefix |-> PrefixFields(P, Q),
     links |-> WellFormed(Q) /\ OnlyConesLinked(P, Q),
     noexp |-> Q.xmat = <<>>,
     shape |-> WellFormed(Q) /\ PrefixOf(P, Q) /\ BlockShapeOf(P, Q, L, Len(P.xmat)),
     input |-> A = P,
     inputdiff |-> SetToSeq({n \in fields : A[n] # P[n]}),
     asTranscribed |-> A = cached]

ExportV == (pc = "done" /\ tid > 0) => PrintT(ToJson(ValRec))
=============================================================================
