------------------------------- MODULE Misuse -------------------------------
(***************************************************************************)
(* C17 over ALL front ends: the support matrix of "misuse fails loudly and *)
(* models do not interfere".  Lifecycle.tla interleaves misuses with the   *)
(* life cycle of two rsome.ro models; this module is the table over every  *)
(* PAIR of model classes (lp, socp, gcp, ro, dro - all public, all sharing *)
(* lp.Model's bookkeeping but overriding st / min / max / get separately)  *)
(* and every misuse kind, before and after a first solve.                  *)
(*                                                                         *)
(* State machine per case: Build both models -> [Solve first] -> Misuse -> *)
(* Solve both.  Ideal: the misuse raises (out = "err"), and both models    *)
(* then report exactly the optimum they have without it.                   *)
(***************************************************************************)
EXTENDS Integers, Sequences, FiniteSets, TLC, Json

CONSTANTS Fronts, Kinds

RobustFronts == {"ro", "dro"}
\* which misuse can be written on which pair (victim model class f, other model class g)
Applies(k, f, g) ==
    CASE k \in {"st_foreign_lin", "st_foreign_bound", "st_foreign_abs", "mix_vars", "obj_foreign", "obj_redefine_min", "obj_redefine_max",
                "obj_nonscalar", "get_unsolved", "varget_unsolved", "st_not_a_constraint"} -> TRUE
      [] k \in {"get_after_fail", "varget_after_fail"} -> TRUE
      [] k \in {"forall_foreign_set", "st_foreign_robust"} -> f \in RobustFronts /\ g \in RobustFronts
      \* piecewise constraints (maxof / minof, E(maxof)) made from the bystander's variables: a separate branch of every st()
      [] k \in {"st_foreign_maxof", "st_foreign_minof"} -> f \in RobustFronts /\ g \in RobustFronts
      [] k = "st_foreign_Emaxof" -> f = "dro" /\ g = "dro"
      [] k = "ambiguity_after_constraints" -> f = "dro"
      \* the worst-case objective setters of the robust front ends (minmax / maxmin, minsup / maxinf), both directions
      [] k \in {"robobj_redefine_lo", "robobj_redefine_hi", "robobj_nonscalar_lo", "robobj_nonscalar_hi"} -> f \in RobustFronts
      [] k \in {"robobj_foreign_set_lo", "robobj_foreign_set_hi"} -> f \in RobustFronts /\ g \in RobustFronts
      [] k = "st_foreign_norm" -> f \notin {"lp"} /\ g \notin {"lp"}
      \* arrays of the two models joined by the stacking functions (concat / rstack / vec: they stack raw coefficient matrices,
      \* no arithmetic operator ever sees both operands), foreign operand first and last; fnorm / sumsqr of two arrays
      [] k \in {"concat_foreign_first", "concat_foreign_last", "rstack_foreign", "vec_foreign"} -> TRUE
      [] k \in {"sumsqr_two_foreign"} -> f \notin {"lp"} /\ g \notin {"lp"}
      [] OTHER -> FALSE
\* misuses that need the victim NOT to have been solved / to be solved first
Timing(k) == CASE k \in {"get_unsolved", "varget_unsolved"} -> {"before"}
               [] k \in {"get_after_fail", "varget_after_fail"} -> {"after"}
               [] OTHER -> {"before", "after"}

VARIABLES case, phase, out
vars == <<case, phase, out>>

Cases == {c \in [kind : Kinds, f : Fronts, g : Fronts, when : {"before", "after"}] :
             Applies(c.kind, c.f, c.g) /\ c.when \in Timing(c.kind)}

Init == case \in Cases /\ phase = "built" /\ out = "ok"
SolveFirst == phase = "built" /\ case.when = "after" /\ phase' = "solved" /\ UNCHANGED <<case, out>>
DoMisuse == /\ phase = (IF case.when = "after" THEN "solved" ELSE "built")
            /\ phase' = "misused" /\ out' = "err" /\ UNCHANGED case
SolveBoth == phase = "misused" /\ phase' = "done" /\ out' = "ok" /\ UNCHANGED case
Next == SolveFirst \/ DoMisuse \/ SolveBoth
Spec == Init /\ [][Next]_vars

\* C17: every misuse is refused ...
MisuseRaises == phase = "misused" => out = "err"
\* ... and the table is not vacuous: every kind is applicable somewhere, every front is a victim and a bystander
EveryKindApplies == \A k \in Kinds : \E c \in Cases : c.kind = k
EveryFrontBothRoles == \A f \in Fronts : (\E c \in Cases : c.f = f) /\ (\E c \in Cases : c.g = f)

Export == (phase = "built") => PrintT(ToJson(case))
=============================================================================
