------------------------------ MODULE Rewrite ------------------------------
(***************************************************************************)
(* C15 - equivalent ways of writing a model give the same optimum.         *)
(*                                                                         *)
(* A PRESENTATION is a declared robust model of the RoSem family (prog)    *)
(* together with one choice per element of HOW it is written (pres).  The  *)
(* state machine applies one rewrite per step (changes one choice); hist   *)
(* is the word over the rewrite alphabet.                                  *)
(*                                                                         *)
(*   Present(prog, pres)  the SYNTAX handed to the library: declarations   *)
(*                        in order, objective call, statements             *)
(*                        `l op r' with both sides as coefficient records, *)
(*                        Bounds objects, norm statements, spelled sets.   *)
(*                        harness/replay_rewrite.py renders exactly this   *)
(*                        record through rsome.ro / rsome.dro.             *)
(*   Meaning(S)           what that syntax DENOTES, computed from the      *)
(*                        presented form (rows l - r with multiplied       *)
(*                        coefficients, two rows for a split equality,     *)
(*                        bound vectors, norm balls, flattened sets,       *)
(*                        -(optimum of max -f) for a negated objective,    *)
(*                        worst-case expectation over point masses for the *)
(*                        single-scenario dro front end).                  *)
(*   DenotInvariant       GridOptOf(Meaning(Present(prog, pres)))          *)
(*                          = GridOpt(Base(prog))      (RoSem's oracle)    *)
(*                        for every reachable presentation: every rewrite  *)
(*                        of the table is verified to be meaning-          *)
(*                        preserving on the grid family BEFORE the orbit   *)
(*                        is used as a relational oracle on the real code. *)
(*                                                                         *)
(* The semantics of programs (templates, vertex lists, GridOpt) is RoSem's.*)
(***************************************************************************)
EXTENDS RoSem

CONSTANTS ArrTemplates,    \* set of <<t1, t2>>: two row templates stacked into ONE 2-row array constraint
          Scales,          \* set of <<num, den>>: positive rescaling factors num/den
          SetSpellings,    \* subset of {"list", "args", "tuple", "gen", "mixed", "nested"}
          BoundSpellings,  \* subset of {"arr", "ent", "lin", "inf", "abs"}
          Fronts,          \* subset of {"ro", "dro", "droE"}
          MaxWord,         \* maximal number of rewrites applied
          Acts,            \* names of the rewrite actions enabled in this run (focused walks)
          ProgList         \* {} = every program of the family; otherwise the explicit set of programs

VARIABLES pres,            \* record of presentation choices
          hist,            \* the word: sequence of [act, i, s]
          gopt             \* GridOpt(Base(prog)), evaluated once per program (by Start)

rwvars == <<prog, res, pres, hist, gopt>>

XW == 1                    \* Meaning is evaluated on a grid WIDER than the decision box, so that a
WB == XB + XW              \* spelling of the bounds that fails to denote the box changes the optimum

-----------------------------------------------------------------------------
(* Programs: RoSem programs whose rows are 1-row or 2-row (array) constraints *)

RwRowSet == {[ts |-> <<t>>, sense |-> sn, set |-> s] :
                 t \in RowTemplates, sn \in Senses, s \in SetIds \cup {0}}
            \cup
            {[ts |-> a, sense |-> sn, set |-> s] :
                 a \in ArrTemplates, sn \in Senses, s \in SetIds \cup {0}}

RwRowSeqs == UNION {[1..n -> RwRowSet] : n \in 1..MaxRows}

RowExpand(r) == [j \in 1..Len(r.ts) |-> [t |-> r.ts[j], sense |-> r.sense, set |-> r.set]]

\* the RoSem program a Rewrite program stands for: array rows are their rows
Base(p) == [xint |-> p.xint, mask |-> p.mask,
            rows |-> FlattenSeq([i \in 1..Len(p.rows) |-> RowExpand(p.rows[i])]),
            osense |-> p.osense, obj |-> p.obj, dset |-> p.dset]

RwPrograms ==
    {p \in [xint : IntChoices, mask : Masks, rows : RwRowSeqs, osense : OSenses,
            obj : ObjTemplates, dset : SetIds] : WellFormed(Base(p))}

NR(p) == Len(p.rows)
HasY(p) == p.mask # "none"
NI(p) == NR(p) + 1 + (IF HasY(p) THEN 1 ELSE 0)   \* items: rows, the decision box, the box of the rule
DeclKinds(p) == IF HasY(p) THEN <<"x", "z", "y">> ELSE <<"x", "z">>

-----------------------------------------------------------------------------
(* Coefficient algebra on template records (the arithmetic the rewrites rely on) *)

NegV(v) == <<-v[1], -v[2]>>
SubV(u, v) == <<u[1] - v[1], u[2] - v[2]>>
MulV(k, v) == <<k * v[1], k * v[2]>>
NegT(tm) == T(NegV(tm.a), <<NegV(tm.A[1]), NegV(tm.A[2])>>, -tm.c, -tm.b, NegV(tm.B))
SubT(s, t) == T(SubV(s.a, t.a), <<SubV(s.A[1], t.A[1]), SubV(s.A[2], t.A[2])>>,
                s.c - t.c, s.b - t.b, SubV(s.B, t.B))
MulT(k, tm) == T(MulV(k, tm.a), <<MulV(k, tm.A[1]), MulV(k, tm.A[2])>>, k * tm.c, k * tm.b, MulV(k, tm.B))
ConstT(c) == T(Z2, Z22, 0, c, Z2)
UnitT(i) == T(IF i = 1 THEN <<1, 0>> ELSE <<0, 1>>, Z22, 0, 0, Z2)
RuleT == T(Z2, Z22, 1, 0, Z2)

\* a row LHS <= 0 is written  a <= b  with a the terms carrying a decision and b = -(the rest)
PartA(tm) == T(tm.a, tm.A, tm.c, 0, Z2)
PartB(tm) == T(Z2, Z22, 0, -tm.b, NegV(tm.B))
SplitSound == \A t \in RowTemplates \cup UNION {{a[1], a[2]} : a \in ArrTemplates} :
                  /\ SubT(PartA(Template(t)), PartB(Template(t))) = Template(t)
                  /\ SubT(Template(t), ConstT(0)) = Template(t)

OpOf(sense) == CASE sense = "le" -> "<=" [] sense = "ge" -> ">=" [] sense = "eq" -> "=="
SenseOf(op) == CASE op = "<=" -> "le" [] op = ">=" -> "ge" [] op = "==" -> "eq"
Rev(op) == CASE op = "<=" -> ">=" [] op = ">=" -> "<=" [] op = "==" -> "=="
Opp(os) == CASE os = "min" -> "max" [] os = "max" -> "min"
             [] os = "minmax" -> "maxmin" [] os = "maxmin" -> "minmax"

-----------------------------------------------------------------------------
(* THE REWRITE TABLE - syntax.  Each entry says how the presented text is formed. *)

\* R1  a <= b   |   -b <= -a   |   b >= a          (same for >= and ==)
\*     neg = TRUE: the statement is written  -(l) op -(r)  with the unary minus of the library
Spell(a, b, op, sp) ==
    CASE sp = "dir"  -> [l |-> a, r |-> b, op |-> op, neg |-> FALSE]
      [] sp = "neg"  -> [l |-> b, r |-> a, op |-> op, neg |-> TRUE]
      [] sp = "flip" -> [l |-> b, r |-> a, op |-> Rev(op), neg |-> FALSE]

\* R2  a == b   |   a <= b and a >= b
RowOps(sense, esp) == IF sense = "eq" /\ esp = "split" THEN <<"<=", ">=">> ELSE <<OpOf(sense)>>

Cmp(l, r, op, neg, k, style, cfirst, set, item) ==
    [kind |-> "cmp", l |-> l, r |-> r, op |-> op, neg |-> neg, num |-> k[1], den |-> k[2],
     style |-> style, cfirst |-> cfirst, set |-> set, item |-> item]

\* R3  terms moved across the comparison:  a <= b  ("sides": decisions left, the rest right)  |
\*     a - b <= 0  ("left": everything on the left, the plain number 0 on the right)
SideA(tm, msp) == IF msp = "left" THEN tm ELSE PartA(tm)
SideB(tm, msp) == IF msp = "left" THEN ConstT(0) ELSE PartB(tm)
\* R4  the constant term of a side written first (number + expression, number - expression: the reflected
\*     operators) | last.  A side is a SUM; its coefficient record does not depend on the order of the terms
\*     (commutativity of +), so the field cfirst does not enter Meaning.
\* R5  positive rescaling: both sides multiplied by num/den          (field num, den of the statement)
\* R6  array expression | element-wise loop: "vec" keeps the row (all rows of an array row) as ONE
\*     comparison of array expressions written with matrix products; "loop" writes one comparison per
\*     row with entry-wise sums
RowStmts(p, pr, i) ==
    LET r   == p.rows[i]
        tms == [j \in 1..Len(r.ts) |-> Template(r.ts[j])]
        a   == [j \in 1..Len(tms) |-> SideA(tms[j], pr.msp[i])]
        b   == [j \in 1..Len(tms) |-> SideB(tms[j], pr.msp[i])]
        cf  == pr.csp[i] = "first"
        ops == RowOps(r.sense, pr.esp[i])
        one(op) == LET c == Spell(a, b, op, pr.rsp[i]) IN
                   IF pr.asp[i] = "vec"
                   THEN << Cmp(c.l, c.r, c.op, c.neg, pr.rsc[i], "vec", cf, r.set, i) >>
                   ELSE [j \in 1..Len(tms) |-> Cmp(<<c.l[j]>>, <<c.r[j]>>, c.op, c.neg, pr.rsc[i], "loop", cf, r.set, i)]
    IN FlattenSeq([o \in 1..Len(ops) |-> one(ops[o])])

\* R7  the decision box -XB <= x <= XB: Bounds object on the array | Bounds object per entry |
\*     linear constraints 1*x <= XB, -1*x <= XB | norm(x, inf) <= XB | abs(x) <= XB
BoxSymmetric == TRUE      \* the box of the family is [-XB, XB]^2; norm spellings need lo = -hi
BoundStmts(pr, item) ==
    CASE pr.bsp = "arr" -> << [kind |-> "bnd", how |-> "arr", lo |-> -XB, hi |-> XB, item |-> item] >>
      [] pr.bsp = "ent" -> << [kind |-> "bnd", how |-> "ent", lo |-> -XB, hi |-> XB, item |-> item] >>
      [] pr.bsp = "lin" -> << Cmp(<<UnitT(1), UnitT(2)>>, <<ConstT(XB), ConstT(XB)>>, "<=", FALSE, pr.bsc, "vec", FALSE, 0, item),
                              Cmp(<<NegT(UnitT(1)), NegT(UnitT(2))>>, <<ConstT(XB), ConstT(XB)>>, "<=", FALSE, pr.bsc, "vec", FALSE, 0, item) >>
      \* (num/den) * norm(x) <= (num/den) * XB : the positive factor drops out of the denotation
      [] pr.bsp = "inf" -> << [kind |-> "norm", how |-> "inf", rad |-> XB, num |-> pr.bsc[1], den |-> pr.bsc[2], item |-> item] >>
      [] pr.bsp = "abs" -> << [kind |-> "norm", how |-> "abs", rad |-> XB, num |-> pr.bsc[1], den |-> pr.bsc[2], item |-> item] >>

\* the decision rule is boxed on the default set (part of the family, spelled one way)
RuleStmts(item) ==
    << Cmp(<<RuleT>>, <<ConstT(XB)>>, "<=", FALSE, <<1, 1>>, "loop", FALSE, 0, item),
       Cmp(<<RuleT>>, <<ConstT(-XB)>>, ">=", FALSE, <<1, 1>>, "loop", FALSE, 0, item) >>

\* R8  any order of the statements
ItemStmts(p, pr, it) ==
    IF it <= NR(p) THEN RowStmts(p, pr, it)
    ELSE IF it = NR(p) + 1 THEN BoundStmts(pr, it)
    ELSE RuleStmts(it)

\* R9  min f  |  -(max -f)  (minmax f | -(maxmin -f)); the reported value is negated
ObjPres(p, pr) ==
    LET neg == pr.osp = "negated" IN
    [call |-> IF neg THEN Opp(p.osense) ELSE p.osense,
     e |-> IF neg THEN NegT(Template(p.obj)) ELSE Template(p.obj),
     negrep |-> neg]

\* R10 a set given as one list | several arguments | a tuple | a generator | a constraint and a list |
\*     nested lists.  NCons = number of constraints of the H-representation in harness/ro_catalogue.py.
NCons(s) == CASE s \in {1, 2, 3, 9, 16} -> 2 [] s = 7 -> 1 [] s \in {18, 37} -> 4 [] OTHER -> 0
AllCons(s) == [i \in 1..NCons(s) |-> i]
SpellSet(s, sp) ==
    CASE sp \in {"list", "tuple", "gen"} -> [how |-> sp, args |-> << [d |-> 1, cs |-> AllCons(s)] >>]
      [] sp = "args"   -> [how |-> sp, args |-> [i \in 1..NCons(s) |-> [d |-> 0, c |-> i]]]
      [] sp = "mixed"  -> [how |-> sp, args |-> << [d |-> 0, c |-> 1], [d |-> 1, cs |-> Tail(AllCons(s))] >>]
      [] sp = "nested" -> [how |-> sp, args |-> << [d |-> 2, css |-> [i \in 1..NCons(s) |-> <<i>>]] >>]

UsedSets(p) == ({p.dset} \cup {p.rows[i].set : i \in 1..NR(p)}) \ {0}

\* R11 front end: rsome.ro | rsome.dro with ONE scenario, an ambiguity set whose only information is the
\*     support (= the uncertainty set), objective minsup / maxinf of the expression ("dro") or of its
\*     expectation ("droE")
\* R12 any order of declaring the variables (field decl) and the objective before/after the constraints
Present(p, pr) ==
    [front |-> pr.front, decl |-> pr.decl, opos |-> pr.opos, xint |-> p.xint, mask |-> p.mask,
     dset |-> p.dset, obj |-> ObjPres(p, pr),
     stmts |-> FlattenSeq([j \in 1..NI(p) |-> ItemStmts(p, pr, pr.order[j])]),
     sets |-> {[id |-> s, sp |-> SpellSet(s, pr.ssp)] : s \in UsedSets(p)},
     setlin |-> pr.sbl = "lin"]

-----------------------------------------------------------------------------
(* THE REWRITE TABLE - semantics: what a presented model denotes *)

\* a statement  (num/den) (+-l)  op  (num/den) (+-r)  denotes the rows  num ((+-l_j) - (+-r_j))  op  0
\* (the positive denominator drops out of a comparison with 0)
Signed(tm, neg) == IF neg THEN NegT(tm) ELSE tm
CmpRows(s) == [j \in 1..Len(s.l) |->
                  [tm |-> MulT(s.num, SubT(Signed(s.l[j], s.neg), Signed(s.r[j], s.neg))),
                   den |-> s.den, sense |-> SenseOf(s.op), set |-> s.set]]

\* flattening of the arguments of a set: ro.Model.minmax/maxmin and RoConstr.forall flatten ONE level
\* (ro.py:296-302, lp.py forall), Ambiguity.suppset flattens recursively (subroutines.flat)
ArgCons(arg, front) ==
    CASE arg.d = 0 -> [ok |-> TRUE, cs |-> <<arg.c>>]
      [] arg.d = 1 -> [ok |-> TRUE, cs |-> arg.cs]
      [] arg.d = 2 -> [ok |-> front # "ro", cs |-> FlattenSeq(arg.css)]   \* ro: items are lists, not constraints
SetDenoted(sp, front) ==
    LET parts == [k \in 1..Len(sp.args) |-> ArgCons(sp.args[k], front)] IN
    [ok |-> \A k \in 1..Len(parts) : parts[k].ok,
     cs |-> FlattenSeq([k \in 1..Len(parts) |-> parts[k].cs])]
\* the spelled arguments denote catalogue set s iff they list each of its constraints exactly once
SetsOK(S) == \A e \in S.sets :
                 LET d == SetDenoted(e.sp, S.front) IN
                 d.ok /\ Len(d.cs) = NCons(e.id) /\ ToSet(d.cs) = 1..NCons(e.id)

Meaning(S) ==
    LET cmps == SelectSeq(S.stmts, LAMBDA s : s.kind = "cmp")
        bnds == SelectSeq(S.stmts, LAMBDA s : s.kind = "bnd")
        nrms == SelectSeq(S.stmts, LAMBDA s : s.kind = "norm")
    IN [rows |-> FlattenSeq([k \in 1..Len(cmps) |-> CmpRows(cmps[k])]),
        \* Bounds objects intersect; a variable without Bounds object is free (the edge of the wide grid)
        lb |-> Max({-WB} \cup {bnds[k].lo : k \in 1..Len(bnds)}),
        ub |-> Min({WB} \cup {bnds[k].hi : k \in 1..Len(bnds)}),
        norms |-> nrms, obj |-> S.obj, dset |-> S.dset, mask |-> S.mask, front |-> S.front,
        wellformed |-> SetsOK(S)]

XRowHolds(r, dset, x, y) ==
    LET tm == r.tm
        s  == IF r.set = 0 THEN dset ELSE r.set
        g0 == G0(tm, x, y) + tm.b
        g1 == Gk(tm, x, y, 1) + tm.B[1]
        g2 == Gk(tm, x, y, 2) + tm.B[2]
    IN /\ r.den > 0
       /\ CASE r.sense = "le" -> MaxLeq(s, g0, g1, g2, 0)
            [] r.sense = "ge" -> MaxLeq(s, -g0, -g1, -g2, 0)
            [] r.sense = "eq" -> MaxLeq(s, g0, g1, g2, 0) /\ MaxLeq(s, -g0, -g1, -g2, 0)

AbsI(v) == IF v < 0 THEN -v ELSE v
NormHolds(n, x) ==
    CASE n.how = "inf" -> Max({AbsI(x[1]), AbsI(x[2])}) <= n.rad     \* one constraint on the largest entry
      [] n.how = "abs" -> AbsI(x[1]) <= n.rad /\ AbsI(x[2]) <= n.rad \* one constraint per entry

BoxM(M, x) ==
    /\ \A i \in 1..2 : M.lb <= x[i] /\ x[i] <= M.ub
    /\ \A k \in 1..Len(M.norms) : NormHolds(M.norms[k], x)
RowsM(M, x, y) == \A k \in 1..Len(M.rows) : XRowHolds(M.rows[k], M.dset, x, y)

YR == (-YB)..YB
YG(mask) == {<<y0, y1, y2>> : y0 \in IF mask = "none" THEN {0} ELSE YR,
                             y1 \in IF 1 \in MaskSet(mask) THEN YR ELSE {0},
                             y2 \in IF 2 \in MaskSet(mask) THEN YR ELSE {0}}
XG == (-WB)..WB

MinimisingM(M) == M.obj.call \in {"min", "minmax"}
RobustM(M) == M.obj.call \in {"minmax", "maxmin"}
ObjValM(M, x, y, z) == LhsAt(M.obj.e, x, y, z, 1)
\* ro: worst case over the uncertainty set = over its vertices (the objective is affine in z).
\* dro, one scenario, support U, no other information: the ambiguity set is ALL distributions on U;
\* E_P f is linear in P and f affine in z, so sup_P E_P f = max over the point masses at the vertices of U
\* (and inf_P = min); the expectation form "droE" and the plain form "dro" denote the same number.
PointMasses(s) == Vert(s)
WorstM(M, x, y) ==
    IF ~RobustM(M) THEN ObjValM(M, x, y, <<0, 0>>)
    ELSE LET vals == IF M.front = "ro" THEN {ObjValM(M, x, y, z) : z \in Vert(M.dset)}
                     ELSE {ObjValM(M, x, y, P) : P \in PointMasses(M.dset)}   \* E under the point mass at P
         IN IF MinimisingM(M) THEN Max(vals) ELSE Min(vals)

GridOptOf(M) ==
    IF ~M.wellformed THEN [feasible |-> FALSE, val |-> -999]
    ELSE LET XF == {x \in XG \X XG : BoxM(M, x)}
             F == {xy \in XF \X YG(M.mask) : RowsM(M, xy[1], xy[2])} IN
         IF F = {} THEN [feasible |-> FALSE, val |-> 0]
         ELSE LET v == IF MinimisingM(M) THEN Min({WorstM(M, xy[1], xy[2]) : xy \in F})
                                          ELSE Max({WorstM(M, xy[1], xy[2]) : xy \in F})
              IN [feasible |-> TRUE, val |-> IF M.obj.negrep THEN -v ELSE v]

Denot(p, pr) == Meaning(Present(p, pr))

-----------------------------------------------------------------------------
(* State machine: one rewrite per step *)

Pres0(p) ==
    [osp |-> "direct", opos |-> "first", decl |-> DeclKinds(p), order |-> [i \in 1..NI(p) |-> i],
     rsp |-> [i \in 1..NR(p) |-> "dir"], rsc |-> [i \in 1..NR(p) |-> <<1, 1>>],
     esp |-> [i \in 1..NR(p) |-> "one"], asp |-> [i \in 1..NR(p) |-> "loop"],
     msp |-> [i \in 1..NR(p) |-> "sides"], csp |-> [i \in 1..NR(p) |-> "last"],
     bsp |-> "arr", bsc |-> <<1, 1>>, ssp |-> "list", sbl |-> "obj", front |-> "ro"]

\* TLC evaluates every initial state (also in simulation mode): the oracle is computed by the first
\* step of a behaviour, so that only the programs actually walked are paid for
Unset == [feasible |-> FALSE, val |-> -1000]
RwInit == /\ prog \in (IF ProgList = {} THEN RwPrograms ELSE ProgList)
          /\ res = [tid |-> 0]
          /\ pres = Pres0(prog)
          /\ hist = <<>>
          /\ gopt = Unset

Start == /\ gopt = Unset
         /\ gopt' = GridOpt(Base(prog))
         /\ UNCHANGED <<prog, res, pres, hist>>

CanStep(a) == a \in Acts /\ gopt # Unset /\ Len(hist) < MaxWord
Step(act, i, s, np) ==
    /\ pres' = np
    /\ hist' = Append(hist, [act |-> act, i |-> i, s |-> s])
    /\ UNCHANGED <<prog, res, gopt>>

Swap(q, i) == [j \in 1..Len(q) |-> IF j = i THEN q[i + 1] ELSE IF j = i + 1 THEN q[i] ELSE q[j]]
Rows == 1..NR(prog)
ScaleName(k) == ToString(k[1]) \o "/" \o ToString(k[2])

FlipObj == CanStep("FlipObj") /\ Step("FlipObj", 0, "", [pres EXCEPT !.osp = IF @ = "direct" THEN "negated" ELSE "direct"])
MoveObj == CanStep("MoveObj") /\ Step("MoveObj", 0, "", [pres EXCEPT !.opos = IF @ = "first" THEN "last" ELSE "first"])
SwapDecl(i) == CanStep("SwapDecl") /\ i < Len(pres.decl) /\ Step("SwapDecl", i, "", [pres EXCEPT !.decl = Swap(@, i)])
SwapStmt(i) == CanStep("SwapStmt") /\ i < NI(prog) /\ Step("SwapStmt", i, "", [pres EXCEPT !.order = Swap(@, i)])
Respell(i, sp) == CanStep("Respell") /\ i \in Rows /\ pres.rsp[i] # sp /\ Step("Respell", i, sp, [pres EXCEPT !.rsp[i] = sp])
Rescale(i, k) == CanStep("Rescale") /\ i \in Rows /\ pres.rsc[i] # k /\ Step("Rescale", i, ScaleName(k), [pres EXCEPT !.rsc[i] = k])
\* R7b positive rescaling of the box written as linear rows / as a norm: k*norm(x, inf) <= k*XB
RescaleBounds(k) == /\ CanStep("RescaleBounds") /\ pres.bsp \in {"lin", "inf", "abs"} /\ pres.bsc # k
                    /\ Step("RescaleBounds", 0, ScaleName(k), [pres EXCEPT !.bsc = k])
SplitEq(i) == /\ CanStep("SplitEq")
              /\ i \in Rows
              /\ prog.rows[i].sense = "eq"
              /\ Step("SplitEq", i, "", [pres EXCEPT !.esp[i] = IF @ = "one" THEN "split" ELSE "one"])
ArrLoop(i) == CanStep("ArrLoop") /\ i \in Rows /\ Step("ArrLoop", i, "", [pres EXCEPT !.asp[i] = IF @ = "loop" THEN "vec" ELSE "loop"])
MoveTerms(i) == CanStep("MoveTerms") /\ i \in Rows /\ Step("MoveTerms", i, "", [pres EXCEPT !.msp[i] = IF @ = "sides" THEN "left" ELSE "sides"])
MoveConst(i) == CanStep("MoveConst") /\ i \in Rows /\ Step("MoveConst", i, "", [pres EXCEPT !.csp[i] = IF @ = "last" THEN "first" ELSE "last"])
RespellBounds(b) == /\ CanStep("RespellBounds")
                    /\ pres.bsp # b
                    /\ (b \in {"inf", "abs"} => BoxSymmetric)
                    /\ Step("RespellBounds", 0, b, [pres EXCEPT !.bsp = b])
\* nested lists are flattened by Ambiguity.suppset only: unsupported spelling in the ro front end
RespellSet(sp) == /\ CanStep("RespellSet")
                  /\ pres.ssp # sp
                  /\ (sp = "nested" => pres.front # "ro")
                  /\ Step("RespellSet", 0, sp, [pres EXCEPT !.ssp = sp])
\* R10b the bounds INSIDE an uncertainty set / support written as bound objects (z >= a on the whole
\*      random array or an entry of it) | as linear constraints (1.0*z >= a): Bounds versus LinConstr
\*      in the support model, i.e. bound vectors versus rows of the program that is dualised
RespellSetBounds == /\ CanStep("RespellSetBounds")
                    /\ Step("RespellSetBounds", 0, "", [pres EXCEPT !.sbl = IF @ = "obj" THEN "lin" ELSE "obj"])
SwitchFront(f) == /\ CanStep("SwitchFront")
                  /\ pres.front # f
                  /\ (f = "ro" => pres.ssp # "nested")
                  /\ Step("SwitchFront", 0, f, [pres EXCEPT !.front = f])

RwNext == \/ Start
          \/ FlipObj
          \/ MoveObj
          \/ \E i \in 1..2 : SwapDecl(i)
          \/ \E i \in 1..(MaxRows + 1) : SwapStmt(i)
          \/ \E i \in 1..MaxRows, sp \in {"dir", "neg", "flip"} : Respell(i, sp)
          \/ \E i \in 1..MaxRows, k \in Scales : Rescale(i, k)
          \/ \E k \in Scales : RescaleBounds(k)
          \/ \E i \in 1..MaxRows : SplitEq(i)
          \/ \E i \in 1..MaxRows : ArrLoop(i)
          \/ \E i \in 1..MaxRows : MoveTerms(i)
          \/ \E i \in 1..MaxRows : MoveConst(i)
          \/ \E b \in BoundSpellings : RespellBounds(b)
          \/ \E sp \in SetSpellings : RespellSet(sp)
          \/ RespellSetBounds
          \/ \E f \in Fronts : SwitchFront(f)

RwSpec == RwInit /\ [][RwNext]_rwvars

\* breadth-first runs identify presentations reached by different words
RwView == <<prog, pres, gopt>>

-----------------------------------------------------------------------------
(* Properties *)

DenotInvariant == gopt = Unset \/ GridOptOf(Denot(prog, pres)) = gopt

\* the unsupported spelling is never presented (the guard above is the support matrix)
Supported == ~(pres.front = "ro" /\ pres.ssp = "nested")

\* ... and the spec knows why: one-level flattening does not reach the constraints
NestedRoIllFormed ==
    ("nested" \in SetSpellings) =>
        ~Meaning(Present(prog, [pres EXCEPT !.front = "ro", !.ssp = "nested"])).wellformed

\* sanity of the oracle: the family is not trivial
ProgOK == WellFormed(Base(prog))

-----------------------------------------------------------------------------
(* Export: every presentation with the syntax to render and the common expected optimum *)

RwRec ==
    [prog |-> prog, pres |-> pres, hist |-> hist, model |-> Present(prog, pres),
     gridFeasible |-> gopt.feasible, gridOpt |-> gopt.val,
     verts |-> {[id |-> s, v |-> SetToSeq(Vert(s))] : s \in UsedSets(prog)}]

RwExport == gopt = Unset \/ PrintT(ToJson(RwRec))
=============================================================================
