------------------------------- MODULE RoSem -------------------------------
(***************************************************************************)
(* Denotational semantics of rsome.ro models on a grid-exact family        *)
(* (integer data, uncertainty sets given by vertex lists, by a 2-norm ball *)
(* / ellipse compared in squares, or - convex sets with a transcendental   *)
(* boundary - by an INNER and an OUTER integer polygon (RoSets.tla);       *)
(* integer decision grid).                                                 *)
(*                                                                         *)
(* A declared model is                                                     *)
(*    x in [-XB, XB]^2 (continuous or integer), optionally one decision    *)
(*    rule y(z) = y0 + sum_{k in mask} Y_k z_k with -XB <= y(z) <= XB on   *)
(*    the default set, rows  LHS_r(x, y, z) (<=|>=|==) 0 for all z in the   *)
(*    set attached to the row (its own, or the objective's default), and   *)
(*    an objective min | max | minmax | maxmin of OBJ(x, y, z).            *)
(*                                                                         *)
(* The spec is a generator + oracle (every program of the family is an     *)
(* initial state; GridOpt is computed by exhaustive enumeration) and a     *)
(* validator: the Solved step takes the values the real library returned   *)
(* (scaled integers) and the post-condition of C01/C02 is evaluated by TLC *)
(* at EVERY vertex of every set.                                           *)
(*                                                                         *)
(* Sandwich sets (kind "sand"): max_{z in S} affine cannot be decided      *)
(* exactly; every worst-case operator takes a SIDE:                        *)
(*   "in"   over conv Inner(s), a subset of S:  a violation found there is *)
(*          a violation at a member of S (C01 post-conditions);            *)
(*   "out"  over conv Outer(s), a superset of S: a grid point feasible     *)
(*          there is feasible for S and its worst case bounds the true one *)
(*          (grid oracle: reported <= gridOpt, one-sided, C02).            *)
(* Vertex coordinates are integers scaled by ZD; all worst-case VALUES are *)
(* carried scaled by ZD (ZD = 1 unless the run uses a sandwich set, so     *)
(* that polytope-only runs and Rewrite.tla are unchanged).                 *)
(***************************************************************************)
EXTENDS Integers, Sequences, FiniteSets, TLC, FiniteSetsExt, SequencesExt, Json, RoSets

CONSTANTS XB,          \* decision box / grid radius
          YB,          \* grid radius for decision-rule coefficients
          SetIds,      \* sets of the catalogue used in this run
          RowTemplates,\* template ids usable in rows
          ObjTemplates,\* template ids usable as robust objective
          MaxRows,     \* rows per program
          Masks,       \* decision-rule variants: "none", "m0" (rule without dependency), "m1", "m2", "m12"
          IntChoices,  \* subset of BOOLEAN: decisions integer?
          Senses,      \* subset of {"le","ge","eq"}
          OSenses,     \* subset of {"min","max","minmax","maxmin"}
          Results,     \* set of results returned by the implementation (validator mode), or {}
          SC           \* scale of the returned values (validator mode)

NZ == 2
Comps == 1..NZ

-----------------------------------------------------------------------------
(* Set catalogue: vertex lists (polytopes), quadrics {(z-c)' diag(1/w) (z-c) <= 1} decided    *)
(* exactly in squares (kind "ball": 2-norm balls, an axis-aligned ellipse, a shifted ball),   *)
(* or sandwich polygons (kind "sand", module RoSets).                                        *)
(* The H-representation handed to rsome lives in harness/ro_catalogue.py; it is checked      *)
(* against these vertex lists / quadrics / polygons in every run (CatalogueSound, harness).  *)

Box(l1, u1, l2, u2) == {<<a, b>> : a \in {l1, u1}, b \in {l2, u2}}

QuadricSets == {13, 14, 28, 36}
SetKind(s) == IF s \in QuadricSets THEN "ball" ELSE IF s \in SandSets THEN "sand" ELSE "poly"
BallR2(s) == CASE s = 13 -> 1 [] s = 14 -> 4 [] OTHER -> 0
\* squared semi-axes and centre: max g0 + g.z = g0 + g.c + sqrt(w1 g1^2 + w2 g2^2)
BallW(s) == CASE s = 13 -> <<1, 1>> [] s = 14 -> <<4, 4>> [] s = 28 -> <<4, 1>> [] s = 36 -> <<1, 1>>
BallC(s) == CASE s = 36 -> <<1, 0>> [] OTHER -> <<0, 0>>

\* scale of the vertex coordinates and of every worst-case value (an operator, not a constant)
ZD == IF SetIds \cap SandSets = {} THEN 1 ELSE SandZD
Sides == {"in", "out"}

Vert(s) ==
    CASE s = 1  -> Box(-1, 1, -1, 1)          \* bounds objects
      [] s = 2  -> Box(-1, 1, -1, 1)          \* the same box written with linear constraints
      [] s = 3  -> Box(0, 2, 0, 2)            \* non-negative variables
      [] s = 4  -> Box(-2, 0, -2, 0)          \* non-positive variables
      [] s = 5  -> Box(0, 2, -2, 0)           \* mixed
      [] s = 6  -> Box(-1, 1, -1, 1)          \* abs(z) <= 1
      [] s = 7  -> {<<2, 0>>, <<-2, 0>>, <<0, 2>>, <<0, -2>>}   \* norm(z,1) <= 2
      [] s = 8  -> Box(-2, 2, -2, 2)          \* norm(z,inf) <= 2
      [] s = 9  -> {<<1, 0>>, <<0, 1>>}       \* simplex z >= 0, sum z == 1
      [] s = 10 -> {<<1, 0>>, <<-1, 0>>, <<0, 1>>, <<0, -1>>}   \* abs(z) <= 1 and norm(z,1) <= 1
      [] s = 11 -> {<<1, -1>>, <<-1, 1>>}     \* sum z == 0, abs(z) <= 1
      [] s = 12 -> {<<1, 0>>, <<-1, 0>>, <<0, 1>>, <<0, -1>>}   \* lifted: abs(z) <= u, u <= 1, sum u <= 1
      [] s = 15 -> Box(-1, 1, -1, 1)          \* square(z) <= 1
      [] s = 16 -> Box(1, 3, 1, 3)            \* finite non-zero lower and upper bounds
      [] s = 17 -> Box(1, 1, -1, 1)           \* first component fixed by bounds lb = ub = 1
      [] s = 18 -> Box(-3, -1, 1, 2)          \* negative finite bounds / positive finite bounds
      [] s = 19 -> {<<0, 0>>, <<2, 0>>, <<0, 2>>}  \* z >= 0, sum z <= 2 (inequality row + sign bounds)
      [] s = 34 -> {<<-1, 2>>, <<0, 1>>}      \* exp(z1) <= z2, z1 + z2 == 1, z1 >= -1: on the line e^a <= 1 - a <=> a <= 0
      [] s = 37 -> Box(0, 1, -1, 1)           \* a sign-restricted component (bound exactly 0) next to one with non-zero bounds
      [] s = 38 -> Box(-2, 0, 1, 3)           \* non-positive component next to a positive one
      [] OTHER  -> {}

\* vertices of set s on a side, scaled by ZD (polytopes: both sides are the polytope)
VZ(s, side) ==
    IF SetKind(s) = "sand" THEN (IF side = "in" THEN Inner(s) ELSE Outer(s))
    ELSE {<<ZD * v[1], ZD * v[2]>> : v \in Vert(s)}

-----------------------------------------------------------------------------
(* Coefficient templates.  LHS(z) = sum_i (a_i + sum_k A_ik z_k) x_i + c*y(z) + b + sum_k B_k z_k *)

T(a, A, c, b, B) == [a |-> a, A |-> A, c |-> c, b |-> b, B |-> B]
Z2 == <<0, 0>>
Z22 == <<Z2, Z2>>

Template(t) ==
    CASE t = 1  -> T(<<1, 0>>, Z22, 0, -1, <<1, 0>>)                  \* x1 + z1 - 1
      [] t = 2  -> T(<<1, 1>>, Z22, 0, -2, <<1, -1>>)                 \* x1 + x2 + z1 - z2 - 2
      [] t = 3  -> T(<<0, 0>>, <<<<1, 0>>, <<0, 1>>>>, 0, -2, Z2)     \* z1 x1 + z2 x2 - 2
      [] t = 4  -> T(<<1, 0>>, <<<<0, 1>>, <<-1, 0>>>>, 0, -1, Z2)    \* x1 + z2 x1 - z1 x2 - 1
      [] t = 5  -> T(<<-1, 1>>, <<<<1, 1>>, <<0, 0>>>>, 0, -1, <<0, 1>>) \* -x1 + x2 + (z1+z2) x1 + z2 - 1
      [] t = 6  -> T(<<1, 0>>, Z22, -1, 0, Z2)                        \* x1 - y(z)
      [] t = 7  -> T(<<0, 0>>, Z22, 1, -1, <<-1, -1>>)                \* y(z) - z1 - z2 - 1
      [] t = 8  -> T(<<0, 1>>, <<<<1, 0>>, <<0, 0>>>>, 1, 0, <<0, -2>>) \* x2 + z1 x1 + y(z) - 2 z2
      [] t = 9  -> T(<<2, -1>>, <<<<0, 0>>, <<1, -1>>>>, 0, 1, <<-1, 0>>) \* 2x1 - x2 + (z1 - z2) x2 - z1 + 1
      [] t = 10 -> T(<<0, 0>>, Z22, 1, 0, <<-1, 0>>)                  \* y(z) - z1     (equality: y tracks z1)
      [] t = 11 -> T(<<1, -1>>, Z22, 0, 0, Z2)                        \* x1 - x2      (deterministic row)
      [] t = 12 -> T(<<0, 0>>, <<<<2, 0>>, <<0, -1>>>>, 0, -1, <<1, 1>>) \* 2 z1 x1 - z2 x2 + z1 + z2 - 1
      \* objective templates
      [] t = 21 -> T(<<1, 1>>, Z22, 0, 0, Z2)                         \* x1 + x2
      [] t = 22 -> T(<<-1, 2>>, Z22, 0, 0, Z2)                        \* -x1 + 2 x2
      [] t = 23 -> T(<<1, 0>>, <<<<0, 0>>, <<1, 1>>>>, 0, 0, <<1, 0>>)   \* x1 + (z1+z2) x2 + z1
      [] t = 24 -> T(<<-1, -1>>, <<<<1, 0>>, <<0, -1>>>>, 0, 0, Z2)   \* -x1 - x2 + z1 x1 - z2 x2
      [] t = 25 -> T(<<1, 0>>, Z22, 1, 0, <<0, 1>>)                   \* x1 + y(z) + z2
      [] t = 26 -> T(<<0, -1>>, Z22, -1, 0, Z2)                       \* -x2 - y(z)

UsesY(t) == Template(t).c # 0
UsesZ(t) == Template(t).A # Z22 \/ Template(t).B # Z2 \/ UsesY(t)

-----------------------------------------------------------------------------
(* Semantics *)

Dot2(u, v) == u[1] * v[1] + u[2] * v[2]
MaskSet(m) == CASE m = "m1" -> {1} [] m = "m2" -> {2} [] m = "m12" -> {1, 2} [] OTHER -> {}

\* value of the decision rule at z: y = <<y0, Y1, Y2>>, entries outside the mask must be 0
YVal(y, z) == y[1] + y[2] * z[1] + y[3] * z[2]

\* LHS as an affine function of z:  G0 + G1 z1 + G2 z2   (x, y may be scaled integers)
G0(tm, x, y) == Dot2(tm.a, x) + tm.c * y[1]
Gk(tm, x, y, k) == tm.A[1][k] * x[1] + tm.A[2][k] * x[2] + tm.c * y[k + 1]
\* constant parts carry the scale sc (1 on the grid, SC on returned values)
LhsAt(tm, x, y, z, sc) == G0(tm, x, y) + sc * tm.b
                          + (Gk(tm, x, y, 1) + sc * tm.B[1]) * z[1]
                          + (Gk(tm, x, y, 2) + sc * tm.B[2]) * z[2]

\* worst case of the affine function g0 + g.z over set s (on a side), compared with 0:  max <= tol ?
\* polytope / sandwich polygon: at every vertex (coordinates scaled by ZD);
\* quadric: h0 = g0 + g.c <= tol and w1 g1^2 + w2 g2^2 <= (tol - h0)^2  (exact, the side is irrelevant)
MaxLeqS(s, side, g0, g1, g2, tol) ==
    IF SetKind(s) = "ball"
    THEN LET h0 == g0 + g1 * BallC(s)[1] + g2 * BallC(s)[2] IN
         /\ h0 <= tol
         /\ BallW(s)[1] * g1 * g1 + BallW(s)[2] * g2 * g2 <= (tol - h0) * (tol - h0)
    ELSE \A z \in VZ(s, side) : ZD * g0 + g1 * z[1] + g2 * z[2] <= ZD * tol

MaxLeq(s, g0, g1, g2, tol) == MaxLeqS(s, "out", g0, g1, g2, tol)

RowHoldsS(r, dset, side, x, y, sc, tol) ==
    LET tm == Template(r.t)
        s == IF r.set = 0 THEN dset ELSE r.set
        g0 == G0(tm, x, y) + sc * tm.b
        g1 == Gk(tm, x, y, 1) + sc * tm.B[1]
        g2 == Gk(tm, x, y, 2) + sc * tm.B[2]
    IN CASE r.sense = "le" -> MaxLeqS(s, side, g0, g1, g2, tol)
         [] r.sense = "ge" -> MaxLeqS(s, side, -g0, -g1, -g2, tol)
         [] r.sense = "eq" -> MaxLeqS(s, side, g0, g1, g2, tol) /\ MaxLeqS(s, side, -g0, -g1, -g2, tol)
RowHolds(r, dset, x, y, sc, tol) == RowHoldsS(r, dset, "out", x, y, sc, tol)

\* the decision rule is boxed on the default set: -XB <= y(z) <= XB
YBoxHoldsS(p, side, y, sc, tol) ==
    p.mask = "none" \/
    /\ MaxLeqS(p.dset, side, y[1] - sc * XB, y[2], y[3], tol)
    /\ MaxLeqS(p.dset, side, -y[1] - sc * XB, -y[2], -y[3], tol)
YBoxHolds(p, y, sc, tol) == YBoxHoldsS(p, "out", y, sc, tol)

MaskOK(p, y) == /\ (1 \notin MaskSet(p.mask) => y[2] = 0)
                /\ (2 \notin MaskSet(p.mask) => y[3] = 0)
                /\ (p.mask = "none" => y[1] = 0)

FeasibleS(p, side, x, y, sc, tol) ==
    /\ \A i \in 1..Len(p.rows) : RowHoldsS(p.rows[i], p.dset, side, x, y, sc, tol)
    /\ YBoxHoldsS(p, side, y, sc, tol)
Feasible(p, x, y, sc, tol) == FeasibleS(p, "out", x, y, sc, tol)

\* objective: worst case over the default set (polytopes and sandwich sets for robust objectives).
\* ObjAtZ / WorstObjS carry the value scaled by ZD (vertex Z scaled by ZD).
ObjAt(p, x, y, z, sc) == LhsAt(Template(p.obj), x, y, z, sc)
ObjAtZ(p, x, y, Z, sc) ==
    LET tm == Template(p.obj) IN
    ZD * (G0(tm, x, y) + sc * tm.b) + (Gk(tm, x, y, 1) + sc * tm.B[1]) * Z[1]
                                    + (Gk(tm, x, y, 2) + sc * tm.B[2]) * Z[2]
Minimising(p) == p.osense \in {"min", "minmax"}
\* for a minimiser the worst case is the max over the side's polygon: side "in" bounds it from below,
\* side "out" from above (mirrored for a maximiser)
WorstObjS(p, side, x, y, sc) ==
    IF p.osense \in {"min", "max"}
    THEN ZD * ObjAt(p, x, y, <<0, 0>>, sc)
    ELSE IF Minimising(p) THEN Max({ObjAtZ(p, x, y, Z, sc) : Z \in VZ(p.dset, side)})
                          ELSE Min({ObjAtZ(p, x, y, Z, sc) : Z \in VZ(p.dset, side)})
WorstObj(p, x, y, sc) == WorstObjS(p, "out", x, y, sc)

Grid == (-XB)..XB
YGrid(p) == {y \in ((-YB)..YB) \X ((-YB)..YB) \X ((-YB)..YB) : MaskOK(p, y)}
\* = {xy \in (Grid \X Grid) \X YGrid(p) : FeasibleS(p, side, xy[1], xy[2], 1, 0)}, the box of the rule (which does
\* not depend on x) filtered first
FeasGridS(p, side) ==
    LET YS == {y \in YGrid(p) : YBoxHoldsS(p, side, y, 1, 0)} IN
    {xy \in (Grid \X Grid) \X YS :
        \A i \in 1..Len(p.rows) : RowHoldsS(p.rows[i], p.dset, side, xy[1], xy[2], 1, 0)}
FeasGrid(p) == FeasGridS(p, "out")

\* optimum over the integer grid on a side (value scaled by ZD).
\* side "out": every feasible grid point is feasible for the true set and its value bounds the true worst case:
\*   an upper (lower for max) bound on the true optimum;
\* side "in" (integer decisions, no decision rule): a lower (upper for max) bound on the true optimum.
\* Polytopes / quadrics: the sides coincide; THE optimum when the decisions are integer and there is no rule.
GridOptS(p, side) ==
    LET F == FeasGridS(p, side) IN
    IF F = {} THEN [feasible |-> FALSE, val |-> 0]
    ELSE [feasible |-> TRUE,
          val |-> IF Minimising(p) THEN Min({WorstObjS(p, side, xy[1], xy[2], 1) : xy \in F})
                                   ELSE Max({WorstObjS(p, side, xy[1], xy[2], 1) : xy \in F})]
GridOpt(p) == GridOptS(p, "out")

-----------------------------------------------------------------------------
(* The family *)

ProgSets(p) == {p.dset} \cup {p.rows[i].set : i \in {j \in 1..Len(p.rows) : p.rows[j].set # 0}}
ExpSets == {23, 24, 25, 26, 29, 30, 31, 34}
UsesSand(p) == \E s \in ProgSets(p) : SetKind(s) = "sand"

RowSet(p) == {[t |-> t, sense |-> sn, set |-> s] :
                 t \in RowTemplates, sn \in Senses, s \in SetIds \cup {0}}

WellFormed(p) ==
    /\ \A i \in 1..Len(p.rows) :
          /\ (UsesY(p.rows[i].t) => p.mask # "none")
          /\ (p.rows[i].sense = "eq" => UsesZ(p.rows[i].t))     \* robust equalities only
          /\ (~UsesZ(p.rows[i].t) => p.rows[i].set = 0)          \* deterministic rows carry no set
    /\ (UsesY(p.obj) => p.mask # "none")
    /\ (p.osense \in {"min", "max"} <=> ~UsesZ(p.obj))
    /\ (SetKind(p.dset) = "ball" => p.osense \in {"min", "max"}) \* robust objectives over polytopes / sandwich sets
    \* rsome resolves set 0 to the default: it must exist
    /\ p.dset \in SetIds
    \* lifted sets (12, 26) bring two extra random components: not mixed with other own sets
    /\ \A L \in {12, 26} :
          /\ (\E i \in 1..Len(p.rows) : p.rows[i].set = L) => p.dset = L
          /\ (p.dset = L => \A i \in 1..Len(p.rows) : p.rows[i].set \in {0, L})
    \* sets described with exponential cones (KL, entropy, exp, log, softplus, real p-norm degree) are solved by ECOS
    \* only, whose branch-and-bound is not usable (hangs on infeasible programs): continuous decisions there
    /\ (ProgSets(p) \cap ExpSets # {} => ~p.xint)
    \* a program uses at most ONE curved set (sandwich or quadric), next to polytopes
    /\ Cardinality(ProgSets(p) \ {s \in ProgSets(p) : SetKind(s) = "poly"}) <= 1
    \* decision rules need an integer-free model (rsome: LDR coefficients are continuous; fine)
    /\ (p.mask # "none" => ~p.xint)

RowSeqs == UNION {[1..n -> RowSet(0)] : n \in 1..MaxRows}

\* p.arr: the two rows are posted as ONE 2-row ARRAY constraint (one constraint object: same sense, same set).
\* An array constraint denotes its rows, so no operator of the semantics reads the field; it selects the code path of
\* vector-valued robust constraints (the robust counterpart lays its dual block out row by row).
ArrChoices == IF MaxRows >= 2 THEN BOOLEAN ELSE {FALSE}
ArrOK(p) == p.arr => /\ Len(p.rows) = 2
                     /\ p.rows[1].sense = p.rows[2].sense
                     /\ p.rows[1].set = p.rows[2].set

Programs ==
    {p \in [xint : IntChoices, mask : Masks, rows : RowSeqs, osense : OSenses,
            obj : ObjTemplates, dset : SetIds, arr : ArrChoices] : WellFormed(p) /\ ArrOK(p)}

VARIABLES prog, res
vars == <<prog, res>>

\* Results is a SET of records in validator mode ({} in generator mode); each carries its own tid.
\* The chosen record is kept in a state variable so that the literal is evaluated once.
Init == IF Results = {} THEN res = [tid |-> 0] /\ prog \in Programs
        ELSE res \in Results /\ prog = res.prog

Next == UNCHANGED vars
Spec == Init /\ [][Next]_vars

-----------------------------------------------------------------------------
(* Generator mode: export every program with its exact grid optimum *)

\* gridOpt / gridOptIn are scaled by zd.  The "in" side differs from the "out" side only for programs that use a
\* sandwich set, and is a bound on the optimum only for integer decisions without decision rule.
Rec(p) ==
    LET g == GridOpt(p)
        gi == IF UsesSand(p) /\ p.xint /\ p.mask = "none" THEN GridOptS(p, "in") ELSE g IN
    [prog |-> p,
     rows |-> [i \in 1..Len(p.rows) |-> Template(p.rows[i].t)],
     objT |-> Template(p.obj),
     verts |-> [s \in SetIds |-> IF SetKind(s) = "poly" THEN SetToSeq(Vert(s)) ELSE <<>>],
     ballR2 |-> [s \in SetIds |-> IF SetKind(s) = "ball" THEN BallR2(s) ELSE 0],
     zd |-> ZD, sand |-> UsesSand(p),
     gridFeasible |-> g.feasible, gridOpt |-> g.val,
     gridFeasibleIn |-> gi.feasible, gridOptIn |-> gi.val]

Export == res.tid # 0 \/ PrintT(ToJson(Rec(prog)))

\* the catalogue as TLC uses it, exported once per run (ASSUME in the model) for CatalogueSound (harness side)
CatRec ==
    [cat |-> TRUE, zd |-> ZD,
     verts |-> [s \in SetIds |-> IF SetKind(s) = "poly" THEN SetToSeq(Vert(s)) ELSE <<>>],
     vin   |-> [s \in SetIds |-> IF SetKind(s) = "sand" THEN SetToSeq(Inner(s)) ELSE <<>>],
     vout  |-> [s \in SetIds |-> IF SetKind(s) = "sand" THEN SetToSeq(Outer(s)) ELSE <<>>],
     quadrics |-> [s \in SetIds |-> IF SetKind(s) = "ball" THEN [c |-> BallC(s), w |-> BallW(s)] ELSE [c |-> <<>>, w |-> <<>>]]]
\* (with a parameter: TLC evaluates constant-level definitions WITHOUT parameters at start-up, in every model that
\* extends this module; the generator model says ASSUME ExportCat(0))
ExportCat(once) == PrintT(ToJson(CatRec))

\* oracle self-check: a vertex list is not empty, both polygons of a sandwich set exist and fit TLC's integers
OracleSane == /\ \A s \in SetIds : SetKind(s) = "poly" => Vert(s) # {}
              /\ \A s \in SetIds : SetKind(s) = "sand" =>
                    /\ Inner(s) # {} /\ Outer(s) # {}
                    /\ \A z \in Inner(s) \cup Outer(s) : \A k \in 1..2 : z[k] <= 3 * ZD /\ z[k] >= -3 * ZD

-----------------------------------------------------------------------------
(* Validator mode (code -> spec): post-condition of C01 / C02 on what the library returned.   *)
(* Results[k] = [prog, status ("ok"|"fail"), x, y, obj (scaled by SC), tol (scaled), gridOpt,  *)
(* gridFeasible, gridOptIn, gridFeasibleIn (grid values scaled by ZD)].                        *)
(* Side "in" for what must hold at every member of the set (C01), the "out" grid optimum as    *)
(* one-sided bound (C02), the "in" grid optimum as the opposite bound for integer programs.    *)

Res == res

\* tolerance in scaled units, supplied with the result: rounding of each returned value (1/2 unit)
\* times the coefficient mass, plus the solver's own feasibility tolerance
RowTol(tm) == Res.tol
PostFeasible ==
    /\ \A i \in 1..Len(prog.rows) :
          RowHoldsS(prog.rows[i], prog.dset, "in", Res.x, Res.y, SC, RowTol(Template(prog.rows[i].t)))
    /\ YBoxHoldsS(prog, "in", Res.y, SC, RowTol(0))
    /\ \A i \in 1..2 : Res.x[i] <= SC * XB + Res.tol /\ Res.x[i] >= -SC * XB - Res.tol
PostMask == /\ (1 \notin MaskSet(prog.mask) => Res.y[2] = 0)
            /\ (2 \notin MaskSet(prog.mask) => Res.y[3] = 0)
PostObjSafe ==   \* reported objective bounds the worst case (over members of the set) at the returned solution
    IF Minimising(prog) THEN ZD * Res.obj >= WorstObjS(prog, "in", Res.x, Res.y, SC) - ZD * RowTol(0)
                        ELSE ZD * Res.obj <= WorstObjS(prog, "in", Res.x, Res.y, SC) + ZD * RowTol(0)
PostObjTight ==  \* ... and is no worse than the best grid point (exactness, one-sided; "out" side)
    Res.gridFeasible =>
        IF Minimising(prog) THEN ZD * Res.obj <= SC * Res.gridOpt + ZD * RowTol(0)
                            ELSE ZD * Res.obj >= SC * Res.gridOpt - ZD * RowTol(0)
PostObjExact ==  \* all-integer models without decision rule: equality (sandwich sets: gridOptIn <= . <= gridOpt)
    (prog.xint /\ prog.mask = "none") =>
        /\ Res.gridFeasible =>
              IF Minimising(prog) THEN ZD * Res.obj <= SC * Res.gridOpt + ZD * RowTol(0)
                                  ELSE ZD * Res.obj >= SC * Res.gridOpt - ZD * RowTol(0)
        /\ Res.gridFeasibleIn =>
              IF Minimising(prog) THEN ZD * Res.obj >= SC * Res.gridOptIn - ZD * RowTol(0)
                                  ELSE ZD * Res.obj <= SC * Res.gridOptIn + ZD * RowTol(0)
PostStatus ==    \* integer models: solvable exactly when the grid has a feasible point
    (prog.xint /\ prog.mask = "none") =>
        /\ (Res.gridFeasible => Res.status = "ok")        \* a point feasible for the outer set is feasible
        /\ (Res.status = "ok" => Res.gridFeasibleIn)      \* a solution is feasible for the inner set

Verdict ==
    [tid |-> res.tid,
     feasible |-> Res.status # "ok" \/ PostFeasible,
     mask |-> Res.status # "ok" \/ PostMask,
     objsafe |-> Res.status # "ok" \/ PostObjSafe,
     objtight |-> Res.status # "ok" \/ PostObjTight,
     objexact |-> Res.status # "ok" \/ PostObjExact,
     status |-> PostStatus]

Validate == res.tid = 0 \/ PrintT(ToJson(Verdict))
=============================================================================
