------------------------------- MODULE RoSem -------------------------------
(***************************************************************************)
(* Denotational semantics of rsome.ro models on a grid-exact family        *)
(* (integer data, uncertainty sets given by vertex lists or by a 2-norm    *)
(* ball compared in squares, integer decision grid).                       *)
(*                                                                         *)
(* A declared model is                                                     *)
(*    x in [-XB, XB]^2 (continuous or integer), optionally one decision    *)
(*    rule y(z) = y0 + sum_{k in mask} Y_k z_k with -XB <= y(z) <= XB on   *)
(*    the default set, rows  LHS_r(x, y, z) (<=|>=|==) 0 for all z in the   *)
(*    set attached to the row (its own, or the objective's default), and   *)
(*    an objective min | max | minmax | maxmin of OBJ(x, y, z).            *)
(*                                                                         *)
(* The spec is a generator + oracle (every program of the family is an     *)
(* initial state; GridOpt is computed by exhaustive enumeration) and a     *)
(* validator: the Solved step takes the values the real library returned   *)
(* (scaled integers) and the post-condition of C01/C02 is evaluated by TLC *)
(* at EVERY vertex of every set.                                           *)
(***************************************************************************)
EXTENDS Integers, Sequences, FiniteSets, TLC, FiniteSetsExt, SequencesExt, Json

CONSTANTS XB,          \* decision box / grid radius
          YB,          \* grid radius for decision-rule coefficients
          SetIds,      \* sets of the catalogue used in this run
          RowTemplates,\* template ids usable in rows
          ObjTemplates,\* template ids usable as robust objective
          MaxRows,     \* rows per program
          Masks,       \* decision-rule variants: "none", "m0" (rule without dependency), "m1", "m2", "m12"
          IntChoices,  \* subset of BOOLEAN: decisions integer?
          Senses,      \* subset of {"le","ge","eq"}
          OSenses,     \* subset of {"min","max","minmax","maxmin"}
          Results,     \* set of results returned by the implementation (validator mode), or {}
          SC           \* scale of the returned values (validator mode)

NZ == 2
Comps == 1..NZ

-----------------------------------------------------------------------------
(* Set catalogue: vertex lists (polytopes) or a centred 2-norm ball of radius R (R2 = R^2). *)
(* The H-representation handed to rsome lives in harness/ro_catalogue.py; it is checked      *)
(* against these vertex lists in every run (CatalogueSound, harness side).                   *)

Box(l1, u1, l2, u2) == {<<a, b>> : a \in {l1, u1}, b \in {l2, u2}}

SetKind(s) == IF s \in {13, 14} THEN "ball" ELSE "poly"
BallR2(s) == CASE s = 13 -> 1 [] s = 14 -> 4

Vert(s) ==
    CASE s = 1  -> Box(-1, 1, -1, 1)          \* bounds objects
      [] s = 2  -> Box(-1, 1, -1, 1)          \* the same box written with linear constraints
      [] s = 3  -> Box(0, 2, 0, 2)            \* non-negative variables
      [] s = 4  -> Box(-2, 0, -2, 0)          \* non-positive variables
      [] s = 5  -> Box(0, 2, -2, 0)           \* mixed
      [] s = 6  -> Box(-1, 1, -1, 1)          \* abs(z) <= 1
      [] s = 7  -> {<<2, 0>>, <<-2, 0>>, <<0, 2>>, <<0, -2>>}   \* norm(z,1) <= 2
      [] s = 8  -> Box(-2, 2, -2, 2)          \* norm(z,inf) <= 2
      [] s = 9  -> {<<1, 0>>, <<0, 1>>}       \* simplex z >= 0, sum z == 1
      [] s = 10 -> {<<1, 0>>, <<-1, 0>>, <<0, 1>>, <<0, -1>>}   \* abs(z) <= 1 and norm(z,1) <= 1
      [] s = 11 -> {<<1, -1>>, <<-1, 1>>}     \* sum z == 0, abs(z) <= 1
      [] s = 12 -> {<<1, 0>>, <<-1, 0>>, <<0, 1>>, <<0, -1>>}   \* lifted: abs(z) <= u, u <= 1, sum u <= 1
      [] s = 15 -> Box(-1, 1, -1, 1)          \* square(z) <= 1
      [] s = 16 -> Box(1, 3, 1, 3)            \* finite non-zero lower and upper bounds
      [] s = 17 -> Box(1, 1, -1, 1)           \* first component fixed by bounds lb = ub = 1
      [] s = 18 -> Box(-3, -1, 1, 2)          \* negative finite bounds / positive finite bounds
      [] s = 19 -> {<<0, 0>>, <<2, 0>>, <<0, 2>>}  \* z >= 0, sum z <= 2 (inequality row + sign bounds)
      [] OTHER  -> {}

-----------------------------------------------------------------------------
(* Coefficient templates.  LHS(z) = sum_i (a_i + sum_k A_ik z_k) x_i + c*y(z) + b + sum_k B_k z_k *)

T(a, A, c, b, B) == [a |-> a, A |-> A, c |-> c, b |-> b, B |-> B]
Z2 == <<0, 0>>
Z22 == <<Z2, Z2>>

Template(t) ==
    CASE t = 1  -> T(<<1, 0>>, Z22, 0, -1, <<1, 0>>)                  \* x1 + z1 - 1
      [] t = 2  -> T(<<1, 1>>, Z22, 0, -2, <<1, -1>>)                 \* x1 + x2 + z1 - z2 - 2
      [] t = 3  -> T(<<0, 0>>, <<<<1, 0>>, <<0, 1>>>>, 0, -2, Z2)     \* z1 x1 + z2 x2 - 2
      [] t = 4  -> T(<<1, 0>>, <<<<0, 1>>, <<-1, 0>>>>, 0, -1, Z2)    \* x1 + z2 x1 - z1 x2 - 1
      [] t = 5  -> T(<<-1, 1>>, <<<<1, 1>>, <<0, 0>>>>, 0, -1, <<0, 1>>) \* -x1 + x2 + (z1+z2) x1 + z2 - 1
      [] t = 6  -> T(<<1, 0>>, Z22, -1, 0, Z2)                        \* x1 - y(z)
      [] t = 7  -> T(<<0, 0>>, Z22, 1, -1, <<-1, -1>>)                \* y(z) - z1 - z2 - 1
      [] t = 8  -> T(<<0, 1>>, <<<<1, 0>>, <<0, 0>>>>, 1, 0, <<0, -2>>) \* x2 + z1 x1 + y(z) - 2 z2
      [] t = 9  -> T(<<2, -1>>, <<<<0, 0>>, <<1, -1>>>>, 0, 1, <<-1, 0>>) \* 2x1 - x2 + (z1 - z2) x2 - z1 + 1
      [] t = 10 -> T(<<0, 0>>, Z22, 1, 0, <<-1, 0>>)                  \* y(z) - z1     (equality: y tracks z1)
      [] t = 11 -> T(<<1, -1>>, Z22, 0, 0, Z2)                        \* x1 - x2      (deterministic row)
      [] t = 12 -> T(<<0, 0>>, <<<<2, 0>>, <<0, -1>>>>, 0, -1, <<1, 1>>) \* 2 z1 x1 - z2 x2 + z1 + z2 - 1
      \* objective templates
      [] t = 21 -> T(<<1, 1>>, Z22, 0, 0, Z2)                         \* x1 + x2
      [] t = 22 -> T(<<-1, 2>>, Z22, 0, 0, Z2)                        \* -x1 + 2 x2
      [] t = 23 -> T(<<1, 0>>, <<<<0, 0>>, <<1, 1>>>>, 0, 0, <<1, 0>>)   \* x1 + (z1+z2) x2 + z1
      [] t = 24 -> T(<<-1, -1>>, <<<<1, 0>>, <<0, -1>>>>, 0, 0, Z2)   \* -x1 - x2 + z1 x1 - z2 x2
      [] t = 25 -> T(<<1, 0>>, Z22, 1, 0, <<0, 1>>)                   \* x1 + y(z) + z2
      [] t = 26 -> T(<<0, -1>>, Z22, -1, 0, Z2)                       \* -x2 - y(z)

UsesY(t) == Template(t).c # 0
UsesZ(t) == Template(t).A # Z22 \/ Template(t).B # Z2 \/ UsesY(t)

-----------------------------------------------------------------------------
(* Semantics *)

Dot2(u, v) == u[1] * v[1] + u[2] * v[2]
MaskSet(m) == CASE m = "m1" -> {1} [] m = "m2" -> {2} [] m = "m12" -> {1, 2} [] OTHER -> {}

\* value of the decision rule at z: y = <<y0, Y1, Y2>>, entries outside the mask must be 0
YVal(y, z) == y[1] + y[2] * z[1] + y[3] * z[2]

\* LHS as an affine function of z:  G0 + G1 z1 + G2 z2   (x, y may be scaled integers)
G0(tm, x, y) == Dot2(tm.a, x) + tm.c * y[1]
Gk(tm, x, y, k) == tm.A[1][k] * x[1] + tm.A[2][k] * x[2] + tm.c * y[k + 1]
\* constant parts carry the scale sc (1 on the grid, SC on returned values)
LhsAt(tm, x, y, z, sc) == G0(tm, x, y) + sc * tm.b
                          + (Gk(tm, x, y, 1) + sc * tm.B[1]) * z[1]
                          + (Gk(tm, x, y, 2) + sc * tm.B[2]) * z[2]

\* worst case of the affine function g0 + g.z over set s, compared with 0:  max <= tol ?
\* polytope: at every vertex; ball: g0 <= tol and R^2 |g|^2 <= (tol - g0)^2
MaxLeq(s, g0, g1, g2, tol) ==
    IF SetKind(s) = "poly"
    THEN \A z \in Vert(s) : g0 + g1 * z[1] + g2 * z[2] <= tol
    ELSE /\ g0 <= tol
         /\ BallR2(s) * (g1 * g1 + g2 * g2) <= (tol - g0) * (tol - g0)

RowHolds(r, dset, x, y, sc, tol) ==
    LET tm == Template(r.t)
        s == IF r.set = 0 THEN dset ELSE r.set
        g0 == G0(tm, x, y) + sc * tm.b
        g1 == Gk(tm, x, y, 1) + sc * tm.B[1]
        g2 == Gk(tm, x, y, 2) + sc * tm.B[2]
    IN CASE r.sense = "le" -> MaxLeq(s, g0, g1, g2, tol)
         [] r.sense = "ge" -> MaxLeq(s, -g0, -g1, -g2, tol)
         [] r.sense = "eq" -> MaxLeq(s, g0, g1, g2, tol) /\ MaxLeq(s, -g0, -g1, -g2, tol)

\* the decision rule is boxed on the default set: -XB <= y(z) <= XB
YBoxHolds(p, y, sc, tol) ==
    p.mask = "none" \/
    /\ MaxLeq(p.dset, y[1] - sc * XB, y[2], y[3], tol)
    /\ MaxLeq(p.dset, -y[1] - sc * XB, -y[2], -y[3], tol)

MaskOK(p, y) == /\ (1 \notin MaskSet(p.mask) => y[2] = 0)
                /\ (2 \notin MaskSet(p.mask) => y[3] = 0)
                /\ (p.mask = "none" => y[1] = 0)

Feasible(p, x, y, sc, tol) ==
    /\ \A i \in 1..Len(p.rows) : RowHolds(p.rows[i], p.dset, x, y, sc, tol)
    /\ YBoxHolds(p, y, sc, tol)

\* objective: worst case over the default set (polytopes only for robust objectives)
ObjAt(p, x, y, z, sc) == LhsAt(Template(p.obj), x, y, z, sc)
Minimising(p) == p.osense \in {"min", "minmax"}
WorstObj(p, x, y, sc) ==
    IF p.osense \in {"min", "max"}
    THEN ObjAt(p, x, y, <<0, 0>>, sc)
    ELSE IF Minimising(p) THEN Max({ObjAt(p, x, y, z, sc) : z \in Vert(p.dset)})
                          ELSE Min({ObjAt(p, x, y, z, sc) : z \in Vert(p.dset)})

Grid == (-XB)..XB
YGrid(p) == {y \in ((-YB)..YB) \X ((-YB)..YB) \X ((-YB)..YB) : MaskOK(p, y)}
FeasGrid(p) == {xy \in (Grid \X Grid) \X YGrid(p) : Feasible(p, xy[1], xy[2], 1, 0)}

\* exact optimum over the integer grid: an upper (lower for max) bound on the true optimum,
\* and THE optimum when the decisions are integer and there is no decision rule
GridOpt(p) ==
    LET F == FeasGrid(p) IN
    IF F = {} THEN [feasible |-> FALSE, val |-> 0]
    ELSE [feasible |-> TRUE,
          val |-> IF Minimising(p) THEN Min({WorstObj(p, xy[1], xy[2], 1) : xy \in F})
                                   ELSE Max({WorstObj(p, xy[1], xy[2], 1) : xy \in F})]

-----------------------------------------------------------------------------
(* The family *)

RowSet(p) == {[t |-> t, sense |-> sn, set |-> s] :
                 t \in RowTemplates, sn \in Senses, s \in SetIds \cup {0}}

WellFormed(p) ==
    /\ \A i \in 1..Len(p.rows) :
          /\ (UsesY(p.rows[i].t) => p.mask # "none")
          /\ (p.rows[i].sense = "eq" => UsesZ(p.rows[i].t))     \* robust equalities only
          /\ (~UsesZ(p.rows[i].t) => p.rows[i].set = 0)          \* deterministic rows carry no set
    /\ (UsesY(p.obj) => p.mask # "none")
    /\ (p.osense \in {"min", "max"} <=> ~UsesZ(p.obj))
    /\ (SetKind(p.dset) = "ball" => p.osense \in {"min", "max"}) \* robust objectives over polytopes
    \* rsome resolves set 0 to the default: it must exist
    /\ p.dset \in SetIds
    \* lifted set (12) brings two extra random components: not mixed with other own sets
    /\ (\E i \in 1..Len(p.rows) : p.rows[i].set = 12) => p.dset = 12
    /\ (p.dset = 12 => \A i \in 1..Len(p.rows) : p.rows[i].set \in {0, 12})
    \* decision rules need an integer-free model (rsome: LDR coefficients are continuous; fine)
    /\ (p.mask # "none" => ~p.xint)

RowSeqs == UNION {[1..n -> RowSet(0)] : n \in 1..MaxRows}

Programs ==
    {p \in [xint : IntChoices, mask : Masks, rows : RowSeqs, osense : OSenses,
            obj : ObjTemplates, dset : SetIds] : WellFormed(p)}

VARIABLES prog, res
vars == <<prog, res>>

\* Results is a SET of records in validator mode ({} in generator mode); each carries its own tid.
\* The chosen record is kept in a state variable so that the literal is evaluated once.
Init == IF Results = {} THEN res = [tid |-> 0] /\ prog \in Programs
        ELSE res \in Results /\ prog = res.prog

Next == UNCHANGED vars
Spec == Init /\ [][Next]_vars

-----------------------------------------------------------------------------
(* Generator mode: export every program with its exact grid optimum *)

Rec(p) ==
    LET g == GridOpt(p) IN
    [prog |-> p,
     rows |-> [i \in 1..Len(p.rows) |-> Template(p.rows[i].t)],
     objT |-> Template(p.obj),
     verts |-> [s \in SetIds |-> IF SetKind(s) = "poly" THEN SetToSeq(Vert(s)) ELSE <<>>],
     ballR2 |-> [s \in SetIds |-> IF SetKind(s) = "ball" THEN BallR2(s) ELSE 0],
     gridFeasible |-> g.feasible, gridOpt |-> g.val]

Export == res.tid # 0 \/ PrintT(ToJson(Rec(prog)))

\* oracle self-check: a vertex list is not empty and the box of decisions is consistent
OracleSane == \A s \in SetIds : SetKind(s) = "poly" => Vert(s) # {}

-----------------------------------------------------------------------------
(* Validator mode (code -> spec): post-condition of C01 / C02 on what the library returned.   *)
(* Results[k] = [prog, status ("ok"|"fail"), x, y, obj (scaled by SC), tolx (scaled), gridOpt, *)
(* gridFeasible].                                                                              *)

Res == res

\* tolerance in scaled units, supplied with the result: rounding of each returned value (1/2 unit)
\* times the coefficient mass, plus the solver's own feasibility tolerance
RowTol(tm) == Res.tol
PostFeasible ==
    /\ \A i \in 1..Len(prog.rows) :
          RowHolds(prog.rows[i], prog.dset, Res.x, Res.y, SC, RowTol(Template(prog.rows[i].t)))
    /\ YBoxHolds(prog, Res.y, SC, RowTol(0))
    /\ \A i \in 1..2 : Res.x[i] <= SC * XB + Res.tol /\ Res.x[i] >= -SC * XB - Res.tol
PostMask == /\ (1 \notin MaskSet(prog.mask) => Res.y[2] = 0)
            /\ (2 \notin MaskSet(prog.mask) => Res.y[3] = 0)
PostObjSafe ==   \* reported objective bounds the worst case at the returned solution
    IF Minimising(prog) THEN Res.obj >= WorstObj(prog, Res.x, Res.y, SC) - RowTol(0)
                        ELSE Res.obj <= WorstObj(prog, Res.x, Res.y, SC) + RowTol(0)
PostObjTight ==  \* ... and is no worse than the best grid point (exactness, one-sided)
    Res.gridFeasible =>
        IF Minimising(prog) THEN Res.obj <= SC * Res.gridOpt + RowTol(0)
                            ELSE Res.obj >= SC * Res.gridOpt - RowTol(0)
PostObjExact ==  \* all-integer models without decision rule: equality
    (prog.xint /\ prog.mask = "none" /\ Res.gridFeasible) =>
        /\ Res.obj <= SC * Res.gridOpt + RowTol(0)
        /\ Res.obj >= SC * Res.gridOpt - RowTol(0)
PostStatus ==    \* integer models: solvable exactly when the grid has a feasible point
    (prog.xint /\ prog.mask = "none") => ((Res.status = "ok") <=> Res.gridFeasible)

Verdict ==
    [tid |-> res.tid,
     feasible |-> Res.status # "ok" \/ PostFeasible,
     mask |-> Res.status # "ok" \/ PostMask,
     objsafe |-> Res.status # "ok" \/ PostObjSafe,
     objtight |-> Res.status # "ok" \/ PostObjTight,
     objexact |-> Res.status # "ok" \/ PostObjExact,
     status |-> PostStatus]

Validate == res.tid = 0 \/ PrintT(ToJson(Verdict))
=============================================================================
