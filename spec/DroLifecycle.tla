---------------------------- MODULE DroLifecycle ----------------------------
(***************************************************************************)
(* Life cycle of a rsome.dro model (C09 for ambiguity sets, the dro misuse *)
(* clauses of C17), implementation shaped:                                 *)
(*  - the ambiguity set stores the support constraints per scenario        *)
(*    UNEVALUATED (lp.py Scen.suppset); they are compiled by               *)
(*    ew_constr.forall(support) for every constraint and scenario at every *)
(*    formulation (dro.py:670, 765), through the one shared support model; *)
(*  - rule_var() caches the event-wise expansion of the decision variables *)
(*    (dro.py:146-149: `if self.var_ev_list is not None: return ...`) and  *)
(*    nothing invalidates that cache;                                      *)
(*  - do_math caches the primal behind pupdate (dro.py:412-414), st / min  *)
(*    set the flag, dvar() and adapt() do not.                             *)
(* Ghost: the declaration (supports per scenario, variables, partitions).  *)
(***************************************************************************)
EXTENDS Integers, Sequences, FiniteSets, TLC, SequencesExt, Json

CONSTANTS NS,          \* scenarios
          K,           \* constraints (constraint k lives on decision t_k)
          SetChoices,  \* support sets (sets of item kinds) that may be given to suppset
          RuleCacheFixed, \* TRUE: dvar()/adapt() invalidate the rule cache and set pupdate (not the case today)
          MaxSteps, Closing,
          Script       \* <<>>: free histories; otherwise Script[i] = the action names allowed as step i (focused exhaustive runs)

Scen == 1..NS
CIds == 1..K
NoSet == {"noset"}

VARIABLES amb,       \* ambiguity() was called
          supp,      \* supp[s]: the support declared for scenario s (NoSet if none)
          objSet,    \* minsup objective given
          decl,      \* decl[k]: decision t_k declared?  (t_1 exists from the start; others may be declared late)
          evw,       \* evw[k]: t_k adapted to every scenario (event-wise) ?
          st,        \* st[k]: constraint k added
          own,       \* own[k]: the support the constraint carries itself through .forall(..) (NoSet: the ambiguity set's supports apply)
          gen,       \* ghost: generation of the declaration
          pupd, primalGen,
          ruleGen,   \* generation of (decl, evw) the rule cache was built from; -1 = no cache
          vgen,      \* ghost: generation of (decl, evw)
          hist, out
vars == <<amb, supp, objSet, decl, evw, st, own, gen, pupd, primalGen, ruleGen, vgen, hist, out>>

SetSeq(S) == SetToSeq(S)
Log(act, args, expect) == hist' = Append(hist, [act |-> act, args |-> args, expect |-> expect])
InClosing == Closing /\ Len(hist) >= MaxSteps - 1
More == Len(hist) < MaxSteps /\ ~InClosing
Allowed(a) == Script = <<>> \/ (Len(hist) < Len(Script) /\ a \in Script[Len(hist) + 1])

Init == /\ amb = FALSE /\ supp = [s \in Scen |-> NoSet] /\ objSet = FALSE
        /\ decl = [k \in CIds |-> k = 1] /\ evw = [k \in CIds |-> FALSE] /\ st = [k \in CIds |-> FALSE]
        /\ own = [k \in CIds |-> NoSet]
        /\ gen = 0 /\ pupd = TRUE /\ primalGen = -1 /\ ruleGen = -1 /\ vgen = 0
        /\ hist = <<>> /\ out = "ok"

AnySt == \E k \in CIds : st[k]

\* m.ambiguity(): refused once constraints exist (dro.py:140)
Ambiguity ==
    /\ More /\ Allowed("ambiguity") /\ ~amb
    /\ IF AnySt THEN /\ out' = "err" /\ Log("ambiguity", <<>>, "err") /\ UNCHANGED amb
                ELSE /\ out' = "ok" /\ Log("ambiguity", <<>>, "ok") /\ amb' = TRUE
    /\ UNCHANGED <<supp, objSet, decl, evw, st, own, gen, pupd, primalGen, ruleGen, vgen>>

\* fset[s].suppset(S) / fset.suppset(S) for all scenarios (s = 0)
SuppSet(s, S) ==
    /\ More /\ Allowed("suppset") /\ amb
    /\ supp' = [t \in Scen |-> IF s = 0 \/ t = s THEN S ELSE supp[t]]
    /\ gen' = gen + 1           \* ghost: the declaration changed (nothing in the code notes it: sets are read at formulation)
    /\ out' = "ok" /\ Log("suppset", <<s, SetSeq(S)>>, "ok")
    /\ UNCHANGED <<amb, objSet, decl, evw, st, own, pupd, primalGen, ruleGen, vgen>>

SetObj ==
    /\ More /\ Allowed("minsup") /\ amb /\ ~objSet
    /\ objSet' = TRUE /\ gen' = gen + 1 /\ pupd' = TRUE
    /\ out' = "ok" /\ Log("minsup", <<>>, "ok")
    /\ UNCHANGED <<amb, supp, decl, evw, st, own, primalGen, ruleGen, vgen>>

\* a further decision variable t_k = m.dvar(): dvar() touches neither pupdate nor the rule cache
DVar(k) ==
    /\ More /\ Allowed("dvar") /\ ~decl[k]
    /\ decl' = [decl EXCEPT ![k] = TRUE] /\ vgen' = vgen + 1 /\ gen' = gen + 1
    /\ ruleGen' = IF RuleCacheFixed THEN -1 ELSE ruleGen
    /\ pupd' = IF RuleCacheFixed THEN TRUE ELSE pupd
    /\ out' = "ok" /\ Log("dvar", <<k>>, "ok")
    /\ UNCHANGED <<amb, supp, objSet, evw, st, own, primalGen>>

\* t_k.adapt(s) for every scenario: event-wise decision
Adapt(k) ==
    /\ More /\ Allowed("adapt") /\ decl[k] /\ ~evw[k]
    /\ evw' = [evw EXCEPT ![k] = TRUE] /\ vgen' = vgen + 1 /\ gen' = gen + 1
    /\ ruleGen' = IF RuleCacheFixed THEN -1 ELSE ruleGen
    /\ pupd' = IF RuleCacheFixed THEN TRUE ELSE pupd
    /\ out' = "ok" /\ Log("adapt", <<k>>, "ok")
    /\ UNCHANGED <<amb, supp, objSet, decl, st, own, primalGen>>

St(k) ==
    /\ More /\ Allowed("st") /\ decl[k] /\ ~st[k]
    /\ st' = [st EXCEPT ![k] = TRUE] /\ gen' = gen + 1 /\ pupd' = TRUE
    /\ out' = "ok" /\ Log("st", <<k, SetSeq(own[k])>>, "ok")
    /\ UNCHANGED <<amb, supp, objSet, decl, evw, own, primalGen, ruleGen, vgen>>

\* c_k.forall(S): the constraint object carries its own support (raw support constraints; lp.py DecRoConstr.forall),
\* decided before it is added; it then applies in EVERY scenario instead of the scenario's declared support
OwnSet(k, S) ==
    /\ More /\ Allowed("ownset") /\ decl[k] /\ ~st[k] /\ own[k] = NoSet
    /\ own' = [own EXCEPT ![k] = S]
    /\ out' = "ok" /\ Log("ownset", <<k, SetSeq(S)>>, "ok")
    /\ UNCHANGED <<amb, supp, objSet, decl, evw, st, gen, pupd, primalGen, ruleGen, vgen>>

\* what a formulation needs (ideal): an objective with its ambiguity set, and a support for every scenario
\* (supports are needed only once a row with random terms is in the model: the objective E(sum t) has none)
Formulable == objSet /\ ((\E k \in CIds : st[k] /\ own[k] = NoSet) => \A s \in Scen : supp[s] # NoSet)

DeclSnapshot == [k \in CIds |-> IF st[k] THEN [evw |-> evw[k], sets |-> [s \in Scen |-> SetSeq(IF own[k] # NoSet THEN own[k] ELSE supp[s])]]
                                      ELSE [evw |-> FALSE, sets |-> <<>>]]

\* transcription of do_math: cache hit | re-expansion through the (possibly stale) rule cache
CacheHit == primalGen >= 0 /\ ~pupd
StaleRules == ruleGen >= 0 /\ ruleGen # vgen
\* with a stale rule cache the expansion indexes the old variable block: the real code raises
\* (ValueError / IndexError) when the variable count changed, or silently keeps the old partition
CodeOutcome == IF ~Formulable THEN "err"
               ELSE IF CacheHit THEN "ok-cached"
               ELSE IF StaleRules THEN "stale" ELSE "ok"

SolveCore(via) ==
    /\ LET o == CodeOutcome IN
       /\ out' = IF Formulable THEN "ok" ELSE "err"          \* IDEAL outcome
       /\ Log(via, DeclSnapshot, IF Formulable THEN "ok" ELSE "err")
       /\ IF o = "ok" \/ o = "stale"
          THEN /\ pupd' = FALSE /\ primalGen' = gen
               /\ ruleGen' = IF ruleGen < 0 THEN vgen ELSE ruleGen
          ELSE UNCHANGED <<pupd, primalGen, ruleGen>>
    /\ UNCHANGED <<amb, supp, objSet, decl, evw, st, own, gen, vgen>>
Solve == More /\ Allowed("solve") /\ SolveCore("solve")
DoMath == More /\ Allowed("do_math") /\ SolveCore("do_math")
CloseSolve == Closing /\ Len(hist) = MaxSteps - 1 /\ SolveCore("solve")

Next == \/ Ambiguity \/ SetObj \/ Solve \/ DoMath \/ CloseSolve
        \/ \E s \in 0..NS, S \in SetChoices : SuppSet(s, S)
        \/ \E k \in CIds : DVar(k) \/ Adapt(k) \/ St(k)
        \/ \E k \in CIds, S \in SetChoices : OwnSet(k, S)
Spec == Init /\ [][Next]_vars

\* C09: the cached expansion of the decision variables always belongs to the current declaration
RuleCacheFresh == ruleGen >= 0 => ruleGen = vgen
\* C09: a cached primal is never served after the declaration changed
CacheCoherent == CacheHit => primalGen = gen
\* the two known ways the transcription of today's code breaks them (see KNOWN_FINDINGS C09:dro:*)
KnownStale == RuleCacheFixed \/ TRUE

ExportEnd == (Len(hist) = MaxSteps) => PrintT(ToJson([hist |-> hist, formulable |-> Formulable]))
View == <<amb, supp, objSet, decl, evw, st, own, gen, pupd, primalGen, ruleGen, vgen, out>>
=============================================================================
